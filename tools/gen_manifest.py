#!/usr/bin/env python3
"""Regenerate MANIFEST.json from tools/manifest_src.py (single source of truth)."""
import json, sys
sys.path.insert(0, "/verif/tools")
from manifest_src import CHECKS, NOT_APPLICABLE, ENGINES, NOTES
base = json.load(open("/root/.vp/BASELINE.json"))
man = {
 "version": 1,
 "setup_cmd": "./setup.sh",
 "hooks": {
   "guard": "MXLPY_VERIF",
   "enable": "not used: contracts are sidecar files under /verif/contracts and the verified text is re-read from /repo/src on every run; run-time contract checks attach by monkey-patching from the check process",
   "baseline_off_cmd": "cd /repo && /venv/bin/python -m pytest -ra -q -p no:cacheprovider --timeout=900 --continue-on-collection-errors",
   "source_commits": [],
   "add_only": True,
 },
 "engines": ENGINES,
 "checks": [],
 "notes": NOTES,
 "not_applicable": NOT_APPLICABLE,
}
for c in CHECKS:
    pid = c["id"]
    man["checks"].append({
      "property_id": pid,
      "quick_cmd": f"./check {pid} --tier quick",
      "thorough_cmd": f"./check {pid} --tier thorough",
      "evidence_file": f"/verif/evidence/{pid}.json",
      "replay_cmd_template": f"./check {pid} --replay {{path}}",
      "engine": c.get("engine", "pyvc"),
      "level_claimed": {"category": c["category"], "text": c["text"], "design_ref": c["design_ref"]},
      "level_note": c["note"],
      "technique": c["technique"],
    })
json.dump(man, open("/verif/MANIFEST.json", "w"), indent=1)
import jsonschema
jsonschema.validate(man, json.load(open("/root/.vp/MANIFEST.schema.json")))
ids = {c["property_id"] for c in man["checks"]} | {n["property_id"] for n in NOT_APPLICABLE}
allp = {json.loads(l)["id"] for l in open("/verif/properties.jsonl")}
assert ids == allp, (allp - ids, ids - allp)
print("MANIFEST.json ok:", len(man["checks"]), "checks,", len(NOT_APPLICABLE), "not_applicable")
