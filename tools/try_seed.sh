#!/usr/bin/env bash
# tools/try_seed.sh <patch.diff> <prop> [<prop>...]: apply a seeded change to /repo, run the checks, undo.
set -u
PATCH="$1"; shift
cd /repo
if ! git apply --check "$PATCH" 2>/dev/null; then
  if ! git apply --3way --check "$PATCH" 2>/dev/null; then echo "PATCH-DOES-NOT-APPLY $PATCH"; exit 9; fi
  git apply --3way "$PATCH" >/dev/null 2>&1; git reset -q
else
  git apply "$PATCH"
fi
git diff --stat | tail -1
cd /verif
for P in "$@"; do
  timeout 3000 ./check "$P" --tier "${TIER:-quick}" > /tmp/try_seed_$P.out 2>&1; rc=$?
  echo "== $P exit=$rc"; grep -E "^(VIOLATION|KNOWN-FINDING|UNDECIDED|CHECKER-ERROR|HELD|#)" /tmp/try_seed_$P.out | cut -c1-300 | head -12
done
git -C /repo checkout -- . ; git -C /repo status --short | head -3
