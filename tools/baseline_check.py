#!/venv/bin/python
"""Run the repository's pinned test suite on a tree and compare with BASELINE.json.

usage: baseline_check.py <repo_dir> [pytest args...]
exit 0 iff every stable_pass test of the baseline passes.
"""
import json, subprocess, sys, tempfile, os, xml.etree.ElementTree as ET

repo = sys.argv[1]
extra = sys.argv[2:]
base = json.load(open("/root/.vp/BASELINE.json"))
want = set(base["stable_pass"])
with tempfile.TemporaryDirectory() as td:
    xml = os.path.join(td, "r.xml")
    # mxlpy's SBML importer writes generated modules to ~/.cache/mxlpy: give every
    # run its own HOME so that concurrent runs do not race on those files
    home = os.path.join(td, "home"); os.makedirs(home)
    env = dict(os.environ, PYTHONPATH=os.path.join(repo, "src"), HOME=home)
    subprocess.run(
        ["/venv/bin/python", "-m", "pytest", "-q", "-p", "no:cacheprovider", "--timeout=900",
         "--continue-on-collection-errors", f"--junitxml={xml}", "-x" if False else "-q", *extra],
        cwd=repo, env=env, stdout=subprocess.DEVNULL, stderr=subprocess.DEVNULL)
    passed = set()
    for tc in ET.parse(xml).getroot().iter("testcase"):
        if not any(ch.tag in ("failure", "error", "skipped") for ch in tc):
            passed.add(f"{tc.get('classname')}::{tc.get('name')}")
missing = sorted(want - passed)
print(json.dumps({"baseline": len(want), "passed_now": len(passed), "baseline_tests_not_passing": missing[:50], "n_missing": len(missing)}, indent=1))
sys.exit(1 if missing else 0)
