#!/usr/bin/env bash
# tools/try_seed_scratch.sh <seed_name e.g. C04-A> <prop> [<prop>...]
# Apply a kept seed to a scratch worktree of /repo HEAD and run the checks against it
# (MXLPY_REPO), leaving /repo and the committed evidence untouched.
set -u
NAME="$1"; shift
WT=/tmp/seedtest_$NAME
rm -rf "$WT"; git -C /repo worktree prune
git -C /repo worktree add --detach "$WT" HEAD >/dev/null 2>&1 || { echo "$NAME worktree failed"; exit 2; }
cleanup() { git -C /repo worktree remove --force "$WT" >/dev/null 2>&1; rm -rf /tmp/seedev_$NAME; }
trap cleanup EXIT
cd "$WT"
P=/verif/seeded/$NAME/patch.diff
if git apply --check "$P" 2>/dev/null; then git apply "$P"; elif git apply --3way "$P" >/dev/null 2>&1; then git reset -q; else echo "$NAME: PATCH-DOES-NOT-APPLY-TO-HEAD"; exit 9; fi
mkdir -p /tmp/seedev_$NAME
cd /verif
for PR in "$@"; do
  MXLPY_REPO=$WT VERIF_EVIDENCE_DIR=/tmp/seedev_$NAME VERIF_REPLAY_DIR=/tmp/seedev_$NAME timeout 2400 ./check "$PR" --tier "${TIER:-quick}" > /tmp/seedtest_$NAME.$PR.out 2>&1; rc=$?
  nv=$(grep -c "^VIOLATION" /tmp/seedtest_$NAME.$PR.out)
  echo "$NAME vs $PR: exit=$rc violations=$nv $(grep -E '^(CHECKER|UNDEC)' /tmp/seedtest_$NAME.$PR.out | head -2 | cut -c1-160)"
  grep "^#" /tmp/seedtest_$NAME.$PR.out | head -3 | cut -c1-220
done
