ENGINES = [
 {"name": "pyvc", "path": "/verif/pyvc", "serves_properties": ["C03"],
  "kind_free_text": "own verification-condition generator: symbolic execution of the real function ASTs (re-read from /repo every run) against sidecar contracts (/verif/contracts), obligations discharged by z3 5.1 (cvc5 on unknown), validated finite-shape counter-models for refutation"},
]
NOTES = ("Contract-based deductive verification; see DESIGN.md. Exit codes: 0 held, 1 violation, 2 undecided, 3 checker error. "
         "Bounded stand-ins are labelled bounded in the evidence and never counted in obligations/discharged.")
_PENDING = "check not built yet in this round (work in progress; see DESIGN.md section 5 for the planned contracts)"
CHECKS = [
 {"id": "C03", "category": "proof", "design_ref": "5/C03",
  "text": "Every contracted public mutator of Model is proved, for all models and arguments, to preserve the name-space/record invariant Wf, to have its whole-view postcondition, to change nothing when it rejects an edit and to leave no non-None cache after changing content; history quantifier discharged by induction over Wf.",
  "note": "Assumes: typing annotations of inputs, dict representation invariant, floats as reals, rate laws pure. Mutators with loops/comprehensions not yet under contract are listed in the evidence (mutators_without_verified_contract); cache freshness relies on the syntactic obligation that only _create_cache stores a non-None cache.",
  "technique": "contract-based deductive verification (pyvc VC generation from the real AST + z3)"},
]
NOT_APPLICABLE = [{"property_id": f"C{i:02d}", "reason": _PENDING} for i in range(1, 21) if f"C{i:02d}" not in {c["id"] for c in CHECKS}]
