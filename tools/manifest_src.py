ENGINES = [
 {"name": "pyvc", "path": "/verif/pyvc", "serves_properties": ["C01", "C02", "C03", "C04", "C10", "C14", "C15", "C19"],
  "kind_free_text": "own verification-condition generator: symbolic execution of the real function ASTs (re-read from /repo every run) against sidecar contracts (/verif/contracts), obligations discharged by z3 5.1 (cvc5 on unknown), validated finite-shape counter-models for refutation"},
 {"name": "bounded", "path": "/verif/bounded", "serves_properties": ["C%02d" % i for i in range(1, 21)],
  "kind_free_text": "bounded stand-ins: the property's contract evaluated at run time on the real code over enumerated small scopes (deal/icontract/plain wrappers), never counted as proved"},
]
NOTES = ("Contract-based deductive verification; see DESIGN.md. Exit codes: 0 held, 1 violation, 2 undecided, 3 checker error. "
         "Bounded stand-ins are labelled bounded in the evidence and never counted in obligations/discharged.")
_PENDING = "check not built yet in this round (work in progress; see DESIGN.md section 5 for the planned contracts)"
_B = "bounded contract check on the real code (small-scope enumeration + run-time contract; labelled bounded, never counted as proved)"
_BN = ("Bounded stand-in only so far: the property's contract (pre/postconditions from the statement, independent oracle) is "
       "evaluated at run time on the real code over the stated scope; nothing is claimed beyond that scope. "
       "Known findings (genuine defects not repaired) are listed in known_findings.jsonl with their witnesses.")
CHECKS = [
 {"id": "C01", "category": "proof", "design_ref": "5/C01",
  "text": "Model.__call__ (both coefficient-accumulation loops, declaration order, 0 for untouched variables) and every calculate/calculate_inpl are proved for all models and states against the contract of _get_args (ghost-sum loop invariants); all entry points are additionally compared with an independent evaluator on enumerated models (bounded).",
  "note": "Assumes the contracts of _get_args/_create_cache (exercised by the bounded part, verified under C13 where in reach), floats as reals with uninterpreted products, pure rate laws, definitional axioms of fold/map. pandas-based entry points are covered by the bounded part only.",
  "technique": "contract-based deductive verification (pyvc VC generation from the real AST + z3) + bounded contract check"},
 {"id": "C03", "category": "proof", "design_ref": "5/C03",
  "text": "Every contracted public mutator of Model is proved, for all models and arguments, to preserve the name-space/record invariant Wf, to have its whole-view postcondition, to change nothing when it rejects an edit and to leave no non-None cache after changing content; history quantifier discharged by induction over Wf. Bounded: all depth-2 histories over 32 operations on the real Model.",
  "note": "Assumes: typing annotations of inputs, dict representation invariant, floats as reals, rate laws pure. Mutators with loops/comprehensions not yet under contract are listed in the evidence (mutators_without_verified_contract) and covered by the bounded part only; cache freshness relies on the syntactic obligation that only _create_cache stores a non-None cache.",
  "technique": "contract-based deductive verification (pyvc VC generation from the real AST + z3) + bounded contract check"},
]
CHECKS += [
 {"id": "C14", "category": "proof", "design_ref": "5/C14",
  "text": "Simulator.simulate_protocol is proved (loop invariant over protocol rows, using only the proved contract of Simulator.simulate) to advance the absolute time reached by exactly the cumulative end of the last step, also when continuing an earlier simulation, or to record a failure. Bounded: 69 protocols x 8 prior histories x 2 forms x time grids against closed forms and a hand-stepped simulator (per-step parameter values, boundaries, fluxes).",
  "note": "Proved part: time bookkeeping of simulate_protocol only (protocol rows abstracted as cumulative seconds, positive and increasing). That step i's parameter values are the ones applied, simulate_protocol_time_course and make_protocol are bounded only. update_parameters enters through an assumed frame.",
  "technique": "contract-based deductive verification (pyvc + z3) + bounded contract check"},
 {"id": "C04", "category": "proof", "design_ref": "5/C04",
  "text": "Simulator.simulate is proved for all simulator states: a continuation is refused exactly when the requested end is not later than the absolute time already reached; otherwise the recorded segment ends exactly at the requested absolute time whatever the integrator's shifted clock, or exactly one failure is recorded and results are unchanged. Bounded: all operation histories up to length 3 over 22 operations (simulate, time courses, overrides, parameter updates, steady state, clearing, protocols) against a closed-form piecewise oracle.",
  "note": "Proved part: Simulator.simulate only; _handle_simulation_results (pandas frame construction) and the integrator protocol enter through assumed contracts (an integrator asked for T returns, on success, a time course ending at T). simulate_time_course, update_variables, steady-state continuation and the trajectories are bounded only.",
  "technique": "contract-based deductive verification (pyvc + z3) for the continuation rule + bounded contract check"},
 {"id": "C02", "category": "proof", "design_ref": "5/C02",
  "text": "_check_if_is_sortable is proved for all graphs: it raises MissingDependenciesError exactly when some component requires a name nobody provides, the error lists exactly those names per component, and nothing is modified (ghost set fold Provided, loop invariants). _sort_dependencies (order validity, cycles, termination, cap adequacy) is covered by the bounded part: all graphs with <= 3 components x all declaration orders on the real functions, plus model-level order independence.",
  "note": "Proved part: _check_if_is_sortable only. _sort_dependencies has no verified contract yet (queue loop invariant not built): bounded only. Assumes sorted() returns the members of its argument, names pairwise distinct.",
  "technique": "contract-based deductive verification (pyvc + z3) for the completeness check + bounded contract check for the sort"},
 {"id": "C15", "category": "proof", "design_ref": "5/C15",
  "text": "Scipy.integrate_to_steady_state is proved (array objects vs. contents in the heap model, scipy's reused state buffer modelled as the library does it) to report success only if the solver completed the step and the reached state differs from the state reached by the previous call, compared as values, by less than the tolerance in the chosen norm; otherwise NoSteadyState. Numerical adequacy of the criterion is assumed (A-C15) and exercised by the bounded part on enumerated linear networks and non-steady networks.",
  "note": "Assumes the library model of scipy.integrate.ode (pyvc/lib_arr.py), uninterpreted vector operations with norm(a-a)=0, A-C15. A change of step_size/max_steps constants alone is visible only to the bounded part. Plumbing (Simulator/scan) is bounded only.",
  "technique": "contract-based deductive verification (pyvc + z3) + bounded contract check"},
 {"id": "C19", "category": "proof", "design_ref": "5/C19",
  "text": "_pickle_name, _pickle_save, _pickle_load, _load_or_run are proved over an abstract file system: functional contracts (result = fn(v), loaded value = expected value) and the crash invariant 'every existing result file is complete and holds its key's value' as an obligation after every statement and inside the model of open/dump/close, i.e. for a kill at any instant incl. mid-write. Bounded: real kills at byte offsets, partial caches, key sets, sequential/parallel on the real code.",
  "note": "Assumes the file-system/pickle model of pyvc/lib_fs.py (atomic Path.replace, partial file until close), default Cache functions, temp name not a result name, distinct keys have distinct names. parallelise (pool, ordering) is bounded only.",
  "technique": "contract-based deductive verification (pyvc + z3) incl. crash invariant + bounded contract check"},
]
CHECKS.append({"id": "C10", "category": "exploration", "design_ref": "5/C10",
  "text": "Decided by the bounded stand-in (run-time contract on the real result views over enumerated multi-segment results against an independent evaluator). In addition _normalise_split_results is under a verified contract: for every list of segments and every factor argument, segment k is divided by the scalar, by the k-th factor (when there is one factor per segment), or by the slice of the factors that starts where the rows of segments 0..k-1 end and has one factor per row (loop invariant over an integer prefix fold); nothing else is modified.",
  "note": "Level stays exploration: only the normalisation helper is proved (frames/vectors as abstract values, pyvc/lib_frame.py: which operands meet, not pandas arithmetic). Known findings (genuine defects not repaired) are listed in known_findings.jsonl with their witnesses.",
  "technique": "bounded contract check on the real code (deciding) + contract-based deductive verification (pyvc + z3) of _normalise_split_results", "engine": "bounded"})
for _p, _ref in [("C05","5/C05"),("C06","5/C06"),("C07","5/C07"),("C08","5/C08"),("C09","5/C09"),("C11","5/C11"),("C12","5/C12"),("C13","5/C13"),("C16","5/C16"),("C17","5/C17"),("C18","5/C18"),("C20","5/C20")]:
    CHECKS.append({"id": _p, "category": "exploration", "design_ref": _ref, "text": _BN, "note": "Run-time contract on the real code; oracle independent of the code under test (closed forms / recomputation from the property statement); tolerances, bounds and exclusions stated in the evidence and in proposed/" + _p + "/NOTES.md.", "technique": _B, "engine": "bounded"})
CHECKS.sort(key=lambda c: c["id"])
NOT_APPLICABLE = [{"property_id": f"C{i:02d}", "reason": _PENDING} for i in range(1, 21) if f"C{i:02d}" not in {c["id"] for c in CHECKS}]
