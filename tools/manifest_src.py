ENGINES = [
 {"name": "pyvc", "path": "/verif/pyvc", "serves_properties": ["C01", "C03"],
  "kind_free_text": "own verification-condition generator: symbolic execution of the real function ASTs (re-read from /repo every run) against sidecar contracts (/verif/contracts), obligations discharged by z3 5.1 (cvc5 on unknown), validated finite-shape counter-models for refutation"},
 {"name": "bounded", "path": "/verif/bounded", "serves_properties": ["C01","C02","C03","C04","C05","C09","C10","C14","C16","C19"],
  "kind_free_text": "bounded stand-ins: the property's contract evaluated at run time on the real code over enumerated small scopes (deal/icontract/plain wrappers), never counted as proved"},
]
NOTES = ("Contract-based deductive verification; see DESIGN.md. Exit codes: 0 held, 1 violation, 2 undecided, 3 checker error. "
         "Bounded stand-ins are labelled bounded in the evidence and never counted in obligations/discharged.")
_PENDING = "check not built yet in this round (work in progress; see DESIGN.md section 5 for the planned contracts)"
_B = "bounded contract check on the real code (small-scope enumeration + run-time contract; labelled bounded, never counted as proved)"
_BN = ("Bounded stand-in only so far: the property's contract (pre/postconditions from the statement, independent oracle) is "
       "evaluated at run time on the real code over the stated scope; nothing is claimed beyond that scope. "
       "Known findings (genuine defects not repaired) are listed in known_findings.jsonl with their witnesses.")
CHECKS = [
 {"id": "C01", "category": "proof", "design_ref": "5/C01",
  "text": "Model.__call__ (both coefficient-accumulation loops, declaration order, 0 for untouched variables) and every calculate/calculate_inpl are proved for all models and states against the contract of _get_args (ghost-sum loop invariants); all entry points are additionally compared with an independent evaluator on enumerated models (bounded).",
  "note": "Assumes the contracts of _get_args/_create_cache (exercised by the bounded part, verified under C13 where in reach), floats as reals with uninterpreted products, pure rate laws, definitional axioms of fold/map. pandas-based entry points are covered by the bounded part only.",
  "technique": "contract-based deductive verification (pyvc VC generation from the real AST + z3) + bounded contract check"},
 {"id": "C03", "category": "proof", "design_ref": "5/C03",
  "text": "Every contracted public mutator of Model is proved, for all models and arguments, to preserve the name-space/record invariant Wf, to have its whole-view postcondition, to change nothing when it rejects an edit and to leave no non-None cache after changing content; history quantifier discharged by induction over Wf. Bounded: all depth-2 histories over 32 operations on the real Model.",
  "note": "Assumes: typing annotations of inputs, dict representation invariant, floats as reals, rate laws pure. Mutators with loops/comprehensions not yet under contract are listed in the evidence (mutators_without_verified_contract) and covered by the bounded part only; cache freshness relies on the syntactic obligation that only _create_cache stores a non-None cache.",
  "technique": "contract-based deductive verification (pyvc VC generation from the real AST + z3) + bounded contract check"},
]
for _p, _ref in [("C02","5/C02"),("C04","5/C04"),("C05","5/C05"),("C09","5/C09"),("C10","5/C10"),("C14","5/C14"),("C16","5/C16"),("C19","5/C19")]:
    CHECKS.append({"id": _p, "category": "exploration", "design_ref": _ref, "text": _BN, "note": "Run-time contract on the real code; oracle independent of the code under test (closed forms / recomputation from the property statement); tolerances stated in the evidence.", "technique": _B, "engine": "bounded"})
CHECKS.sort(key=lambda c: c["id"])
NOT_APPLICABLE = [{"property_id": f"C{i:02d}", "reason": _PENDING} for i in range(1, 21) if f"C{i:02d}" not in {c["id"] for c in CHECKS}]
