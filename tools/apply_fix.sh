#!/usr/bin/env bash
# tools/apply_fix.sh <diff> "<commit message>" <pytest targets...>
set -u
D="$1"; MSG="$2"; shift 2
cd /repo
git apply --check "$D" 2>/dev/null || git apply --3way --check "$D" || { echo "DOES NOT APPLY"; exit 2; }
git apply "$D" 2>/dev/null || { git apply --3way "$D"; git reset -q; }
HOME=$(mktemp -d) PYTHONPATH=/repo/src /venv/bin/python -m pytest -q -p no:cacheprovider "$@" 2>&1 | tail -2
read -r -p "" </dev/null
git add -A src && git commit -qm "$MSG" && git log --oneline | head -1
