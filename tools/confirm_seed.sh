#!/usr/bin/env bash
# tools/confirm_seed.sh <seed_dir> <dest_name>
# Confirm a seeded change in a scratch worktree of /repo HEAD: demo passes without the
# patch, fails with it, the pinned test-suite still passes with it.  On success copy to
# /verif/seeded/<dest_name>/ with the confirmation recorded in meta.json.
set -u
SEED="$1"; NAME="$2"
WT=/tmp/confirm_$NAME
rm -rf "$WT"; git -C /repo worktree prune; git -C /repo worktree add --detach "$WT" HEAD >/dev/null 2>&1 || { echo "worktree failed"; exit 2; }
cleanup() { git -C /repo worktree remove --force "$WT" >/dev/null 2>&1; }
trap cleanup EXIT
cd "$WT"
PYTHONPATH=$WT/src timeout 600 /venv/bin/python "$SEED/demo.py" >/tmp/confirm_$NAME.clean.out 2>&1; CLEAN=$?
if git apply --check "$SEED/patch.diff" 2>/dev/null; then git apply "$SEED/patch.diff"; APPLY=clean
elif git apply --3way "$SEED/patch.diff" >/dev/null 2>&1; then git reset -q; APPLY=3way
else echo "$NAME: patch does not apply to current HEAD"; exit 3; fi
git diff > /tmp/confirm_$NAME.patch
PYTHONPATH=$WT/src timeout 600 /venv/bin/python "$SEED/demo.py" >/tmp/confirm_$NAME.patched.out 2>&1; PATCHED=$?
/verif/tools/baseline_check.py "$WT" > /tmp/confirm_$NAME.baseline.json 2>&1; BASE=$?
echo "$NAME: demo_clean_exit=$CLEAN demo_patched_exit=$PATCHED baseline_exit=$BASE apply=$APPLY"
if [ $CLEAN -eq 0 ] && [ $PATCHED -ne 0 ] && [ $BASE -eq 0 ]; then
  D=/verif/seeded/$NAME; mkdir -p "$D"
  cp /tmp/confirm_$NAME.patch "$D/patch.diff"; cp "$SEED/demo.py" "$D/demo.py"
  /venv/bin/python - "$SEED/meta.json" "$D/meta.json" "$CLEAN" "$PATCHED" "$APPLY" <<'PY'
import json, sys, subprocess
src, dst, clean, patched, apply = sys.argv[1:6]
try: m = json.load(open(src))
except Exception: m = {}
head = subprocess.run(["git","-C","/repo","rev-parse","--short","HEAD"],capture_output=True,text=True).stdout.strip()
m["confirmed_by_builder"] = {
  "repo_head": head, "patch_applied": apply,
  "ran": ["PYTHONPATH=<wt>/src /venv/bin/python demo.py  (clean tree) -> exit %s" % clean,
          "git apply patch.diff; PYTHONPATH=<wt>/src /venv/bin/python demo.py -> exit %s" % patched,
          "/verif/tools/baseline_check.py <wt>  (1378 pinned tests) -> exit 0"]}
json.dump(m, open(dst,"w"), indent=1)
PY
  echo "$NAME: KEPT"
else
  echo "$NAME: REJECTED (see /tmp/confirm_$NAME.*)"
fi
