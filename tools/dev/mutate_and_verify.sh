#!/bin/bash
# usage: mutrun.sh <file-rel> <python-subst-expr-old> <new> contracts targets
cd /tmp/mut && git checkout -q -- . 
/venv/bin/python - "$1" "$2" "$3" <<'PY'
import sys
p='/tmp/mut/'+sys.argv[1]; s=open(p).read()
old=sys.argv[2].replace('\\n','\n'); new=sys.argv[3].replace('\\n','\n')
assert s.count(old)>=1, "pattern not found"
open(p,'w').write(s.replace(old,new,1))
PY
cd /verif
MXLPY_REPO=/tmp/mut timeout 1500 .venv/bin/python /verif/tools/dev/verify_target.py "$4" "$5" 2>&1 | grep -v conda | cut -c1-200 | head -8
