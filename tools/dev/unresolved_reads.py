import sys, re
sys.path.insert(0,'/verif')
from pyvc.verify import Session
import z3
z3.set_option(max_depth=1000, max_lines=100000, max_width=200, max_args=1000)
files=sys.argv[1].split(','); target=sys.argv[2]; pat=sys.argv[3]
s=Session(files)
t=[k for k in s.contracts if target in k][0]
obls,info=s.generate(t)
o=[o for o in obls if pat in o.oid and not z3.is_true(o.goal)][0]
g=o.goal
# walk: find Select(Store(...), idx) patterns at heap level (index sort Int)
def walk(t, depth=0, out=[]):
    if z3.is_app(t) and t.decl().kind()==z3.Z3_OP_SELECT and t.arg(1).sort()==z3.IntSort():
        a=t.arg(0); chain=[]
        while z3.is_app(a) and a.decl().kind()==z3.Z3_OP_STORE:
            chain.append(str(a.arg(1))[:40]); a=a.arg(0)
        if chain: out.append((str(t.arg(1))[:80], chain[:6], len(chain)))
    if z3.is_quantifier(t): walk(t.body(),depth+1,out)
    elif z3.is_app(t):
        for c in t.children(): walk(c,depth+1,out)
    return out
seen=set()
for idx,chain,n in walk(g):
    key=(idx,tuple(chain))
    if key in seen: continue
    seen.add(key); print("READ at", idx, "| stores:", n, chain)
