import sys, time
sys.path.insert(0,'/verif')
from pyvc.verify import Session
from pyvc import solve
import z3
files=sys.argv[1].split(','); target=sys.argv[2]; pats=sys.argv[3:]
s=Session(files)
t=[k for k in s.contracts if target in k][0]
t0=time.time()
obls,info=s.generate(t)
print(info, len(obls), round(time.time()-t0,1))
sel=[o for o in obls if any(p in o.oid for p in pats) and not z3.is_true(o.goal)]
items=[(o.oid, solve.to_smt2(o.pc,o.goal), solve.to_smt2_core(o.pc,o.goal)) for o in sel]
for r in solve.discharge(items, 20000, 0):
    print(r.status, round(r.time_s,1), r.oid[-110:], r.reason[:80]) if (r.status!="unsat" or r.time_s>3) else None
