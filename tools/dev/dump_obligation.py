import sys, time, re
sys.path.insert(0,'/verif')
from pyvc.verify import Session
from pyvc import solve, sorts as S
import z3
z3.set_option(max_depth=100, max_lines=400, max_width=160, max_args=100)
files=sys.argv[1].split(','); target=sys.argv[2]; pat=sys.argv[3]; idx=[int(x) for x in sys.argv[4].split(',')]
s=Session(files)
t=[k for k in s.contracts if target in k][0]
obls,info=s.generate(t)
o=[o for o in obls if pat in o.oid and not z3.is_true(o.goal)][0]
fas=[p for p in o.pc if solve.has_forall(p)]
def short(t):
    x=str(t)
    x=re.sub(r"\s+"," ",x)
    x=x.replace("H0_seq[id(H0_fld:dyn_order[id(p_cache)])]","ORD").replace("id(H0_fld:_derived[id(p_self)])","DER").replace("id(H0_fld:_reactions[id(p_self)])","REA").replace("id(H0_fld:all_parameter_values[id(p_cache)])","APV").replace("id(H0_fld:_data[id(p_self)])","DAT").replace("id(H0_fld:_surrogates[id(p_self)])","SUR").replace("id(p_variables)","VAR")
    return x
for k in range(len(fas)): print(k, short(fas[k])[:int(sys.argv[5]) if len(sys.argv)>5 else 500]); print()
print("GOAL", short(o.goal)[:3000])
print()
for p in o.pc:
    if not solve.has_forall(p): print("  C:", short(p)[:400])
