import sys, time
sys.path.insert(0,'/verif')
from vlib.core import Ctx
from pyvc.verify import verify_into
files=sys.argv[1].split(','); targets=sys.argv[2:] or None
ctx=Ctx("X","quick")
t0=time.time()
try:
    out=verify_into(ctx,files,targets)
except Exception as e:
    import traceback; traceback.print_exc(); print("ERR",e); sys.exit(3)
print("obl",ctx.obligations,"dis",ctx.discharged,"backends",ctx.by_backend,"wall",round(time.time()-t0,1))
for f in ctx.failures: print(" FAIL",f.key, f.what[:160]); print("     ", str(f.detail.get('model'))[:500].replace("\n"," "))
for u in ctx.undecided: print(" UND",u.obligation[:170], "|", u.reason[:200])
