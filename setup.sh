#!/usr/bin/env bash
# Offline, idempotent: build the overlay interpreter the checks run under.
# python 3.12 (repo needs PEP 695) + z3-solver/cvc5/deal/icontract/crosshair/jsonschema
# from the offline wheelhouse + a .pth to /venv's site-packages so that the repo's
# third-party dependencies (numpy, pandas, sympy, scipy, libsbml, ...) import too.
set -euo pipefail
cd "$(dirname "$0")"
V=.venv
STAMP=$V/.ok
if [ -f "$STAMP" ] && "$V/bin/python" -c 'import z3, cvc5, deal, jsonschema' 2>/dev/null; then
  exit 0
fi
rm -rf "$V"
/venv/bin/python -m venv "$V"
PIP_NO_INDEX=1 "$V/bin/pip" install -q --no-index --find-links /opt/veriftools/wheels \
   z3-solver cvc5 deal icontract crosshair-tool jsonschema >/dev/null
SP=$("$V/bin/python" -c 'import sysconfig; print(sysconfig.get_paths()["purelib"])')
echo "import site; site.addsitedir('/venv/lib/python3.12/site-packages')" > "$SP/zz_repo.pth"
"$V/bin/python" - <<'PY'
import z3, cvc5, deal, jsonschema
print("overlay venv ok: z3", z3.get_version_string())
PY
touch "$STAMP"
