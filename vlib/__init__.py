"""Common plumbing shared by every property check: results, known findings,
replay files, evidence files, process exit codes.

Exit codes (DESIGN 2.4): 0 held (incl. listed known findings), 1 violation,
2 undecided, 3 checker error.
"""
