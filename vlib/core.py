from __future__ import annotations

import dataclasses
import hashlib
import json
import os
import sys
import time
import traceback
from pathlib import Path
from typing import Any, Callable

VERIF = Path(__file__).resolve().parent.parent
REPO = Path(os.environ.get("MXLPY_REPO", "/repo"))
SRC = REPO / "src" / "mxlpy"
EVIDENCE_DIR = Path(os.environ.get("VERIF_EVIDENCE_DIR", VERIF / "evidence"))
REPLAY_DIR = Path(os.environ.get("VERIF_REPLAY_DIR", VERIF / "replays"))
KNOWN_FINDINGS = VERIF / "known_findings.jsonl"

EXIT_HELD, EXIT_VIOLATION, EXIT_UNDECIDED, EXIT_ERROR = 0, 1, 2, 3


def seed() -> int:
    try:
        return int(os.environ.get("VERIF_SEED", "0"))
    except ValueError:
        return 0


@dataclasses.dataclass
class Failure:
    """One failed clause: either a refuted proof obligation or a run-time contract
    that fired on the real code in a bounded stand-in."""

    prop: str
    key: str  # stable identity used for known-finding matching
    kind: str  # "obligation" | "bounded"
    what: str  # one line, human readable
    witness: Any = None  # json-able input on which the real code fails
    replayed: bool = False  # witness was re-run natively and failed again
    detail: dict = dataclasses.field(default_factory=dict)  # solver output etc.


@dataclasses.dataclass
class Undecided:
    prop: str
    obligation: str
    reason: str


class CheckerError(Exception):
    """The machinery itself is broken (binding error, solver disagreement,
    zero obligations, stand-in explored nothing). Never a verdict on MxlPy."""


class Ctx:
    """Collects everything one run of one property's check produced."""

    def __init__(self, prop: str, tier: str) -> None:
        self.prop = prop
        self.tier = tier
        self.t0 = time.time()
        self.failures: list[Failure] = []
        self.undecided: list[Undecided] = []
        self.obligations = 0
        self.discharged = 0
        self.by_backend: dict[str, int] = {}
        self.solver_time = 0.0
        self.solver_time_max = 0.0
        self.functions: list[dict] = []  # functions under contract
        self.bounded: list[dict] = []  # bounded stand-ins
        self.samples: list[Any] = []
        self.trusted: list[str] = []
        self.assumptions: list[str] = []
        self.canaries = 0
        self.reachability = 0
        self.evaluations = 0
        self.distinct = 0
        self.rules: list[str] = []
        self.extra: dict[str, Any] = {}
        self.notes: list[str] = []

    # -- recording -------------------------------------------------------
    def trust(self, *items: str) -> None:
        for i in items:
            if i not in self.trusted:
                self.trusted.append(i)

    def assume(self, *items: str) -> None:
        for i in items:
            if i not in self.assumptions:
                self.assumptions.append(i)

    def sample(self, s: Any, limit: int = 12) -> None:
        if len(self.samples) < limit:
            self.samples.append(s)

    def fail(self, **kw: Any) -> None:
        self.failures.append(Failure(prop=self.prop, **kw))

    def add_bounded(
        self,
        name: str,
        tool: str,
        bound: str,
        cases: int,
        distinct_nontrivial: int,
        rule: str,
        exhaustive: bool = False,
        samples: list | None = None,
    ) -> None:
        if cases <= 0:
            raise CheckerError(f"bounded stand-in {name} explored nothing")
        self.bounded.append(
            {
                "name": name,
                "tool": tool,
                "bound": bound,
                "cases": cases,
                "distinct_nontrivial": distinct_nontrivial,
                "rule": rule,
                "exhaustive": exhaustive,
                "label": "bounded (never counted as proved)",
            }
        )
        self.evaluations += cases
        self.distinct += distinct_nontrivial
        self.rules.append(f"{name}: {rule}")
        for s in (samples or [])[:3]:
            self.sample({"bounded": name, "case": s})


# ---------------------------------------------------------------------------
# known findings


def load_known_findings(prop: str) -> tuple[list[dict], list[dict]]:
    open_, fixed = [], []
    if not KNOWN_FINDINGS.exists():
        return open_, fixed
    for line in KNOWN_FINDINGS.read_text().splitlines():
        line = line.strip()
        if not line or line.startswith("#"):
            continue
        if line.startswith("fixed:"):
            fixed.append({"raw": line})
            continue
        d = json.loads(line)
        if d.get("property") == prop:
            open_.append(d)
    return open_, fixed


def jsonable(x: Any) -> Any:
    try:
        json.dumps(x)
        return x
    except TypeError:
        if isinstance(x, dict):
            return {str(k): jsonable(v) for k, v in x.items()}
        if isinstance(x, (list, tuple, set, frozenset)):
            return [jsonable(v) for v in x]
        return repr(x)


def write_replay(f: Failure) -> Path:
    REPLAY_DIR.mkdir(exist_ok=True)
    h = hashlib.sha256((f.prop + "|" + f.key).encode()).hexdigest()[:12]
    p = REPLAY_DIR / f"{f.prop}-{h}.json"
    p.write_text(
        json.dumps(
            {
                "property": f.prop,
                "key": f.key,
                "kind": f.kind,
                "what": f.what,
                "witness": jsonable(f.witness),
                "replayed_on_real_code": f.replayed,
                "detail": jsonable(f.detail),
                "repo_head": _repo_head(),
            },
            indent=1,
        )
    )
    return p


def _repo_head() -> str:
    try:
        import subprocess

        return subprocess.run(
            ["git", "-C", str(REPO), "rev-parse", "HEAD"],
            capture_output=True,
            text=True,
            check=False,
        ).stdout.strip()
    except Exception:  # noqa: BLE001
        return "?"


# ---------------------------------------------------------------------------
# finishing a run


def finish(ctx: Ctx, level: str, checker_cmd: str, error: str | None = None) -> int:
    known, _fixed = load_known_findings(ctx.prop)
    known_keys = {k["key"]: k for k in known}
    matched: list[str] = []
    violations: list[tuple[Failure, Path]] = []
    seen: set[str] = set()
    for f in ctx.failures:
        if f.key in seen:
            continue
        seen.add(f.key)
        if f.key in known_keys:
            matched.append(f.key)
            print(f"KNOWN-FINDING: property={ctx.prop} {f.key}: {known_keys[f.key].get('what', f.what)}")
            continue
        violations.append((f, write_replay(f)))

    stale = [k for k in known_keys if k not in matched]

    wall = time.time() - ctx.t0
    cov: dict[str, Any] = {
        "obligations": ctx.obligations,
        "discharged": ctx.discharged,
        "by_backend": ctx.by_backend,
        "solver_time_s": {"sum": round(ctx.solver_time, 3), "max": round(ctx.solver_time_max, 3)},
        "checker_cmd": checker_cmd,
        "trusted_base": ctx.trusted,
        "functions_under_contract": ctx.functions,
        "bounded": ctx.bounded,
        "canaries_failed_as_expected": ctx.canaries,
        "reachability_checks": ctx.reachability,
        "known_findings_matched": matched,
        "known_findings_not_reproduced": stale,
        "undecided": [dataclasses.asdict(u) for u in ctx.undecided],
        "evaluations": ctx.evaluations + ctx.obligations,
        "distinct_nontrivial": ctx.distinct + ctx.discharged,
        "rule": "; ".join(ctx.rules)
        or "one case per proof obligation (distinct by obligation id); bounded cases distinct by canonical input",
        "samples": jsonable(ctx.samples) or [{"note": "no sample recorded"}],
        "explanation": "; ".join(ctx.notes) or "see DESIGN.md section for this property",
        "exhaustive": False,
    }
    cov.update(jsonable(ctx.extra))
    ev = {
        "property_id": ctx.prop,
        "tier": ctx.tier,
        "seed": seed(),
        "level": level,
        "coverage": cov,
        "assumptions": ctx.assumptions,
        "wall_s": round(wall, 2),
        "violations": len(violations),
    }
    if error:
        ev["coverage"]["checker_error"] = error
    EVIDENCE_DIR.mkdir(exist_ok=True)
    (EVIDENCE_DIR / f"{ctx.prop}.json").write_text(json.dumps(ev, indent=1))

    if error:
        print(f"CHECKER-ERROR property={ctx.prop} {error}")
        return EXIT_ERROR
    if violations:
        for f, p in violations:
            tail = "" if f.replayed else " no-failing-input-found"
            print(f"# {f.kind} {f.key}: {f.what}")
            print(f"VIOLATION property={ctx.prop} replay={p}{tail}")
        return EXIT_VIOLATION
    if ctx.undecided:
        for u in ctx.undecided:
            print(f"UNDECIDED property={ctx.prop} obligation={u.obligation} reason={u.reason}")
        return EXIT_UNDECIDED
    print(
        f"HELD property={ctx.prop} tier={ctx.tier} obligations={ctx.obligations} "
        f"discharged={ctx.discharged} bounded_cases={ctx.evaluations} "
        f"known_findings={len(matched)} wall={wall:.1f}s"
    )
    return EXIT_HELD


def run_property(prop: str, tier: str, body: Callable[[Ctx], None], level: str) -> int:
    ctx = Ctx(prop, tier)
    cmd = f"./check {prop} --tier {tier}"
    try:
        body(ctx)
    except CheckerError as e:
        return finish(ctx, level, cmd, error=f"{e}")
    except Exception as e:  # noqa: BLE001
        traceback.print_exc()
        return finish(ctx, level, cmd, error=f"{type(e).__name__}: {e}")
    return finish(ctx, level, cmd)


def main_for(prop: str, body: Callable[[Ctx], None], level: str) -> None:
    import argparse

    ap = argparse.ArgumentParser()
    ap.add_argument("--tier", default=os.environ.get("VERIF_TIER", "quick"))
    ap.add_argument("--replay", default=None)
    a = ap.parse_args()
    tier = os.environ.get("VERIF_TIER") or a.tier
    if tier not in ("quick", "thorough"):
        tier = "quick"
    sys.exit(run_property(prop, tier, body, level))
