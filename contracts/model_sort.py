# Sidecar contracts for dependency resolution  (property C02).  Parsed, never executed.
#
#   Provided(av, els, n)   ghost set: av together with everything the first n elements provide
#   solvable(av, els, j)   every name element j requires is in Provided(av, els, len(els))

ASSUMPTIONS = [
    "C02: component names handed to the sorter are pairwise distinct (they are dict keys in Model._create_cache)",
    "C02: sorted(s) returns a duplicate-free list with exactly the members of s (order itself not modelled)",
]


def Provided(av, els, n):
    return fold_prefix(lambda acc, d: setunion(acc, as_type(d, "Dependency").provided), dom(av), elems(els), n)


def solvable(av, els, j):
    # always read in the pre-state: the Dependency records are never modified
    return old(subset(els[j].required, Provided(av, els, len(els))))


def names_distinct(els):
    return forall(
        lambda i, j: implies(0 <= i and i < j and j < len(els), els[i].name != els[j].name), "int", "int"
    )


def elements_ok(els):
    return forall(lambda j: implies(0 <= j and j < len(els), has_type(els[j], "Dependency")), "int")


@contract("mxlpy.model:_check_if_is_sortable")
class check_sortable:
    requires = lambda available, elements: elements_ok(elements) and names_distinct(elements)
    raises = {
        MissingDependenciesError: lambda available, elements: exists(
            lambda j: 0 <= j and j < len(elements) and not solvable(available, elements, j), "int"
        )
    }
    # "lists exactly those names": one entry per unsolvable component, holding exactly
    # the names it requires that nobody provides
    on_raise = lambda available, elements, exc0: [
        forall(
            lambda j: implies(
                0 <= j and j < len(elements) and not solvable(available, elements, j),
                old(elements[j].name) in exc0,
            ),
            "int",
        ),
        forall(
            lambda j, x: implies(
                0 <= j and j < len(elements) and not solvable(available, elements, j),
                iff(
                    x in elems(exc0[old(elements[j].name)]),
                    old(x in elements[j].required and not select(Provided(available, elements, len(elements)), x)),
                ),
            ),
            "int",
            "val",
        ),
        forall(
            lambda k: implies(
                k in exc0,
                exists(
                    lambda j: 0 <= j and j < len(elements) and old(elements[j].name) == k and not solvable(available, elements, j),
                    "int",
                ),
            ),
            "val",
        ),
        dom(available) == old(dom(available)),
    ]
    ensures = lambda available, elements, result: [
        forall(lambda j: implies(0 <= j and j < len(elements), solvable(available, elements, j)), "int"),
        dom(available) == old(dom(available)),
    ]
    modifies = lambda available, elements: []
    loops = {
        1: lambda available, elements, all_available: [
            dom(all_available) == old(Provided(available, elements, _i)),
            dom(available) == old(dom(available)),
        ],
        2: lambda available, elements, all_available, not_solvable: [
            dom(all_available) == old(Provided(available, elements, len(elements))),
            dom(available) == old(dom(available)),
            iff(
                len(keys(not_solvable)) > 0,
                exists(lambda j: 0 <= j and j < _i and not solvable(available, elements, j), "int"),
            ),
            forall(
                lambda j: implies(
                    0 <= j and j < _i and not solvable(available, elements, j),
                    old(elements[j].name) in not_solvable,
                ),
                "int",
            ),
            forall(
                lambda j, x: implies(
                    0 <= j and j < _i and not solvable(available, elements, j),
                    iff(
                        x in elems(not_solvable[old(elements[j].name)]),
                        old(x in elements[j].required and not select(Provided(available, elements, len(elements)), x)),
                    ),
                ),
                "int",
                "val",
            ),
            forall(lambda k: implies(k in not_solvable, has_type(not_solvable[k], "list[str]")), "val"),
            forall(
                lambda k: implies(
                    k in not_solvable,
                    exists(
                        lambda j: 0 <= j and j < _i and old(elements[j].name) == k and not solvable(available, elements, j),
                        "int",
                    ),
                ),
                "val",
            ),
        ],
    }
