# Sidecar contracts for dependency resolution  (property C02).  Parsed, never executed.
#
#   Provided(av, els, n)   ghost set: av together with everything the first n elements provide
#   solvable(av, els, j)   every name element j requires is in Provided(av, els, len(els))

ASSUMPTIONS = [
    "C02: component names handed to the sorter are pairwise distinct (they are dict keys in Model._create_cache)",
    "C02: sorted(s) returns a duplicate-free list with exactly the members of s (order itself not modelled)",
]


def Provided(av, els, n):
    return fold_prefix(lambda acc, d: setunion(acc, as_type(d, "Dependency").provided), dom(av), elems(els), n)


def solvable(av, els, j):
    # always read in the pre-state: the Dependency records are never modified
    return old(subset(els[j].required, Provided(av, els, len(els))))


def names_distinct(els):
    return forall(
        lambda i, j: implies(0 <= i and i < j and j < len(els), els[i].name != els[j].name), "int", "int"
    )


def elements_ok(els):
    return forall(lambda j: implies(0 <= j and j < len(els), has_type(els[j], "Dependency")), "int")


@contract("mxlpy.model:_check_if_is_sortable")
class check_sortable:
    requires = lambda available, elements: elements_ok(elements) and names_distinct(elements)
    raises = {
        MissingDependenciesError: lambda available, elements: exists(
            lambda j: 0 <= j and j < len(elements) and not solvable(available, elements, j), "int"
        )
    }
    # "lists exactly those names": one entry per unsolvable component, holding exactly
    # the names it requires that nobody provides
    on_raise = lambda available, elements, exc0: [
        forall(
            lambda j: implies(
                0 <= j and j < len(elements) and not solvable(available, elements, j),
                old(elements[j].name) in exc0,
            ),
            "int",
        ),
        forall(
            lambda j, x: implies(
                0 <= j and j < len(elements) and not solvable(available, elements, j),
                iff(
                    x in elems(exc0[old(elements[j].name)]),
                    old(x in elements[j].required and not select(Provided(available, elements, len(elements)), x)),
                ),
            ),
            "int",
            "val",
        ),
        forall(
            lambda k: implies(
                k in exc0,
                exists(
                    lambda j: 0 <= j and j < len(elements) and old(elements[j].name) == k and not solvable(available, elements, j),
                    "int",
                ),
            ),
            "val",
        ),
        dom(available) == old(dom(available)),
    ]
    ensures = lambda available, elements, result: [
        forall(lambda j: implies(0 <= j and j < len(elements), solvable(available, elements, j)), "int"),
        dom(available) == old(dom(available)),
    ]
    modifies = lambda available, elements: []
    loops = {
        1: lambda available, elements, all_available: [
            dom(all_available) == old(Provided(available, elements, _i)),
            dom(available) == old(dom(available)),
        ],
        2: lambda available, elements, all_available, not_solvable: [
            dom(all_available) == old(Provided(available, elements, len(elements))),
            dom(available) == old(dom(available)),
            iff(
                len(keys(not_solvable)) > 0,
                exists(lambda j: 0 <= j and j < _i and not solvable(available, elements, j), "int"),
            ),
            forall(
                lambda j: implies(
                    0 <= j and j < _i and not solvable(available, elements, j),
                    old(elements[j].name) in not_solvable,
                ),
                "int",
            ),
            forall(
                lambda j, x: implies(
                    0 <= j and j < _i and not solvable(available, elements, j),
                    iff(
                        x in elems(not_solvable[old(elements[j].name)]),
                        old(x in elements[j].required and not select(Provided(available, elements, len(elements)), x)),
                    ),
                ),
                "int",
                "val",
            ),
            forall(lambda k: implies(k in not_solvable, has_type(not_solvable[k], "list[str]")), "val"),
            forall(
                lambda k: implies(
                    k in not_solvable,
                    exists(
                        lambda j: 0 <= j and j < _i and old(elements[j].name) == k and not solvable(available, elements, j),
                        "int",
                    ),
                ),
                "val",
            ),
        ],
    }


# ----------------------------------------------------------------------------- the sort
# What a caller relies on when _sort_dependencies RETURNS (C02: "each component seeing
# the finished values of everything it names"):
#   * the result has one entry per component, the entries are pairwise distinct and each
#     is the name of a component  (so, names being distinct, it is a permutation),
#   * TOPOLOGICAL: everything the component at position a requires is available before
#     position a: initially available, or provided by a component at an earlier position,
#   * `available` ends up as the initial set plus everything the components provide,
#   * a missing dependency is reported (MissingDependenciesError) exactly when the
#     completeness check says so, with `available` untouched,
#   * the loops terminate (variants): the main loop within len(elements)**2 + 1 rounds.
# NOT proved: that CircularDependencyError is raised only for cyclic graphs (adequacy of
# the n**2 cap and of the `last_name` shortcut) - decided by the bounded part.


def Named(els, n):
    return as_type(named(els, n), "Dependency")


def avail_before(av0, els, order, a, x):
    # x is available before position a of `order`
    return select(av0, x) or exists(
        lambda m: 0 <= m and m < a and x in Named(els, at(order, m)).provided, "int"
    )


def available_is(available, av0, els, order):
    # `available` = the initial set plus everything the components placed so far provide
    return (
        forall(lambda x: implies(x in available, avail_before(av0, els, order, len(order), x)), "val")
        and forall(lambda x: implies(select(av0, x), x in available), "val")
        and forall(
            lambda m, x: implies(
                0 <= m and m < len(order) and x in Named(els, at(order, m)).provided, x in available
            ),
            "int",
            "val",
        )
    )


def is_component(els, d):
    return exists(lambda j: 0 <= j and j < len(els) and at(els, j) is d, "int")


def sorted_prefix(av0, els, order):
    # `order` is duplicate free, names components only, and is topologically valid
    return (
        forall(lambda a, b: implies(0 <= a and a < b and b < len(order), at(order, a) != at(order, b)), "int", "int")
        and forall(
            lambda a: implies(
                0 <= a and a < len(order),
                is_component(els, Named(els, at(order, a))) and Named(els, at(order, a)).name == at(order, a),
            ),
            "int",
        )
        and forall(
            lambda a, x: implies(
                0 <= a and a < len(order) and x in Named(els, at(order, a)).required,
                avail_before(av0, els, order, a, x),
            ),
            "int",
            "val",
        )
    )


def waiting_ok(els, order, q):
    # the queue holds components, pairwise distinct by name and distinct from those already placed
    return (
        forall(lambda a: implies(0 <= a and a < len(q), is_component(els, at(q, a))), "int")
        and forall(lambda a, b: implies(0 <= a and a < b and b < len(q), at(q, a).name != at(q, b).name), "int", "int")
        and forall(
            lambda a, b: implies(0 <= a and a < len(order) and 0 <= b and b < len(q), at(order, a) != at(q, b).name),
            "int",
            "int",
        )
    )


def sets_apart(available, els):
    # the components' own sets are not the `available` set that the sorter extends in place
    return forall(
        lambda j: implies(
            0 <= j and j < len(els),
            not (at(els, j).required is available) and not (at(els, j).provided is available),
        ),
        "int",
    )


def fields_ok(els):
    # the records' sets exist when the sorter is entered (typing of the Dependency fields,
    # stated for all records at once because it is needed under quantifiers)
    return forall(
        lambda j: implies(
            0 <= j and j < len(els),
            has_type(at(els, j).required, "set[str]") and has_type(at(els, j).provided, "set[str]"),
        ),
        "int",
    )


@contract("mxlpy.model:_sort_dependencies")
class sort_dependencies:
    requires = lambda available, elements: (
        elements_ok(elements) and names_distinct(elements) and sets_apart(available, elements) and fields_ok(elements)
    )
    raises = {
        MissingDependenciesError: lambda available, elements: exists(
            lambda j: 0 <= j and j < len(elements) and not solvable(available, elements, j), "int"
        )
    }
    may_raise = (CircularDependencyError,)
    ensures = lambda available, elements, result: [
        len(result) == len(elements),
        sorted_prefix(old(dom(available)), elements, result),
        available_is(available, old(dom(available)), elements, result),
        unchanged(elements),
        fresh(result),
    ]
    modifies = lambda available, elements: [available]
    loops = {
        1: lambda available, elements, queue, order: [
            len(elems(queue)) == _i,
            forall(lambda a: implies(0 <= a and a < _i, at(elems(queue), a) is at(elements, a)), "int"),
            len(order) == 0,
            dom(available) == old(dom(available)),
            unchanged(elements),
            fresh(queue),
            fresh(order),
            not (queue is order),
        ],
        2: lambda available, elements, queue, order, i, max_iterations: [
            len(order) + len(elems(queue)) == len(elements),
            sorted_prefix(old(dom(available)), elements, order),
            waiting_ok(elements, order, elems(queue)),
            available_is(available, old(dom(available)), elements, order),
            unchanged(elements),
            fresh(queue),
            fresh(order),
            not (queue is order),
            i >= 0,
        ],
        3: lambda available, elements, queue, unsorted: [
            fresh(queue),
            fresh(unsorted),
            forall(lambda a: implies(0 <= a and a < len(elems(queue)), is_component(elements, at(elems(queue), a))), "int"),
            forall(
                lambda a: implies(
                    0 <= a and a < len(unsorted),
                    exists(lambda j: 0 <= j and j < len(elements) and at(elements, j).name == at(unsorted, a), "int"),
                ),
                "int",
            ),
            unchanged(elements),
        ],
    }
    variants = {
        2: lambda i, max_iterations: max_iterations + 1 - i,
        3: lambda queue: len(elems(queue)),
    }
