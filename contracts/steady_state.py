# Sidecar contracts for the steady-state search  (property C15).  Parsed, never executed.
#
# What a contract can decide here is the CRITERION and the plumbing (DESIGN 5/C15):
# success means that the states the solver reached at two consecutive time points,
# step_size apart, differ by less than the tolerance in the chosen norm; failure
# means NoSteadyState.  That the criterion implies closeness to the analytic steady
# state is numerical analysis (assumption A-C15).

ASSUMPTIONS = [
    "C15 (A-C15): for a linear stable system with relaxation time << step, ||y(t+step) - y(t)|| < tol implies closeness to the steady state on the scale of tol",
    "C15: scipy.integrate.ode.integrate(t) returns the solution at t to its tolerance, in the solver's state buffer (same object on every call)",
]


def tc(result):
    return as_type(result.value, "TimeCourse")


def T_of(result):
    return unscalar(arrv(tc(result).time))


def prev_state(ode, y0v, t, step):
    # the state one step before time t (the initial state for the first step)
    return y0v if t <= step else sol(ode, t - step)


@contract("mxlpy.integrators.int_scipy:Scipy.integrate_to_steady_state")
class integrate_to_steady_state:
    ghost = {"ode": "lib:spi.ode"}  # the scipy.integrate.ode object created in the body
    types = {"step_size": "int", "max_steps": "int", "tolerance": "float", "rel_norm": "bool"}
    requires = lambda self, tolerance, rel_norm, step_size, max_steps: step_size > 0 and max_steps >= 0
    ensures = lambda self, tolerance, rel_norm, step_size, max_steps, result, ode: [
        has_type(result, "Result"),
        # success: T is the reported time; the reported state is the solver's state at T and the
        # convergence test compared it with the state one step EARLIER (as values)
        implies(
            has_type(result.value, "TimeCourse"),
            T_of(result) >= step_size
            and arrv(tc(result).values) == stack1(sol(ode, T_of(result)))
            and vnorm(
                vdiv(
                    vsub(sol(ode, T_of(result)), prev_state(ode, arrv(old(self._y0_orig)), T_of(result), step_size)),
                    prev_state(ode, arrv(old(self._y0_orig)), T_of(result), step_size),
                )
                if rel_norm
                else vsub(sol(ode, T_of(result)), prev_state(ode, arrv(old(self._y0_orig)), T_of(result), step_size))
            )
            < tolerance,
        ),
        implies(not has_type(result.value, "TimeCourse"), has_type(result.value, "NoSteadyState")),
    ]
    modifies = lambda self, tolerance, rel_norm, step_size, max_steps: [field(self, "t0"), field(self, "y0")]
    loops = {
        1: lambda self, t, y1, step_size, ode: [
            t == step_size * (_i + 1),
            arrv(y1) == prev_state(ode, arrv(old(self._y0_orig)), step_size * (_i + 1), step_size),
            has_type(y1, "ndarray"),
            # y1 holds the previous state AS A VALUE: it is not the solver's own buffer,
            # which the next integrate() call overwrites
            y1 is not ode._buf,
        ],
    }
