# Sidecar contracts for the steady-state search  (property C15).  Parsed, never executed.
#
# What a contract can decide here is the CRITERION and the plumbing (DESIGN 5/C15):
# success means that the states the solver reached at two consecutive time points,
# step_size apart, differ by less than the tolerance in the chosen norm; failure
# means NoSteadyState.  That the criterion implies closeness to the analytic steady
# state is numerical analysis (assumption A-C15).

ASSUMPTIONS = [
    "C15 (A-C15): for a linear stable system with relaxation time << step, ||y(t+step) - y(t)|| < tol implies closeness to the steady state on the scale of tol",
    "C15: scipy.integrate.ode.integrate(t) returns the solution at t to its tolerance, in the solver's state buffer (same object on every call)",
]


def tc(result):
    return as_type(result.value, "TimeCourse")


def T_of(result):
    return unscalar(arrv(tc(result).time))


def prev_state(ode, y0v):
    # the state the previous integrate() call reached (the initial state before the first call)
    return y0v if ode.ncalls <= 1 else sol(ode, ode.t_prev)


def test_value(ode, y0v, T, rel_norm):
    return vnorm(
        vdiv(vsub(sol(ode, T), prev_state(ode, y0v)), prev_state(ode, y0v))
        if rel_norm
        else vsub(sol(ode, T), prev_state(ode, y0v))
    )


@contract("mxlpy.integrators.int_scipy:Scipy.integrate_to_steady_state")
class integrate_to_steady_state:
    ghost = {"ode": "lib:spi.ode"}  # the scipy.integrate.ode object created in the body
    types = {"step_size": "int", "max_steps": "int", "tolerance": "float", "rel_norm": "bool"}
    requires = lambda self, tolerance, rel_norm, step_size, max_steps: step_size > 0 and max_steps >= 0
    ensures = lambda self, tolerance, rel_norm, step_size, max_steps, result, ode: [
        has_type(result, "Result"),
        # success: T is the reported time; the solver completed the step to T; the reported
        # state is the solver's state at T; the convergence test compared it, in the chosen
        # norm, with the state the PREVIOUS call reached at least step_size earlier (as values)
        implies(
            has_type(result.value, "TimeCourse"),
            T_of(result) >= step_size
            and ode.t == T_of(result)
            and arrv(tc(result).values) == stack1(sol(ode, T_of(result)))
            and (ode.ncalls <= 1 or ode.t_prev <= T_of(result) - step_size)
            and test_value(ode, arrv(old(self._y0_orig)), T_of(result), rel_norm) < tolerance,
        ),
        implies(not has_type(result.value, "TimeCourse"), has_type(result.value, "NoSteadyState")),
    ]
    modifies = lambda self, tolerance, rel_norm, step_size, max_steps: [field(self, "t0"), field(self, "y0")]
    loops = {
        1: lambda self, t, y1, step_size, ode: [
            t == step_size * (_i + 1),
            ode.ncalls == _i,
            ode.t <= step_size * _i,
            arrv(y1) == (arrv(old(self._y0_orig)) if _i == 0 else sol(ode, ode.t)),
            has_type(y1, "ndarray"),
            # y1 holds the previous state AS A VALUE: it is not the solver's own buffer,
            # which the next integrate() call overwrites
            y1 is not ode._buf,
        ],
    }
