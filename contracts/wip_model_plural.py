# WORK IN PROGRESS - not loaded by any check: contracts for plural mutators (update_parameters, update_variables).
# 14 of 418 obligations still time out (predicate frames each_value + nested quantifiers).

# ----------------------------------------------------------------------------- plural edits
# A plural edit is the sequence of its single edits (ASSUMPTIONS above): it preserves
# Wf, leaves the containers' key sets as the single edits leave them, and clears the
# cache as soon as one single edit has run.  If a single edit is rejected the earlier
# ones stay applied (may_raise), exactly as for the same calls made one by one.


def keys_same(m):
    return (
        keys(m._ids) == old(keys(m._ids))
        and keys(m._variables) == old(keys(m._variables))
        and keys(m._parameters) == old(keys(m._parameters))
        and keys(m._derived) == old(keys(m._derived))
        and keys(m._readouts) == old(keys(m._readouts))
        and keys(m._reactions) == old(keys(m._reactions))
        and keys(m._surrogates) == old(keys(m._surrogates))
        and keys(m._data) == old(keys(m._data))
    )


@contract("mxlpy.model:Model.update_parameters")
class update_parameters:
    requires = lambda self, parameters: Wf(self) and not (parameters is self._parameters) and not (parameters is self._ids)
    may_raise = (KeyError,)
    ensures = lambda self, parameters, result: [
        result is self,
        Wf(self),
        content_same(self),
        len(keys(parameters)) == 0 or self._cache is None,
        len(keys(parameters)) > 0 or self._cache is old(self._cache),
        # every named parameter given as a plain value now has that value
        forall(
            lambda k: implies(
                k in parameters and not isinstance(parameters[k], Parameter),
                k in self._parameters and self._parameters[k].value is parameters[k],
            ),
            "val",
        ),
        # parameters not named are untouched
        forall(
            lambda k: implies(
                k in self._parameters and k not in parameters,
                self._parameters[k].value is old(self._parameters[k].value),
            ),
            "val",
        ),
    ]
    modifies = lambda self, parameters: [field(self, "_cache"), each_value(self._parameters)]
    loops = {
        1: lambda self, parameters: [
            Wf(self),
            content_same(self),
            _i == 0 or self._cache is None,
            _i > 0 or self._cache is old(self._cache),
            unchanged(parameters),
            forall(
                lambda k: implies(
                    before(parameters, k, _i) and not isinstance(parameters[k], Parameter),
                    k in self._parameters and self._parameters[k].value is parameters[k],
                ),
                "val",
            ),
            forall(
                lambda k: implies(
                    k in self._parameters and not before(parameters, k, _i),
                    self._parameters[k].value is old(self._parameters[k].value),
                ),
                "val",
            ),
        ],
    }


@contract("mxlpy.model:Model.update_variables")
class update_variables:
    requires = lambda self, variables: Wf(self) and not (variables is self._variables) and not (variables is self._ids)
    may_raise = (KeyError,)
    ensures = lambda self, variables, result: [
        result is self,
        Wf(self),
        content_same(self),
        len(keys(variables)) == 0 or self._cache is None,
        forall(
            lambda k: implies(
                k in variables and not isinstance(variables[k], Variable),
                k in self._variables and self._variables[k].initial_value is variables[k],
            ),
            "val",
        ),
        forall(
            lambda k: implies(
                k in self._variables and k not in variables,
                self._variables[k].initial_value is old(self._variables[k].initial_value),
            ),
            "val",
        ),
    ]
    modifies = lambda self, variables: [field(self, "_cache"), each_value(self._variables)]
    loops = {
        1: lambda self, variables: [
            Wf(self),
            content_same(self),
            _i == 0 or self._cache is None,
            unchanged(variables),
            forall(
                lambda k: implies(
                    before(variables, k, _i) and not isinstance(variables[k], Variable),
                    k in self._variables and self._variables[k].initial_value is variables[k],
                ),
                "val",
            ),
            forall(
                lambda k: implies(
                    k in self._variables and not before(variables, k, _i),
                    self._variables[k].initial_value is old(self._variables[k].initial_value),
                ),
                "val",
            ),
        ],
    }
