# PARKED (loaded by no check): frame view of the sorter, proved (86/86), only needed by wip_model_cache.py.
# Frame view of the dependency sorter (third contract view, used by the shape view of
# Model._create_cache): WITHOUT any precondition, _check_if_is_sortable writes nothing
# and _sort_dependencies writes only `available` and returns a new list - or raises.
# (What the returned order IS, under the sorter's preconditions, is proved in
# contracts/model_sort.py.)  Parsed, never executed.


@contract("mxlpy.model:_check_if_is_sortable")
class check_sortable_frame:
    requires = lambda available, elements: True
    may_raise = (Exception,)
    ensures = lambda available, elements, result: True
    modifies = lambda available, elements: []


@contract("mxlpy.model:_sort_dependencies")
class sort_dependencies_frame:
    requires = lambda available, elements: True
    may_raise = (Exception,)
    ensures = lambda available, elements, result: [fresh(result), unchanged(elements)]
    modifies = lambda available, elements: [available]
