# Sidecar contracts for the Simulator's continuation rule  (property C04).  Parsed, never executed.
#
# reached(s): the absolute model time already reached = last index label of the last
# recorded frame (0 before the first simulation).  The integrator works on its own
# clock that restarts at 0 after a variable override; `_time_shift` maps it back.

TYPE_ALIAS = {"IntegratorProtocol": "AbstractIntegrator", "IntegratorType": "function"}

ASSUMPTIONS = [
    "C04: an integrator asked for end time T returns, on success, a NEW TimeCourse ending at T on its own clock (tc_end = last element of its time vector; proved for the shipped Scipy integrator in contracts/scipy_integrator.py)",
    "C04: pandas / numpy facts used by _handle_simulation_results: DataFrame(index=a) has last index label a[-1]; frame.iloc[1:, :] keeps the last label (frames have at least two rows); (a += r)[-1] = a[-1] + r; Model.get_parameter_values does not raise right after a successful integration",
    "C04: result frames are immutable; frame.index[-1] is the ghost last_time of the frame",
    "C04: that solve_ivp returns the ODE solution to tolerance is assumed; trajectories are checked by the bounded stand-in",
]


def reached(s):
    return 0.0 if s.variables is None else last_time(s.variables[len(s.variables) - 1])


def shift(s):
    return 0.0 if s._time_shift is None else s._time_shift


def tc_last(tc):
    # the ghost tc_end of a TimeCourse IS the last element of its time vector; the time
    # course and its time vector are new objects made by the integrator (the simulator
    # shifts the vector in place)
    return (
        tc_end(tc) == v_last(as_type(as_type(tc, "TimeCourse").time, "Array"))
        and fresh(tc)
        and fresh(as_type(tc, "TimeCourse").time)
    )


def Inv(s):
    return (
        (s.variables is None or len(s.variables) > 0)
        and not (s._errors is s.variables)
        and (s.simulation_parameters is None or not (s.simulation_parameters is s.variables))
        and (s.simulation_parameters is None or not (s.simulation_parameters is s._errors))
    )


@contract("mxlpy.integrators.abstract:AbstractIntegrator.integrate")
class integrator_integrate:
    trusted = "abstract method of the integrator protocol: assumed contract (C04 ASSUMPTIONS); the shipped Scipy integrator is exercised by the bounded stand-in"
    ensures = lambda self, t_end, steps, result: [
        has_type(result, "Result"),
        req_end(result) == t_end,
        implies(has_type(result.value, "TimeCourse"), tc_end(result.value) == t_end and tc_last(result.value)),
    ]
    modifies = lambda self, t_end, steps: [self]


@contract("mxlpy.simulator:Simulator._handle_simulation_results")
class handle_results:
    # proved (was assumed): the recorded frame's last index label is the time course's last
    # point shifted back to absolute time; numpy / pandas facts: pyvc/lib_tp.py, lib_frame.py, lib_pd.py
    opts = {"timepoints": True}
    requires = lambda self, result, skipfirst: (
        Inv(self) and has_type(result, "Result") and implies(has_type(result.value, "TimeCourse"), tc_last(result.value))
    )
    ensures = lambda self, result, skipfirst: [
        Inv(self),
        self._time_shift is old(self._time_shift),
        self.variables is None or self.variables is old(self.variables) or fresh(self.variables),
        self.simulation_parameters is None
        or self.simulation_parameters is old(self.simulation_parameters)
        or fresh(self.simulation_parameters),
        implies(
            has_type(old(result.value), "TimeCourse"),
            self.variables is not None
            and len(self.variables) == (1 if old(self.variables is None) else old(len(self.variables)) + 1)
            and reached(self) == tc_end(old(result.value)) + shift(self)
            and unchanged(self._errors),
        ),
        implies(
            not has_type(old(result.value), "TimeCourse"),
            self.variables is old(self.variables)
            and (self.variables is None or unchanged(self.variables))
            and len(self._errors) == old(len(self._errors)) + 1,
        ),
    ]
    modifies = lambda self, result, skipfirst: [
        field(self, "variables"),
        field(self, "simulation_parameters"),
        self._errors,
        maybe(self.variables),
        maybe(self.simulation_parameters),
        field(self.model, "_cache"),
        # `time += shift` updates the returned time vector in place (only a TimeCourse has one)
        maybe(as_type(result.value, "TimeCourse").time if has_type(result.value, "TimeCourse") else None),
    ]


@contract("mxlpy.simulator:Simulator.simulate")
class simulate:
    requires = lambda self, t_end, steps: Inv(self)
    # "A continuation is refused exactly when its requested end is not later than the
    # time already reached" - in ABSOLUTE model time, whatever the integrator's clock
    raises = {ValueError: lambda self, t_end, steps: len(self._errors) == 0 and t_end <= reached(self)}
    on_raise = lambda self, t_end, steps: [
        self.variables is old(self.variables),
        self.variables is None or unchanged(self.variables),
        unchanged(self._errors),
    ]
    ensures = lambda self, t_end, steps, result: [
        result is self,
        Inv(self),
        self.variables is None or self.variables is old(self.variables) or fresh(self.variables),
        self.simulation_parameters is None
        or self.simulation_parameters is old(self.simulation_parameters)
        or fresh(self.simulation_parameters),
        self._time_shift is old(self._time_shift),
        # an earlier failure blocks the simulator: nothing is recorded
        implies(
            old(len(self._errors)) > 0,
            self.variables is old(self.variables) and unchanged(self._errors),
        ),
        # otherwise either the new segment ends exactly at the requested ABSOLUTE time ...
        implies(
            old(len(self._errors)) == 0 and len(self._errors) == 0,
            self.variables is not None and reached(self) == t_end and reached(self) > old(reached(self)),
        ),
        # ... or exactly one failure was recorded and the results are as before
        implies(
            old(len(self._errors)) == 0 and len(self._errors) > 0,
            self.variables is old(self.variables) and len(self._errors) == 1,
        ),
    ]
    modifies = lambda self, t_end, steps: [
        field(self, "variables"),
        field(self, "simulation_parameters"),
        self._errors,
        self.integrator,
        maybe(self.variables),
        maybe(self.simulation_parameters),
        field(self.model, "_cache"),
    ]


# ----------------------------------------------------------------------------- protocols (C14)


def protocol_ok(p):
    # cumulative step ends: positive and strictly increasing (make_protocol with positive durations)
    return forall(
        lambda i: implies(
            0 <= i and i < n_rows(p),
            row_secs(p, i) > 0 and implies(i > 0, row_secs(p, i) > row_secs(p, i - 1)),
        ),
        "int",
    )


def end_of(p, t0, i):
    # absolute end of step i-1 (t0 before the first step)
    return t0 if i == 0 else t0 + row_secs(p, i - 1)


@contract("mxlpy.model:Model.get_parameter_values")
class model_get_parameter_values:
    trusted = "reads (and may build) the model cache, bounded under C13; here only its frame is used, and it is assumed not to raise when called right after a successful integration of the same model (the cache has been built for that run)"
    ensures = lambda self, result: True
    modifies = lambda self: [field(self, "_cache")]


@contract("mxlpy.model:Model.update_parameters")
class model_update_parameters:
    trusted = "plural edit = sequence of single edits (C03); contract in progress (contracts/wip_model_plural.py); here only its frame is used"
    may_raise = (KeyError,)
    # coarse frame: the value/unit/source attributes of records (no other object has such attributes)
    modifies = lambda self, parameters: [field(self, "_cache"), field_map("value"), field_map("unit"), field_map("source")]


@contract("mxlpy.simulator:Simulator.simulate_protocol")
class simulate_protocol:
    requires = lambda self, protocol, time_points_per_step: Inv(self) and protocol_ok(protocol)
    may_raise = (KeyError,)  # a protocol column that is not a model parameter
    ensures = lambda self, protocol, time_points_per_step, result: [
        result is self,
        Inv(self),
        # without failures every step was simulated: the time reached is the start plus the
        # cumulative end of the last step - also when the protocol continues a simulation
        implies(
            len(self._errors) == 0 and n_rows(protocol) > 0,
            self.variables is not None
            and reached(self) == old(reached(self)) + row_secs(protocol, n_rows(protocol) - 1),
        ),
        implies(old(len(self._errors)) > 0, self.variables is old(self.variables) and unchanged(self._errors)),
    ]
    modifies = lambda self, protocol, time_points_per_step: [
        field(self, "variables"),
        field(self, "simulation_parameters"),
        self._errors,
        self.integrator,
        maybe(self.variables),
        maybe(self.simulation_parameters),
        field(self.model, "_cache"),
        field_map("value"),
        field_map("unit"),
        field_map("source"),
    ]
    loops = {
        1: lambda self, protocol, t_start: [
            Inv(self),
            t_start == old(reached(self)),
            old(len(self._errors)) == 0,
            implies(len(self._errors) == 0, reached(self) == end_of(protocol, t_start, _i)),
            implies(len(self._errors) == 0 and _i > 0, self.variables is not None),
            self._time_shift is old(self._time_shift),
            # the result lists are the ones the simulator had, or ones created since
            self.variables is None or self.variables is old(self.variables) or fresh(self.variables),
            self.simulation_parameters is None
            or self.simulation_parameters is old(self.simulation_parameters)
            or fresh(self.simulation_parameters),
            self._errors is old(self._errors),
            self.integrator is old(self.integrator),
            self.model is old(self.model),
        ],
    }


# ----------------------------------------------------------------------------- time courses (C04)
# simulate_time_course is simulate with an explicit grid: the same continuation rule in
# ABSOLUTE time, decided on the LAST requested point.  numpy vectors: pyvc/lib_tp.py.


@contract("mxlpy.integrators.abstract:AbstractIntegrator.integrate_time_course")
class integrator_integrate_time_course:
    trusted = "abstract method of the integrator protocol: assumed contract (an integrator asked for a grid returns, on success, a TimeCourse ending at the last grid point on its own clock); the shipped Scipy integrator is exercised by the bounded stand-in"
    ensures = lambda self, time_points, result: [
        has_type(result, "Result"),
        req_end(result) == v_last(time_points),
        implies(has_type(result.value, "TimeCourse"), tc_end(result.value) == v_last(time_points) and tc_last(result.value)),
    ]
    modifies = lambda self, time_points: [self]


@contract("mxlpy.simulator:Simulator.simulate_time_course")
class simulate_time_course:
    opts = {"timepoints": True}
    requires = lambda self, time_points: Inv(self)
    raises = {ValueError: lambda self, time_points: len(self._errors) == 0 and v_last(time_points) <= reached(self)}
    on_raise = lambda self, time_points: [
        self.variables is old(self.variables),
        self.variables is None or unchanged(self.variables),
        unchanged(self._errors),
    ]
    ensures = lambda self, time_points, result: [
        result is self,
        Inv(self),
        self._time_shift is old(self._time_shift),
        implies(
            old(len(self._errors)) > 0,
            self.variables is old(self.variables) and unchanged(self._errors),
        ),
        # the new segment ends exactly at the last requested point, in absolute time ...
        implies(
            old(len(self._errors)) == 0 and len(self._errors) == 0,
            self.variables is not None
            and reached(self) == old(v_last(time_points))
            and reached(self) > old(reached(self)),
        ),
        # ... or exactly one failure was recorded and the results are as before
        implies(
            old(len(self._errors)) == 0 and len(self._errors) > 0,
            self.variables is old(self.variables) and len(self._errors) == 1,
        ),
    ]
    modifies = lambda self, time_points: [
        field(self, "variables"),
        field(self, "simulation_parameters"),
        self._errors,
        self.integrator,
        maybe(self.variables),
        maybe(self.simulation_parameters),
        field(self.model, "_cache"),
    ]


# ----------------------------------------------------------------------------- variable overrides (C04)
# Simulator.update_variables restarts the integrator's clock: afterwards `_time_shift` is
# the ABSOLUTE time of the last recorded state (not an accumulated value), nothing
# recorded so far changes, and the override is applied on top of the state the
# simulation continues from.  Together with the contracts above: whatever sequence of
# overrides and simulations, a continuation is decided and recorded in absolute time.


@contract("mxlpy.simulator:Simulator._initialise_integrator")
class initialise_integrator:
    trusted = "builds the integrator object (symbolic Jacobian, lambdify, integrator constructor): outside the deductive part; only the frame is used - it stores a newly constructed integrator in the integrator field"
    may_raise = (Exception,)
    ensures = lambda self, result: fresh(self.integrator)
    modifies = lambda self: [field(self, "integrator")]


@contract("mxlpy.simulator:Simulator.update_variables")
class update_variables_clock:
    requires = lambda self, variables: Inv(self) and not (variables is self.variables) and not (variables is self._errors)
    may_raise = (Exception,)
    ensures = lambda self, variables, result: [
        result is self,
        Inv(self),
        self.variables is old(self.variables),
        self.variables is None or unchanged(self.variables),
        unchanged(self._errors),
        implies(old(self.variables is None), self._time_shift is old(self._time_shift)),
        implies(old(self.variables is not None), self._time_shift is not None and self._time_shift == old(reached(self))),
        fresh(self.y0),
        fresh(self.integrator),
        forall(lambda k: implies(k in variables, k in self.y0 and self.y0[k] is variables[k]), "val"),
        # nothing simulated since the last restart: earlier overrides are kept
        implies(
            old(self.variables is None) or old(self._time_shift is not None and self._time_shift == reached(self)),
            forall(lambda k: implies(old(k in self.y0) and not (k in variables), k in self.y0 and self.y0[k] is old(self.y0[k])), "val"),
        ),
    ]
    modifies = lambda self, variables: [field(self, "y0"), field(self, "_time_shift"), field(self, "integrator")]


# ----------------------------------------------------------------------------- results and steady state (C04 / C15)
# get_result: a recorded failure is what the caller gets ("absence of a steady state is
# reported as failure", C15); a Simulation is only handed out when nothing failed, and it
# holds exactly the recorded segments and their parameter snapshots.


@contract("mxlpy.simulator:Simulator.get_result")
class get_result:
    requires = lambda self: Inv(self)
    ensures = lambda self, result: [
        fresh(result),
        implies(len(self._errors) > 0, result.value is self._errors[0]),
        implies(
            len(self._errors) == 0 and (self.variables is None or self.simulation_parameters is None),
            has_type(result.value, "IntegrationFailure"),
        ),
        implies(
            len(self._errors) == 0 and self.variables is not None and self.simulation_parameters is not None,
            has_type(result.value, "Simulation")
            and result.value.raw_variables is self.variables
            and result.value.raw_parameters is self.simulation_parameters
            and result.value.model is self.model,
        ),
        unchanged(self._errors),
    ]
    modifies = lambda self: []


@contract("mxlpy.integrators.abstract:AbstractIntegrator.integrate_to_steady_state")
class integrator_integrate_to_steady_state:
    trusted = "abstract method of the integrator protocol (the shipped Scipy implementation is verified under C15, contracts/steady_state.py): returns a Result"
    ensures = lambda self, tolerance, rel_norm, result: [
        has_type(result, "Result"),
        implies(has_type(result.value, "TimeCourse"), tc_last(result.value)),
    ]
    modifies = lambda self, tolerance, rel_norm: [self]


@contract("mxlpy.simulator:Simulator.simulate_to_steady_state")
class simulate_to_steady_state:
    requires = lambda self, tolerance, rel_norm: Inv(self)
    may_raise = (Exception,)
    ensures = lambda self, tolerance, rel_norm, result: [
        result is self,
        Inv(self),
        # an earlier failure blocks the simulator
        implies(
            old(len(self._errors)) > 0,
            self.variables is old(self.variables) and unchanged(self._errors) and self._time_shift is old(self._time_shift),
        ),
        # a failed search is recorded as exactly one failure and adds no segment
        implies(
            old(len(self._errors)) == 0 and len(self._errors) > 0,
            len(self._errors) == 1 and self.variables is old(self.variables),
        ),
        # a successful search adds one segment and restarts the clock at its (absolute) end,
        # so that a later simulate() continues from the steady state
        implies(
            old(len(self._errors)) == 0 and len(self._errors) == 0,
            self.variables is not None
            and len(self.variables) == (1 if old(self.variables is None) else old(len(self.variables)) + 1)
            and self._time_shift is not None
            and self._time_shift == reached(self),
        ),
    ]
    modifies = lambda self, tolerance, rel_norm: [
        field(self, "variables"),
        field(self, "simulation_parameters"),
        field(self, "y0"),
        field(self, "_time_shift"),
        field(self, "integrator"),
        self._errors,
        self.integrator,
        maybe(self.variables),
        maybe(self.simulation_parameters),
        field(self.model, "_cache"),
    ]
