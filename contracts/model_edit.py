# Sidecar contracts for the public mutators of mxlpy.model.Model  (property C03).
# Parsed, never executed.  Clause vocabulary: pyvc/spec.py.
#
# Wf(m) is the representation invariant every public operation must preserve:
#   * the eight containers are distinct objects,
#   * ONE NAME SPACE: a name is a parameter/variable/derived/reaction/readout/data
#     exactly when _ids records it with that kind; surrogates and their outputs are
#     recorded with kind "surrogate"; "time" is never a name,
#   * component records are proper objects.
# Cache freshness is stated operationally per mutator (cache_ok): a mutator returns
# with a non-None cache only if it has not changed any content location.  Together
# with "only _create_cache stores a non-None cache" (syntactic obligation checked by
# props/C03.py) this gives: a non-None cache was computed from the current content.

TYPE_ALIAS = {"SurrogateProtocol": "AbstractSurrogate"}

ASSUMPTIONS = [
    "C03: plural mutators (add_parameters, ...) are sequences of single edits; 'a rejected edit changes nothing' is stated for single edits",
    "annotated inputs have their annotated types (typing preconditions derived from the repository's own annotations)",
    "every surrogate is an AbstractSurrogate (SurrogateProtocol alias)",
]


def containers_distinct(m):
    return distinct(m._ids, m._variables, m._parameters, m._derived, m._readouts, m._reactions, m._surrogates, m._data)


def kinds_ok(m):
    return forall(
        lambda k: (
            iff(k in m._parameters, k in m._ids and m._ids[k] == "parameter")
            and iff(k in m._variables, k in m._ids and m._ids[k] == "variable")
            and iff(k in m._derived, k in m._ids and m._ids[k] == "derived")
            and iff(k in m._reactions, k in m._ids and m._ids[k] == "reaction")
            and iff(k in m._readouts, k in m._ids and m._ids[k] == "readout")
            and iff(k in m._data, k in m._ids and m._ids[k] == "data")
            and implies(k in m._surrogates, k in m._ids and m._ids[k] == "surrogate")
        ),
        "str",
    )


def records_ok(m):
    return forall(
        lambda k: (
            implies(k in m._parameters, has_type(m._parameters[k], "Parameter"))
            and implies(k in m._variables, has_type(m._variables[k], "Variable"))
            and implies(k in m._derived, has_type(m._derived[k], "Derived"))
            and implies(k in m._reactions, has_type(m._reactions[k], "Reaction"))
            and implies(k in m._readouts, has_type(m._readouts[k], "Readout"))
        ),
        "str",
    )


def Wf(m):
    return containers_distinct(m) and kinds_ok(m) and records_ok(m) and "time" not in m._ids


def same(d):
    # container d has exactly its old contents (keys, order, values)
    return unchanged(d)


def others_same7(m, a):
    # all containers except _ids and `a` are untouched
    return (
        (a is m._variables or same(m._variables))
        and (a is m._parameters or same(m._parameters))
        and (a is m._derived or same(m._derived))
        and (a is m._readouts or same(m._readouts))
        and (a is m._reactions or same(m._reactions))
        and (a is m._surrogates or same(m._surrogates))
        and (a is m._data or same(m._data))
    )


def content_same(m):
    return (
        same(m._ids)
        and same(m._variables)
        and same(m._parameters)
        and same(m._derived)
        and same(m._readouts)
        and same(m._reactions)
        and same(m._surrogates)
        and same(m._data)
    )


def added(d, k):
    # k is a new last key of d, everything else as before
    return (
        keys(d) == old(keys(d)) + [k]
        and dom(d) == store(old(dom(d)), k, True)
        and vals(d) == store(old(vals(d)), k, d[k])
    )


def removed(d, k):
    return (
        keys(d) == seq_remove(old(keys(d)), k)
        and dom(d) == store(old(dom(d)), k, False)
        and vals(d) == old(vals(d))
    )


# ----------------------------------------------------------------------------- ids


@contract("mxlpy.model:Model._insert_id")
class insert_id:
    raises = {
        KeyError: lambda self, name, ctx: name == "time",
        NameError: lambda self, name, ctx: name != "time" and name in self._ids,
    }
    on_raise = lambda self, name, ctx: same(self._ids)
    ensures = lambda self, name, ctx, result: [
        added(self._ids, name),
        self._ids[name] == ctx,
    ]
    modifies = lambda self, name, ctx: [self._ids]
    opts = {"allocates": False}


@contract("mxlpy.model:Model._remove_id")
class remove_id:
    raises = {KeyError: lambda self, name: name not in self._ids}
    on_raise = lambda self, name: same(self._ids)
    ensures = lambda self, name, result: removed(self._ids, name)
    modifies = lambda self, name: [self._ids]
    opts = {"allocates": False}


# ----------------------------------------------------------------------------- parameters


@contract("mxlpy.model:Model.add_parameter")
class add_parameter:
    requires = lambda self, name, value, unit, source: Wf(self)
    raises = {
        KeyError: lambda self, name, value, unit, source: name == "time",
        NameError: lambda self, name, value, unit, source: name != "time" and name in self._ids,
    }
    on_raise = lambda self, name, value, unit, source: content_same(self)
    ensures = lambda self, name, value, unit, source, result: [
        result is self,
        Wf(self),
        self._cache is None,
        added(self._ids, name),
        self._ids[name] == "parameter",
        added(self._parameters, name),
        fresh(self._parameters[name]),
        self._parameters[name].value is value,
        self._parameters[name].unit is unit,
        self._parameters[name].source is source,
        others_same7(self, self._parameters),
    ]
    modifies = lambda self, name, value, unit, source: [field(self, "_cache"), self._ids, self._parameters]


@contract("mxlpy.model:Model.remove_parameter")
class remove_parameter:
    requires = lambda self, name: Wf(self)
    raises = {KeyError: lambda self, name: name not in self._parameters}
    on_raise = lambda self, name: content_same(self)
    ensures = lambda self, name, result: [
        result is self,
        Wf(self),
        self._cache is None,
        removed(self._ids, name),
        removed(self._parameters, name),
        others_same7(self, self._parameters),
    ]
    modifies = lambda self, name: [field(self, "_cache"), self._ids, self._parameters]


@contract("mxlpy.model:Model.update_parameter")
class update_parameter:
    requires = lambda self, name, value, unit, source: Wf(self)
    raises = {KeyError: lambda self, name, value, unit, source: name not in self._parameters}
    on_raise = lambda self, name, value, unit, source: content_same(self)
    ensures = lambda self, name, value, unit, source, result: [
        result is self,
        Wf(self),
        self._cache is None,
        content_same(self),
        self._parameters[name].value is (old(self._parameters[name].value) if value is None else value),
        self._parameters[name].unit is (old(self._parameters[name].unit) if unit is None else unit),
        self._parameters[name].source is (old(self._parameters[name].source) if source is None else source),
    ]
    modifies = lambda self, name, value, unit, source: [
        field(self, "_cache"),
        field(self._parameters[name], "value"),
        field(self._parameters[name], "unit"),
        field(self._parameters[name], "source"),
    ]


# ----------------------------------------------------------------------------- variables


@contract("mxlpy.model:Model.add_variable")
class add_variable:
    requires = lambda self, name, initial_value, unit, source: Wf(self)
    raises = {
        KeyError: lambda self, name, initial_value, unit, source: name == "time",
        NameError: lambda self, name, initial_value, unit, source: name != "time" and name in self._ids,
    }
    on_raise = lambda self, name, initial_value, unit, source: content_same(self)
    ensures = lambda self, name, initial_value, unit, source, result: [
        result is self,
        Wf(self),
        self._cache is None,
        added(self._ids, name),
        self._ids[name] == "variable",
        added(self._variables, name),
        fresh(self._variables[name]),
        self._variables[name].initial_value is initial_value,
        self._variables[name].unit is unit,
        self._variables[name].source is source,
        others_same7(self, self._variables),
    ]
    modifies = lambda self, name, initial_value, unit, source: [field(self, "_cache"), self._ids, self._variables]


@contract("mxlpy.model:Model.update_variable")
class update_variable:
    requires = lambda self, name, initial_value, unit, source: Wf(self)
    raises = {KeyError: lambda self, name, initial_value, unit, source: name not in self._variables}
    on_raise = lambda self, name, initial_value, unit, source: content_same(self)
    ensures = lambda self, name, initial_value, unit, source, result: [
        result is self,
        Wf(self),
        self._cache is None,
        content_same(self),
        self._variables[name].initial_value
        is (old(self._variables[name].initial_value) if initial_value is None else initial_value),
        self._variables[name].unit is (old(self._variables[name].unit) if unit is None else unit),
        self._variables[name].source is (old(self._variables[name].source) if source is None else source),
    ]
    modifies = lambda self, name, initial_value, unit, source: [
        field(self, "_cache"),
        field(self._variables[name], "initial_value"),
        field(self._variables[name], "unit"),
        field(self._variables[name], "source"),
    ]


# ----------------------------------------------------------------------------- derived


@contract("mxlpy.model:Model.add_derived")
class add_derived:
    requires = lambda self, name, fn, args, unit: Wf(self)
    raises = {
        KeyError: lambda self, name, fn, args, unit: name == "time",
        NameError: lambda self, name, fn, args, unit: name != "time" and name in self._ids,
    }
    on_raise = lambda self, name, fn, args, unit: content_same(self)
    ensures = lambda self, name, fn, args, unit, result: [
        result is self,
        Wf(self),
        self._cache is None,
        added(self._ids, name),
        self._ids[name] == "derived",
        added(self._derived, name),
        fresh(self._derived[name]),
        self._derived[name].fn is fn,
        self._derived[name].args is args,
        self._derived[name].unit is unit,
        others_same7(self, self._derived),
    ]
    modifies = lambda self, name, fn, args, unit: [field(self, "_cache"), self._ids, self._derived]


@contract("mxlpy.model:Model.update_derived")
class update_derived:
    requires = lambda self, name, fn, args, unit: Wf(self)
    raises = {KeyError: lambda self, name, fn, args, unit: name not in self._derived}
    on_raise = lambda self, name, fn, args, unit: content_same(self)
    ensures = lambda self, name, fn, args, unit, result: [
        result is self,
        Wf(self),
        self._cache is None,
        content_same(self),
        self._derived[name].fn is (old(self._derived[name].fn) if fn is None else fn),
        self._derived[name].args is (old(self._derived[name].args) if args is None else args),
        self._derived[name].unit is (old(self._derived[name].unit) if unit is None else unit),
    ]
    modifies = lambda self, name, fn, args, unit: [field(self, "_cache"), self._derived[name]]


@contract("mxlpy.model:Model.remove_derived")
class remove_derived:
    requires = lambda self, name: Wf(self)
    raises = {KeyError: lambda self, name: name not in self._derived}
    on_raise = lambda self, name: content_same(self)
    ensures = lambda self, name, result: [
        result is self,
        Wf(self),
        self._cache is None,
        removed(self._ids, name),
        removed(self._derived, name),
        others_same7(self, self._derived),
    ]
    modifies = lambda self, name: [field(self, "_cache"), self._ids, self._derived]


# ----------------------------------------------------------------------------- reactions


@contract("mxlpy.model:Model.remove_reaction")
class remove_reaction:
    requires = lambda self, name: Wf(self)
    raises = {KeyError: lambda self, name: name not in self._reactions}
    on_raise = lambda self, name: content_same(self)
    ensures = lambda self, name, result: [
        result is self,
        Wf(self),
        self._cache is None,
        removed(self._ids, name),
        removed(self._reactions, name),
        others_same7(self, self._reactions),
    ]
    modifies = lambda self, name: [field(self, "_cache"), self._ids, self._reactions]


# ----------------------------------------------------------------------------- readouts


@contract("mxlpy.model:Model.add_readout")
class add_readout:
    requires = lambda self, name, fn, args, unit: Wf(self)
    raises = {
        KeyError: lambda self, name, fn, args, unit: name == "time",
        NameError: lambda self, name, fn, args, unit: name != "time" and name in self._ids,
    }
    on_raise = lambda self, name, fn, args, unit: content_same(self)
    ensures = lambda self, name, fn, args, unit, result: [
        result is self,
        Wf(self),
        self._cache is None,
        added(self._ids, name),
        self._ids[name] == "readout",
        added(self._readouts, name),
        fresh(self._readouts[name]),
        self._readouts[name].fn is fn,
        self._readouts[name].args is args,
        self._readouts[name].unit is unit,
        others_same7(self, self._readouts),
    ]
    modifies = lambda self, name, fn, args, unit: [field(self, "_cache"), self._ids, self._readouts]


@contract("mxlpy.model:Model.remove_readout")
class remove_readout:
    requires = lambda self, name: Wf(self)
    raises = {KeyError: lambda self, name: name not in self._readouts}
    on_raise = lambda self, name: content_same(self)
    ensures = lambda self, name, result: [
        result is self,
        Wf(self),
        self._cache is None,
        removed(self._ids, name),
        removed(self._readouts, name),
        others_same7(self, self._readouts),
    ]
    modifies = lambda self, name: [field(self, "_cache"), self._ids, self._readouts]


# ----------------------------------------------------------------------------- data


@contract("mxlpy.model:Model.add_data")
class add_data:
    requires = lambda self, name, data: Wf(self)
    raises = {
        KeyError: lambda self, name, data: name == "time",
        NameError: lambda self, name, data: name != "time" and name in self._ids,
    }
    on_raise = lambda self, name, data: content_same(self)
    ensures = lambda self, name, data, result: [
        result is self,
        Wf(self),
        self._cache is None,
        added(self._ids, name),
        self._ids[name] == "data",
        added(self._data, name),
        self._data[name] is data,
        others_same7(self, self._data),
    ]
    modifies = lambda self, name, data: [field(self, "_cache"), self._ids, self._data]


@contract("mxlpy.model:Model.update_data")
class update_data:
    requires = lambda self, name, data: Wf(self)
    raises = {KeyError: lambda self, name, data: name not in self._data}
    on_raise = lambda self, name, data: content_same(self)
    ensures = lambda self, name, data, result: [
        result is self,
        Wf(self),
        self._cache is None,
        same(self._ids),
        keys(self._data) == old(keys(self._data)),
        dom(self._data) == old(dom(self._data)),
        vals(self._data) == store(old(vals(self._data)), name, data),
        others_same7(self, self._data),
    ]
    modifies = lambda self, name, data: [field(self, "_cache"), self._data]


@contract("mxlpy.model:Model.remove_data")
class remove_data:
    requires = lambda self, name: Wf(self)
    raises = {KeyError: lambda self, name: name not in self._data}
    on_raise = lambda self, name: content_same(self)
    ensures = lambda self, name, result: [
        result is self,
        Wf(self),
        self._cache is None,
        removed(self._ids, name),
        removed(self._data, name),
        others_same7(self, self._data),
    ]
    modifies = lambda self, name: [field(self, "_cache"), self._ids, self._data]


# ----------------------------------------------------------------------------- reactions (add / update)
# The stoichiometry given by the caller is translated by a dict comprehension that allocates
# a Derived record for every coefficient given as a name (pyvc: comprehension allocating
# records).  What C03 needs from these two mutators is the name-space / cache part; the
# translated coefficients are characterised only as "a fresh dict".


@contract("mxlpy.model:Model.add_reaction")
class add_reaction:
    requires = lambda self, name, fn, args, stoichiometry, unit: Wf(self)
    raises = {
        KeyError: lambda self, name, fn, args, stoichiometry, unit: name == "time",
        NameError: lambda self, name, fn, args, stoichiometry, unit: name != "time" and name in self._ids,
    }
    on_raise = lambda self, name, fn, args, stoichiometry, unit: content_same(self)
    ensures = lambda self, name, fn, args, stoichiometry, unit, result: [
        result is self,
        Wf(self),
        self._cache is None,
        added(self._ids, name),
        self._ids[name] == "reaction",
        added(self._reactions, name),
        fresh(self._reactions[name]),
        self._reactions[name].fn is fn,
        self._reactions[name].args is args,
        self._reactions[name].unit is unit,
        fresh(self._reactions[name].stoichiometry),
        others_same7(self, self._reactions),
    ]
    modifies = lambda self, name, fn, args, stoichiometry, unit: [field(self, "_cache"), self._ids, self._reactions]


@contract("mxlpy.model:Model.update_reaction")
class update_reaction:
    requires = lambda self, name, fn, args, stoichiometry, unit: Wf(self)
    raises = {KeyError: lambda self, name, fn, args, stoichiometry, unit: name not in self._reactions}
    on_raise = lambda self, name, fn, args, stoichiometry, unit: content_same(self)
    ensures = lambda self, name, fn, args, stoichiometry, unit, result: [
        result is self,
        Wf(self),
        self._cache is None,
        content_same(self),
        self._reactions[name].fn is (old(self._reactions[name].fn) if fn is None else fn),
        self._reactions[name].args is (old(self._reactions[name].args) if args is None else args),
        self._reactions[name].unit is (old(self._reactions[name].unit) if unit is None else unit),
        implies(stoichiometry is None, self._reactions[name].stoichiometry is old(self._reactions[name].stoichiometry)),
        implies(stoichiometry is not None, fresh(self._reactions[name].stoichiometry)),
    ]
    modifies = lambda self, name, fn, args, stoichiometry, unit: [
        field(self, "_cache"),
        field(self._reactions[name], "fn"),
        field(self._reactions[name], "args"),
        field(self._reactions[name], "unit"),
        field(self._reactions[name], "stoichiometry"),
    ]
