# Sidecar contracts for the plural mutators of mxlpy.model.Model (property C03); loaded
# together with contracts/model_edit.py (helpers Wf, content_same, ... are shared through
# the session).  Kept in a file of their own because contracts/mca_frames.py states a
# second, value-level contract for update_parameters.  Parsed, never executed.

# ----------------------------------------------------------------------------- plural edits
# A plural edit is the sequence of its single edits (ASSUMPTIONS above): it preserves
# Wf, leaves the containers' key sets as the single edits leave them, and clears the
# cache as soon as one single edit has run.  If a single edit is rejected the earlier
# ones stay applied (may_raise), exactly as for the same calls made one by one.
# The values written are those of the single edits (their contracts); a closed-form
# "every named parameter now has the given value" clause was tried and left the
# solvers undecided (quantified before()-indexed invariant), so it is not claimed.


def keys_same(m):
    return (
        keys(m._ids) == old(keys(m._ids))
        and keys(m._variables) == old(keys(m._variables))
        and keys(m._parameters) == old(keys(m._parameters))
        and keys(m._derived) == old(keys(m._derived))
        and keys(m._readouts) == old(keys(m._readouts))
        and keys(m._reactions) == old(keys(m._reactions))
        and keys(m._surrogates) == old(keys(m._surrogates))
        and keys(m._data) == old(keys(m._data))
    )


@contract("mxlpy.model:Model.update_parameters")
class update_parameters:
    requires = lambda self, parameters: Wf(self) and not (parameters is self._parameters) and not (parameters is self._ids)
    may_raise = (KeyError,)
    ensures = lambda self, parameters, result: [
        result is self,
        Wf(self),
        content_same(self),
        len(keys(parameters)) == 0 or self._cache is None,
        len(keys(parameters)) > 0 or self._cache is old(self._cache),
    ]
    modifies = lambda self, parameters: [field(self, "_cache"), field_map("value"), field_map("unit"), field_map("source")]
    loops = {
        1: lambda self, parameters: [
            Wf(self),
            content_same(self),
            _i == 0 or self._cache is None,
            _i > 0 or self._cache is old(self._cache),
            unchanged(parameters),
        ],
    }


@contract("mxlpy.model:Model.update_variables")
class update_variables:
    requires = lambda self, variables: Wf(self) and not (variables is self._variables) and not (variables is self._ids)
    may_raise = (KeyError,)
    ensures = lambda self, variables, result: [
        result is self,
        Wf(self),
        content_same(self),
        len(keys(variables)) == 0 or self._cache is None,
    ]
    modifies = lambda self, variables: [field(self, "_cache"), field_map("initial_value"), field_map("unit"), field_map("source")]
    loops = {
        1: lambda self, variables: [
            Wf(self),
            content_same(self),
            _i == 0 or self._cache is None,
            unchanged(variables),
        ],
    }
