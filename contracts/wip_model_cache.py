# PARKED (loaded by no check): shape view of Model._create_cache; 1172 of 1195 obligations discharge, the
# preservation of the table-freshness invariants of the nested coefficient loops is undecided.
# Second contract view of Model._create_cache (properties C01 / C13): the part of the
# shape contract that contracts/model_eval.py ASSUMES and that follows from the code
# without loop invariants about table contents:
#   * the cache object, its coefficient tables and its name lists are newly allocated,
#     pairwise distinct objects, and the cache is stored in the model,
#   * var_names is the list of the model's variables IN DECLARATION ORDER (C01: the
#     derivative vector is in declaration order),
#   * nothing but the cache field of the model is written.
# Still assumed (bounded: C01 / C13): well-formedness of the tables (dict_wf, every
# compound a declared variable), the static/dynamic split and the values.
# Loaded with contracts/model_sort_frame.py (the sorter enters through its proved FRAME
# view: no precondition, writes only `available`); the records' calculate / calculate_inpl
# are entered (inlined), so that a missing argument is simply an exception.  Parsed, never executed.

TYPE_ALIAS = {"SurrogateProtocol": "AbstractSurrogate"}

ASSUMPTIONS = [
    "C13 _create_cache (shape view): _check_function_arity is pure (inspect-based, outside the deductive part)",
]


def tables_fresh(st, dyn):
    return (
        fresh(st)
        and fresh(dyn)
        and not (st is dyn)
        # the per-compound tables are objects of their own (never one of the two outer tables)
        # (has_type also says: allocated before now - so a table created later is a different object)
        and forall(lambda k: implies(k in st, fresh(st[k]) and has_type(st[k], "dict") and not (st[k] is st) and not (st[k] is dyn)), "val")
        and forall(lambda k: implies(k in dyn, fresh(dyn[k]) and has_type(dyn[k], "dict") and not (dyn[k] is st) and not (dyn[k] is dyn)), "val")
        and forall(lambda a, b: implies(a in st and b in dyn, not (st[a] is dyn[b])), "val", "val")
    )


@contract("mxlpy.model:_check_function_arity")
class check_arity:
    trusted = "inspects the signature of a callable (inspect module): outside the deductive part; pure"
    ensures = lambda function, arity, result: True
    modifies = lambda function, arity: []
    opts = {"allocates": False}


@contract("mxlpy.surrogates.abstract:AbstractSurrogate.calculate_inpl")
class Surrogate_calculate_inpl:
    trusted = "surrogate predictions are outside the deductive part (abstract predict); only the frame is used: it writes the argument table"
    ensures = lambda self, name, args, result: True
    may_raise = (Exception,)
    modifies = lambda self, name, args: [args]


@contract("mxlpy.model:Model._create_cache")
class create_cache_shape:
    requires = lambda self: True
    may_raise = (Exception,)
    inline = ["Derived.calculate", "Derived.calculate_inpl", "Reaction.calculate_inpl", "InitialAssignment.calculate_inpl"]
    ensures = lambda self, result: [
        fresh(result),
        self._cache is result,
        fresh(result.stoich_by_cpds),
        fresh(result.dyn_stoich_by_cpds),
        fresh(result.var_names),
        fresh(result.all_parameter_values),
        fresh(result.base_parameter_values),
        fresh(result.initial_conditions),
        distinct(
            result.stoich_by_cpds,
            result.dyn_stoich_by_cpds,
            result.all_parameter_values,
            result.base_parameter_values,
            result.initial_conditions,
        ),
        elems(result.var_names) == old(keys(self._variables)),
        unchanged(self._variables),
        unchanged(self._parameters),
        unchanged(self._reactions),
        unchanged(self._derived),
    ]
    modifies = lambda self: [field(self, "_cache")]
    # loops 4-8 fill the coefficient tables: every per-compound table in them was allocated
    # by this function (so writing into it stays inside the frame)
    loops = {
        4: lambda self, stoich_by_compounds, dyn_stoich_by_compounds: tables_fresh(stoich_by_compounds, dyn_stoich_by_compounds),
        5: lambda self, stoich_by_compounds, dyn_stoich_by_compounds: tables_fresh(stoich_by_compounds, dyn_stoich_by_compounds),
        6: lambda self, stoich_by_compounds, dyn_stoich_by_compounds: tables_fresh(stoich_by_compounds, dyn_stoich_by_compounds),
        7: lambda self, stoich_by_compounds, dyn_stoich_by_compounds: tables_fresh(stoich_by_compounds, dyn_stoich_by_compounds),
        8: lambda self, stoich_by_compounds, dyn_stoich_by_compounds: tables_fresh(stoich_by_compounds, dyn_stoich_by_compounds),
    }
