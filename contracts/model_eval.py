# Sidecar contracts for evaluation of a model state  (property C01; shared by C13).
# Parsed, never executed.
#
# Vocabulary
#   CacheOK(m, c)   what Model._create_cache establishes and evaluation relies on
#   StaticSum / DynSum  ghost sums  sum_{flux in table[cpd]} coefficient * A[flux]
# A (`D` in the clauses) is the argument table returned by Model._get_args for the
# state; its own contract says it satisfies the model's equations.

TYPE_ALIAS = {"SurrogateProtocol": "AbstractSurrogate"}

ASSUMPTIONS = [
    "C01: rate laws / derived functions are pure, total, deterministic (uninterpreted apply_fn)",
    "C01: floats are treated as mathematical reals (summation order irrelevant)",
    "C01: 'well-formed model' includes: every compound in a stoichiometry table is a declared variable",
]


def tables_ok(c):
    # every compound with a coefficient is a variable; the per-compound tables are
    # proper (allocated) dicts
    return forall(
        lambda cpd: (
            implies(cpd in c.stoich_by_cpds, cpd in elems(c.var_names))
            and implies(cpd in c.dyn_stoich_by_cpds, cpd in elems(c.var_names))
            and implies(cpd in c.stoich_by_cpds, has_type(c.stoich_by_cpds[cpd], "dict[str, float]"))
            and implies(cpd in c.dyn_stoich_by_cpds, has_type(c.dyn_stoich_by_cpds[cpd], "dict[str, Derived]"))
        ),
        "val",
    )


def CacheShape(c):
    return (
        distinct(c.stoich_by_cpds, c.dyn_stoich_by_cpds, c.all_parameter_values, c.base_parameter_values, c.initial_conditions)
        and dict_wf(c.stoich_by_cpds)
        and dict_wf(c.dyn_stoich_by_cpds)
        and tables_ok(c)
    )


def fluxes_in(c, D):
    # every flux named in a coefficient table has a value in D, and every argument of
    # a computed coefficient too
    return (
        forall(
            lambda cpd, f: implies(cpd in c.stoich_by_cpds and f in c.stoich_by_cpds[cpd], f in D),
            "val",
            "val",
        )
        and forall(
            lambda cpd, f: implies(cpd in c.dyn_stoich_by_cpds and f in c.dyn_stoich_by_cpds[cpd], f in D),
            "val",
            "val",
        )
        and forall(
            lambda cpd, f: implies(
                cpd in c.dyn_stoich_by_cpds and f in c.dyn_stoich_by_cpds[cpd],
                all_in(c.dyn_stoich_by_cpds[cpd][f].args, D),
            ),
            "val",
            "val",
        )
    )


def StaticSum(c, D, cpd, n):
    return fold_prefix(
        lambda acc, f: acc + c.stoich_by_cpds[cpd][f] * D[f], 0.0, keys(c.stoich_by_cpds[cpd]), n
    )


def StaticTotal(c, D, cpd):
    return (
        StaticSum(c, D, cpd, len(keys(c.stoich_by_cpds[cpd]))) if cpd in c.stoich_by_cpds else 0.0
    )


def coef(dv, D):
    return real(apply(dv.fn, [D[a] for a in dv.args]))


def DynSum(c, D, cpd, n):
    return fold_prefix(
        lambda acc, f: acc + coef(c.dyn_stoich_by_cpds[cpd][f], D) * D[f],
        0.0,
        keys(c.dyn_stoich_by_cpds[cpd]),
        n,
    )


def DynTotal(c, D, cpd):
    return (
        DynSum(c, D, cpd, len(keys(c.dyn_stoich_by_cpds[cpd]))) if cpd in c.dyn_stoich_by_cpds else 0.0
    )


# ----------------------------------------------------------------------------- component records


# ----------------------------------------------------------------------------- model


@contract("mxlpy.model:Model._create_cache")
class create_cache:
    trusted = "verified separately under C13 (contracts/model_cache.py) where in reach; here only its shape is used"
    ensures = lambda self, result: [
        fresh(result),
        self._cache is result,
        CacheShape(result),
        fresh(result.stoich_by_cpds),
        fresh(result.dyn_stoich_by_cpds),
        fresh(result.var_names),
    ]
    may_raise = (Exception,)
    modifies = lambda self: [field(self, "_cache")]


@contract("mxlpy.model:Model._get_args")
class get_args_raw:
    trusted = "C01 carrier; its equation-level contract is checked by the bounded stand-in (bounded/C01.py)"
    requires = lambda self, variables, time, cache: CacheShape(cache)
    ensures = lambda self, variables, time, cache, result: [
        fresh(result),
        fluxes_in(cache, result),
    ]
    modifies = lambda self, variables, time, cache: []


@contract("mxlpy.model:Model.__call__")
class call:
    ghost = {"D": "call:Model._get_args"}
    requires = lambda self, time, variables: self._cache is None or CacheShape(self._cache)
    may_raise = (Exception,)
    ensures = lambda self, time, variables, result, D: [
        self._cache is not None,
        len(result) == len(self._cache.var_names),
        forall(
            lambda i: implies(
                0 <= i and i < len(self._cache.var_names),
                real(seq(result)[i])
                == at_call("Model._get_args", StaticTotal(self._cache, D, self._cache.var_names[i]))
                + at_call("Model._get_args", DynTotal(self._cache, D, self._cache.var_names[i])),
            ),
            "int",
        ),
    ]
    modifies = lambda self, time, variables: [field(self, "_cache")]
    loops = {
        1: lambda self, dxdt, D: [
            keys(dxdt) == at_entry(keys(dxdt)),
            dom(dxdt) == at_entry(dom(dxdt)),
            forall(
                lambda c: real(vals(dxdt)[c])
                == (at_call("Model._get_args", StaticTotal(self._cache, D, c)) if before(self._cache.stoich_by_cpds, c, _i) else 0.0),
                "val",
            ),
        ],
        2: lambda self, dxdt, D, k: [
            keys(dxdt) == at_entry(keys(dxdt)),
            dom(dxdt) == at_entry(dom(dxdt)),
            vals(dxdt) == store(at_entry(vals(dxdt)), k, real(at_entry(dxdt[k])) + at_call("Model._get_args", StaticSum(self._cache, D, k, _i))),
        ],
        3: lambda self, dxdt, D: [
            keys(dxdt) == at_entry(keys(dxdt)),
            dom(dxdt) == at_entry(dom(dxdt)),
            forall(
                lambda c: real(vals(dxdt)[c])
                == at_call("Model._get_args", StaticTotal(self._cache, D, c))
                + (at_call("Model._get_args", DynTotal(self._cache, D, c)) if before(self._cache.dyn_stoich_by_cpds, c, _i) else 0.0),
                "val",
            ),
        ],
        4: lambda self, dxdt, D, k: [
            keys(dxdt) == at_entry(keys(dxdt)),
            dom(dxdt) == at_entry(dom(dxdt)),
            vals(dxdt) == store(at_entry(vals(dxdt)), k, real(at_entry(dxdt[k])) + at_call("Model._get_args", DynSum(self._cache, D, k, _i))),
        ],
    }


@contract("mxlpy.model:Model._get_right_hand_side")
class get_rhs_raw:
    # pandas variant used by the named and time-course forms: same sums as __call__
    types = {"return": "dict[str, float]"}
    requires = lambda self, args, var_names, cache: (
        CacheShape(cache) and fluxes_in(cache, args) and elems(var_names) == elems(cache.var_names)
    )
    may_raise = (Exception,)
    ensures = lambda self, args, var_names, cache, result: [
        keys(result) == elems(var_names),
        forall(
            lambda c: implies(
                c in elems(var_names),
                real(vals(result)[c]) == old(StaticTotal(cache, args, c)) + old(DynTotal(cache, args, c)),
            ),
            "val",
        ),
    ]
    modifies = lambda self, args, var_names, cache: []
    loops = {
        1: lambda self, dxdt, args, cache: [
            keys(dxdt) == at_entry(keys(dxdt)),
            dom(dxdt) == at_entry(dom(dxdt)),
            forall(
                lambda c: real(vals(dxdt)[c])
                == (old(StaticTotal(cache, args, c)) if before(cache.stoich_by_cpds, c, _i) else 0.0),
                "val",
            ),
        ],
        2: lambda self, dxdt, args, cache, k: [
            keys(dxdt) == at_entry(keys(dxdt)),
            dom(dxdt) == at_entry(dom(dxdt)),
            vals(dxdt) == store(at_entry(vals(dxdt)), k, real(at_entry(dxdt[k])) + old(StaticSum(cache, args, k, _i))),
        ],
        3: lambda self, dxdt, args, cache: [
            keys(dxdt) == at_entry(keys(dxdt)),
            dom(dxdt) == at_entry(dom(dxdt)),
            forall(
                lambda c: real(vals(dxdt)[c])
                == old(StaticTotal(cache, args, c))
                + (old(DynTotal(cache, args, c)) if before(cache.dyn_stoich_by_cpds, c, _i) else 0.0),
                "val",
            ),
        ],
        4: lambda self, dxdt, args, cache, k: [
            keys(dxdt) == at_entry(keys(dxdt)),
            dom(dxdt) == at_entry(dom(dxdt)),
            vals(dxdt) == store(at_entry(vals(dxdt)), k, real(at_entry(dxdt[k])) + old(DynSum(cache, args, k, _i))),
        ],
    }
