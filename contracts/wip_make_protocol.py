# PARKED (loaded by no check; needs the helpers of contracts/simulator.py): make_protocol yields a frame
# satisfying protocol_ok.  The engine executes the function (Timedelta = seconds, DataFrame(dict).T); 69 of 74
# obligations discharge.  Undecided: preservation of dict_wf(data) for the extended key order - key_index is an
# uninterpreted position function without an axiom for appended keys, so dict_wf cannot be re-established by proof
# (everywhere else it is only assumed of input dicts).

# ----------------------------------------------------------------------------- make_protocol (C14)
# make_protocol turns (duration, parameters) steps into the frame simulate_protocol reads:
# row i is labelled with the CUMULATIVE end of step i.  With positive durations that is
# exactly protocol_ok (positive, strictly increasing ends), the precondition of
# simulate_protocol.  Timedelta = its seconds; DataFrame(dict).T: pyvc/lib_pd.py.


def CumDur(steps, n):
    # read in the pre-state: the step list and its tuples are never modified
    return old(fold_prefix(lambda acc, s: acc + real(s[0]), 0.0, steps, n))


def durations_positive(steps):
    return old(forall(lambda i: implies(0 <= i and i < len(steps), real(at(steps, i)[0]) > 0), "int"))


@contract("mxlpy:make_protocol")
class make_protocol:
    opts = {"branch_dict_set": True}  # with it the "key already present" path is discharged; 7 obligations of the new-key path remain
    requires = lambda steps: durations_positive(steps)
    ensures = lambda steps, result: [
        n_rows(result) == len(steps),
        forall(lambda i: implies(0 <= i and i < len(steps), row_secs(result, i) == CumDur(steps, i + 1)), "int"),
        protocol_ok(result),
        unchanged(steps),
    ]
    modifies = lambda steps: []
    loops = {
        1: lambda steps, data, t0: [
            fresh(data),
            dict_wf(data),
            unchanged(steps),
            len(keys(data)) == _i,
            real(t0) == CumDur(steps, _i),
            real(t0) >= 0,
            forall(lambda q: implies(0 <= q and q < _i, real(at(keys(data), q)) == CumDur(steps, q + 1)), "int"),
            forall(lambda q: implies(0 <= q and q < _i, real(at(keys(data), q)) <= real(t0) and real(at(keys(data), q)) > 0), "int"),
            forall(
                lambda q: implies(0 < q and q < _i, real(at(keys(data), q)) > real(at(keys(data), q - 1))),
                "int",
            ),
        ],
    }
