# Sidecar contracts for the shipped Scipy integrator (property C04): the assumption the
# Simulator's continuation rule rests on - "an integrator asked for end time T (or a grid)
# returns, on success, a time course ending at T (at the last grid point)" - is proved here
# for Scipy.integrate_time_course and Scipy.integrate, together with the clock update
# (t0 becomes the end reached).  tc_end of contracts/simulator.py is the last element of
# TimeCourse.time.  numpy / solve_ivp: assumed facts of pyvc/lib_tp.py.
#
# Scipy.integrate(t_end, steps): the requested grid is linspace(t0, t_end, steps + 1); it ends
# at t_end only if it has at least two points, i.e. steps >= 1 (or steps is None).  With
# steps = 0 the grid is [t0]: the assumption does not hold (observation in DESIGN.md).
# Parsed, never executed.

ASSUMPTIONS = [
    "C04 Scipy integrator: solve_ivp(t_eval=T) returns, on success, exactly the points of T in .t; np.linspace / np.insert / np.array facts of pyvc/lib_tp.py; time grids are non-empty",
]


@contract("mxlpy.integrators.int_scipy:Scipy.integrate_time_course")
class scipy_integrate_time_course:
    opts = {"timepoints": True}
    may_raise = (Exception,)
    ensures = lambda self, time_points, result: [
        fresh(result),
        implies(
            has_type(result.value, "TimeCourse"),
            v_last(as_type(result.value.time, "Array")) == old(v_last(time_points))
            and real(self.t0) == old(v_last(time_points))
            and fresh(result.value)
            and fresh(result.value.time),
        ),
        implies(not has_type(result.value, "TimeCourse"), has_type(result.value, "IntegrationFailure") and self.t0 is old(self.t0)),
    ]
    modifies = lambda self, time_points: [field(self, "t0"), field(self, "y0")]


@contract("mxlpy.integrators.int_scipy:Scipy.integrate")
class scipy_integrate:
    opts = {"timepoints": True}
    requires = lambda self, t_end, steps: steps is None or steps >= 1
    may_raise = (Exception,)
    ensures = lambda self, t_end, steps, result: [
        fresh(result),
        implies(
            has_type(result.value, "TimeCourse"),
            v_last(as_type(result.value.time, "Array")) == t_end
            and real(self.t0) == t_end
            and fresh(result.value)
            and fresh(result.value.time),
        ),
        implies(not has_type(result.value, "TimeCourse"), has_type(result.value, "IntegrationFailure") and self.t0 is old(self.t0)),
    ]
    modifies = lambda self, t_end, steps: [field(self, "t0"), field(self, "y0")]
