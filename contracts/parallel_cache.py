# Sidecar contracts for the result cache  (property C19).  Parsed, never executed.
#
# Abstract file system (pyvc/lib_fs.py): per path  exists / partial / content.
# Crash invariant CI: every *result file* that exists is complete and holds the value
# expected for its key.  `everywhere = CI()` is checked after every statement of the
# function and inside the library model of pickle.dump / open / close, i.e. at every
# instant at which the process can be killed, including mid-write at any byte offset.

ASSUMPTIONS = [
    "C19: file system / pickle model of pyvc/lib_fs.py (open('wb') truncates, dump leaves a strict prefix until close, Path.replace is atomic, load raises EOFError/UnpicklingError on a partial file)",
    "C19: the temporary sibling name '<name>.<pid>.tmp' is not the result file of any key (result names come from name_fn; the default ends in '.p')",
    "C19: distinct keys of one run have distinct name_fn(k) (keys with equal str() are outside the contract)",
]


def CI():
    return forall(
        lambda p: implies(is_result(p) and fs_exists(p), not fs_partial(p) and fs_content(p) == expected(p)),
        "str",
    )


def others_untouched(file):
    # every other result file is exactly as before
    return forall(
        lambda p: implies(
            is_result(p) and p != file,
            fs_exists(p) == old(fs_exists(p))
            and fs_partial(p) == old(fs_partial(p))
            and fs_content(p) == old(fs_content(p)),
        ),
        "str",
    )


@contract("mxlpy.parallel:_pickle_name")
class pickle_name:
    ensures = lambda k, result: result == f"{k}.p"
    modifies = lambda k: []


@contract("mxlpy.parallel:_pickle_save")
class pickle_save:
    requires = lambda file, data: (
        CI()
        and is_result(file)
        and data == expected(file)
        and not is_result(file.with_name(f"{file.name}.{os.getpid()}.tmp"))
    )
    everywhere = lambda file, data: CI()
    ensures = lambda file, data, result: [
        CI(),
        fs_exists(file),
        not fs_partial(file),
        fs_content(file) == data,
        others_untouched(file),
    ]
    modifies = lambda file, data: [FS(), FSP()]


@contract("mxlpy.parallel:_pickle_load")
class pickle_load:
    requires = lambda file: fs_exists(file)
    raises = {(EOFError, UnpicklingError): lambda file: fs_partial(file)}
    ensures = lambda file, result: result == fs_content(file)
    modifies = lambda file: []


def file_of(cache, k):
    return cache.tmp_dir / apply(cache.name_fn, [k])


@contract("mxlpy.parallel:_load_or_run")
class load_or_run:
    # default Cache: load_fn / save_fn are the pickle helpers above
    opts = {"bind_callables": {"cache.load_fn": "mxlpy.parallel:_pickle_load", "cache.save_fn": "mxlpy.parallel:_pickle_save"}}
    types = {"cache": "Cache | None", "inp": "tuple"}
    requires = lambda inp, fn, cache: (
        CI()
        and len(inp) == 2
        and (
            cache is None
            or (
                is_result(file_of(cache, seq(inp)[0]))
                and expected(file_of(cache, seq(inp)[0])) == apply(fn, [seq(inp)[1]])
                and not is_result(
                    file_of(cache, seq(inp)[0]).with_name(f"{file_of(cache, seq(inp)[0]).name}.{os.getpid()}.tmp")
                )
            )
        )
    )
    everywhere = lambda inp, fn, cache: CI()
    ensures = lambda inp, fn, cache, result: [
        CI(),
        len(result) == 2,
        seq(result)[0] is seq(inp)[0],
        seq(result)[1] == apply(fn, [seq(inp)[1]]),
        cache is None or (fs_exists(file_of(cache, seq(inp)[0])) and not fs_partial(file_of(cache, seq(inp)[0]))),
    ]
    modifies = lambda inp, fn, cache: [FS(), FSP()]
