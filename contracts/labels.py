# Sidecar contract for a helper of the isotopomer expansion (property C05): the label
# string of a reaction's substrates is cut into one piece per compound, piece k starting
# where the label positions of compounds 0..k-1 end and being as long as compound k has
# label positions.  (This is what makes "product position i gets the label of the substrate
# position the map names for i" refer to the right compound.)  Parsed, never executed.

ASSUMPTIONS = [
    "C05 _split_label_string: Python string slicing = z3 str.substr on non-negative offsets (both clip at the end of the string)",
]


def Off(lpc, k):
    # number of label positions of compounds 0..k-1
    return fold_prefix(lambda acc, n: acc + n, 0, lpc, k)


@contract("mxlpy.label_map:_split_label_string")
class split_label_string:
    requires = lambda label, labels_per_compound: forall(
        lambda k: implies(0 <= k and k < len(labels_per_compound), at(labels_per_compound, k) >= 0), "int"
    )
    ensures = lambda label, labels_per_compound, result: [
        len(result) == len(labels_per_compound),
        fresh(result),
        forall(
            lambda k: implies(
                0 <= k and k < len(labels_per_compound),
                at(result, k)
                == label[Off(labels_per_compound, k) : Off(labels_per_compound, k) + at(labels_per_compound, k)],
            ),
            "int",
        ),
        unchanged(labels_per_compound),
    ]
    modifies = lambda label, labels_per_compound: []
    loops = {
        1: lambda label, labels_per_compound, split_labels, cnt: [
            cnt == Off(labels_per_compound, _i),
            cnt >= 0,
            len(split_labels) == _i,
            fresh(split_labels),
            unchanged(labels_per_compound),
            forall(
                lambda k: implies(
                    0 <= k and k < _i,
                    at(split_labels, k)
                    == label[Off(labels_per_compound, k) : Off(labels_per_compound, k) + at(labels_per_compound, k)],
                ),
                "int",
            ),
        ],
    }
