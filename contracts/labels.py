# Sidecar contract for a helper of the isotopomer expansion (property C05): the label
# string of a reaction's substrates is cut into one piece per compound, piece k starting
# where the label positions of compounds 0..k-1 end and being as long as compound k has
# label positions.  (This is what makes "product position i gets the label of the substrate
# position the map names for i" refer to the right compound.)  Parsed, never executed.

ASSUMPTIONS = [
    "C05 _split_label_string: Python string slicing = z3 str.substr on non-negative offsets (both clip at the end of the string)",
]


def Off(lpc, k):
    # number of label positions of compounds 0..k-1
    return fold_prefix(lambda acc, n: acc + n, 0, lpc, k)


@contract("mxlpy.label_map:_split_label_string")
class split_label_string:
    requires = lambda label, labels_per_compound: forall(
        lambda k: implies(0 <= k and k < len(labels_per_compound), at(labels_per_compound, k) >= 0), "int"
    )
    ensures = lambda label, labels_per_compound, result: [
        len(result) == len(labels_per_compound),
        fresh(result),
        forall(
            lambda k: implies(
                0 <= k and k < len(labels_per_compound),
                at(result, k)
                == label[Off(labels_per_compound, k) : Off(labels_per_compound, k) + at(labels_per_compound, k)],
            ),
            "int",
        ),
        unchanged(labels_per_compound),
    ]
    modifies = lambda label, labels_per_compound: []
    loops = {
        1: lambda label, labels_per_compound, split_labels, cnt: [
            cnt == Off(labels_per_compound, _i),
            cnt >= 0,
            len(split_labels) == _i,
            fresh(split_labels),
            unchanged(labels_per_compound),
            forall(
                lambda k: implies(
                    0 <= k and k < _i,
                    at(split_labels, k)
                    == label[Off(labels_per_compound, k) : Off(labels_per_compound, k) + at(labels_per_compound, k)],
                ),
                "int",
            ),
        ],
    }


@contract("mxlpy.label_map:_assign_compound_labels")
class assign_compound_labels:
    # isotopomer names: base name, "__" and the compound's piece of the label string;
    # a compound without label positions keeps its base name
    requires = lambda base_compounds, label_suffixes: len(label_suffixes) >= len(base_compounds)
    ensures = lambda base_compounds, label_suffixes, result: [
        len(result) == len(base_compounds),
        fresh(result),
        forall(
            lambda k: implies(
                0 <= k and k < len(base_compounds),
                at(result, k)
                == (
                    at(base_compounds, k) + "__" + at(label_suffixes, k)
                    if at(label_suffixes, k) != ""
                    else at(base_compounds, k)
                ),
            ),
            "int",
        ),
        unchanged(base_compounds),
        unchanged(label_suffixes),
    ]
    modifies = lambda base_compounds, label_suffixes: []
    loops = {
        1: lambda base_compounds, label_suffixes, new_compounds: [
            len(new_compounds) == _i,
            fresh(new_compounds),
            unchanged(base_compounds),
            unchanged(label_suffixes),
            forall(
                lambda k: implies(
                    0 <= k and k < _i,
                    at(new_compounds, k)
                    == (
                        at(base_compounds, k) + "__" + at(label_suffixes, k)
                        if at(label_suffixes, k) != ""
                        else at(base_compounds, k)
                    ),
                ),
                "int",
            ),
        ],
    }


@contract("mxlpy.label_map:_get_labels_per_variable")
class get_labels_per_variable:
    # number of label positions of every listed compound; 0 for compounds without labels
    ensures = lambda label_variables, compounds, result: [
        len(result) == len(compounds),
        forall(
            lambda k: implies(
                0 <= k and k < len(compounds),
                at(result, k)
                == (label_variables[at(compounds, k)] if at(compounds, k) in label_variables else 0),
            ),
            "int",
        ),
    ]
    modifies = lambda label_variables, compounds: []
