# Sidecar contract for a helper of the isotopomer expansion (property C05): the label
# string of a reaction's substrates is cut into one piece per compound, piece k starting
# where the label positions of compounds 0..k-1 end and being as long as compound k has
# label positions.  (This is what makes "product position i gets the label of the substrate
# position the map names for i" refer to the right compound.)  Parsed, never executed.

ASSUMPTIONS = [
    "C05 _split_label_string: Python string slicing = z3 str.substr on non-negative offsets (both clip at the end of the string)",
]


def Off(lpc, k):
    # number of label positions of compounds 0..k-1
    return fold_prefix(lambda acc, n: acc + n, 0, lpc, k)


@contract("mxlpy.label_map:_split_label_string")
class split_label_string:
    requires = lambda label, labels_per_compound: forall(
        lambda k: implies(0 <= k and k < len(labels_per_compound), at(labels_per_compound, k) >= 0), "int"
    )
    ensures = lambda label, labels_per_compound, result: [
        len(result) == len(labels_per_compound),
        fresh(result),
        forall(
            lambda k: implies(
                0 <= k and k < len(labels_per_compound),
                at(result, k)
                == label[Off(labels_per_compound, k) : Off(labels_per_compound, k) + at(labels_per_compound, k)],
            ),
            "int",
        ),
        unchanged(labels_per_compound),
    ]
    modifies = lambda label, labels_per_compound: []
    loops = {
        1: lambda label, labels_per_compound, split_labels, cnt: [
            cnt == Off(labels_per_compound, _i),
            cnt >= 0,
            len(split_labels) == _i,
            fresh(split_labels),
            unchanged(labels_per_compound),
            forall(
                lambda k: implies(
                    0 <= k and k < _i,
                    at(split_labels, k)
                    == label[Off(labels_per_compound, k) : Off(labels_per_compound, k) + at(labels_per_compound, k)],
                ),
                "int",
            ),
        ],
    }


@contract("mxlpy.label_map:_assign_compound_labels")
class assign_compound_labels:
    # isotopomer names: base name, "__" and the compound's piece of the label string;
    # a compound without label positions keeps its base name
    requires = lambda base_compounds, label_suffixes: len(label_suffixes) >= len(base_compounds)
    ensures = lambda base_compounds, label_suffixes, result: [
        len(result) == len(base_compounds),
        fresh(result),
        forall(
            lambda k: implies(
                0 <= k and k < len(base_compounds),
                at(result, k)
                == (
                    at(base_compounds, k) + "__" + at(label_suffixes, k)
                    if at(label_suffixes, k) != ""
                    else at(base_compounds, k)
                ),
            ),
            "int",
        ),
        unchanged(base_compounds),
        unchanged(label_suffixes),
    ]
    modifies = lambda base_compounds, label_suffixes: []
    loops = {
        1: lambda base_compounds, label_suffixes, new_compounds: [
            len(new_compounds) == _i,
            fresh(new_compounds),
            unchanged(base_compounds),
            unchanged(label_suffixes),
            forall(
                lambda k: implies(
                    0 <= k and k < _i,
                    at(new_compounds, k)
                    == (
                        at(base_compounds, k) + "__" + at(label_suffixes, k)
                        if at(label_suffixes, k) != ""
                        else at(base_compounds, k)
                    ),
                ),
                "int",
            ),
        ],
    }


@contract("mxlpy.label_map:_get_labels_per_variable")
class get_labels_per_variable:
    # number of label positions of every listed compound; 0 for compounds without labels
    ensures = lambda label_variables, compounds, result: [
        len(result) == len(compounds),
        forall(
            lambda k: implies(
                0 <= k and k < len(compounds),
                at(result, k)
                == (label_variables[at(compounds, k)] if at(compounds, k) in label_variables else 0),
            ),
            "int",
        ),
    ]
    modifies = lambda label_variables, compounds: []


def SubUnits(st, n):
    # units of base stoichiometry consumed by the first n species
    return fold_prefix(lambda acc, k: acc + (0 - st[k] if st[k] < 0 else 0), 0, keys(st), n)


def ProdUnits(st, n):
    return fold_prefix(lambda acc, k: acc + (st[k] if st[k] > 0 else 0), 0, keys(st), n)


@contract("mxlpy.label_map:_unpack_stoichiometries")
class unpack_stoichiometries_labels:
    # "one isotopomer per unit of base stoichiometry": a species with coefficient -n appears
    # n times among the substrates, one with +n appears n times among the products
    requires = lambda stoichiometries: dict_wf(stoichiometries)
    ensures = lambda stoichiometries, result: [
        len(result[0]) == SubUnits(stoichiometries, len(keys(stoichiometries))),
        len(result[1]) == ProdUnits(stoichiometries, len(keys(stoichiometries))),
        forall(
            lambda p: implies(
                0 <= p and p < len(result[0]), at(result[0], p) in stoichiometries and stoichiometries[at(result[0], p)] < 0
            ),
            "int",
        ),
        forall(
            lambda p: implies(
                0 <= p and p < len(result[1]), at(result[1], p) in stoichiometries and stoichiometries[at(result[1], p)] > 0
            ),
            "int",
        ),
        unchanged(stoichiometries),
    ]
    modifies = lambda stoichiometries: []
    loops = {
        1: lambda stoichiometries, substrates, products: [
            fresh(substrates),
            fresh(products),
            not (substrates is products),
            unchanged(stoichiometries),
            len(substrates) == SubUnits(stoichiometries, _i),
            len(products) == ProdUnits(stoichiometries, _i),
            forall(
                lambda p: implies(
                    0 <= p and p < len(substrates),
                    at(substrates, p) in stoichiometries and stoichiometries[at(substrates, p)] < 0,
                ),
                "int",
            ),
            forall(
                lambda p: implies(
                    0 <= p and p < len(products),
                    at(products, p) in stoichiometries and stoichiometries[at(products, p)] > 0,
                ),
                "int",
            ),
        ],
    }
