# PARKED (loaded by no check): contract of mca._response_coefficient_worker - "on normal return every
# parameter record holds its entry value".  Load after model_edit.py and mca_frames.py.  Status: not proved;
# the frame obligations of the Simulation.variables / Simulation.fluxes calls (field(self.model, "_cache") with
# self.model possibly aliasing `model`) stay undecided in z3 and cvc5 (13 min, 16 cores).  Next step: give
# _steady_state_worker a postcondition naming result.model, or state the views' frame as field_map("_cache").
# Parsed, never executed.


# The response-coefficient worker perturbs one parameter up and down around three
# steady-state searches and resets it; proved: on normal return every parameter record
# holds its entry value.  (The variable side - y0 applied and restored through
# update_variables - is not part of this contract: bounded under C18.)
@contract("mxlpy.model:Model.update_variables")
class update_variables_frame:
    trusted = "frame and name-space clauses proved in the C03 view (contracts/model_edit_plural.py); only those are used here"
    requires = lambda self, variables: Wf(self) and not (variables is self._variables) and not (variables is self._ids)
    may_raise = (Exception,)
    ensures = lambda self, variables, result: [result is self, Wf(self), content_same(self)]
    modifies = lambda self, variables: [field(self, "_cache"), field_map("initial_value"), field_map("unit"), field_map("source")]


@contract("mxlpy.model:Model.get_raw_variables")
class get_raw_variables:
    trusted = "returns a copy of the variable dict (only used: a new dict, nothing written)"
    may_raise = (Exception,)
    ensures = lambda self, as_copy, result: [not (result is self._variables), not (result is self._ids)]
    modifies = lambda self, as_copy: []


@contract("mxlpy.scan:_steady_state_worker")
class steady_state_worker:
    trusted = "steady-state search on the model (bounded under C15/C18); only the frame is used: it writes nothing but the model's cache field"
    may_raise = (Exception,)
    ensures = lambda model, rel_norm, integrator, y0, result: True
    modifies = lambda model, rel_norm, integrator, y0: [field(model, "_cache")]


@contract("mxlpy.mca:_response_coefficient_worker")
class response_coefficient_worker:
    requires = lambda parameter, model, y0, normalized, rel_norm, displacement, integrator: (
        Wf(model)
        and records_distinct(model)
        and implies(not (y0 is None), not (y0 is model._variables) and not (y0 is model._ids))
    )
    may_raise = (Exception,)
    ensures = lambda parameter, model, y0, normalized, rel_norm, displacement, integrator, result: [
        values_kept(model),
        content_same(model),
        Wf(model),
    ]
    modifies = lambda parameter, model, y0, normalized, rel_norm, displacement, integrator: [
        field(model, "_cache"),
        field_map("value"),
        field_map("initial_value"),
        field_map("unit"),
        field_map("source"),
    ]


@contract("mxlpy.simulation:Simulation.variables")
class simulation_variables:
    trusted = "result view (pandas; bounded under C10): reads the recorded result and the model, writes nothing but the model's cache field and the result's own memo fields"
    may_raise = (Exception,)
    ensures = lambda self, result: True
    modifies = lambda self: [field(self.model, "_cache")]


@contract("mxlpy.simulation:Simulation.fluxes")
class simulation_fluxes:
    trusted = "result view (pandas; bounded under C10): reads the recorded result and the model, writes nothing but the model's cache field and the result's own memo fields"
    may_raise = (Exception,)
    ensures = lambda self, result: True
    modifies = lambda self: [field(self.model, "_cache")]
