# Second contract view of Model._get_args (properties C01 / C13): the EQUATIONS.
# contracts/model_eval.py uses _get_args through an assumed shape contract; this file
# verifies, for models without surrogates whose cache lists the dynamic components in a
# valid order, that the returned table satisfies the model's equations:
#
#   * every dynamic component n (derived quantity or reaction) has a value, and that value
#     is  fn_n(values of its arguments IN THE RETURNED TABLE)  - "each component seeing
#     the finished values of everything it names" (C02), "recomputed from the state
#     supplied" (C13), and what C01's sums are taken over;
#   * parameters, the supplied variables and `time` keep the values they were given.
#
# OrderOK is what Model._create_cache has to establish (it obtains dyn_order from
# _sort_dependencies, whose topological validity is proved in contracts/model_sort.py);
# that _create_cache establishes it is NOT proved here (bounded: C13).
# Parsed, never executed.

TYPE_ALIAS = {"SurrogateProtocol": "AbstractSurrogate"}

ASSUMPTIONS = [
    "C01/C13 _get_args equations: stated for models without surrogates (surrogate steps are covered by the bounded parts only)",
    "C01/C13 _get_args equations: OrderOK (dyn_order duplicate free, names components, disjoint from base names, topologically valid) is a precondition; that _create_cache establishes it is checked by the bounded part of C13",
    "C01: rate laws / derived functions are pure, total, deterministic (uninterpreted apply_fn)",
]


def comp_of(m, n):
    # the record `containers[n]` resolves to when there are no surrogates (reactions shadow derived)
    return m._reactions[n] if n in m._reactions else m._derived[n]


def is_base(m, c, variables, k):
    return k in c.all_parameter_values or k in variables or k in m._data or k is "time"


def records_typed(m):
    return forall(
        lambda k: (
            implies(k in m._derived, has_type(m._derived[k], "Derived") and has_type(m._derived[k].args, "list[str]"))
            and implies(k in m._reactions, has_type(m._reactions[k], "Reaction") and has_type(m._reactions[k].args, "list[str]"))
        ),
        "val",
    )


def OrderOK(m, c, variables):
    o = c.dyn_order
    return (
        forall(lambda k: not (k in m._surrogates), "val")
        and distinct(m._derived, m._reactions, m._surrogates, m._data, c.all_parameter_values, variables)
        and records_typed(m)
        and dict_wf(m._data)
        and forall(lambda i, j: implies(0 <= i and i < j and j < len(o), at(o, i) != at(o, j)), "int", "int")
        and forall(lambda i: implies(0 <= i and i < len(o), at(o, i) in m._derived or at(o, i) in m._reactions), "int")
        and forall(lambda i: implies(0 <= i and i < len(o), not is_base(m, c, variables, at(o, i))), "int")
        and forall(
            lambda i, p: implies(
                0 <= i and i < len(o) and 0 <= p and p < len(comp_of(m, at(o, i)).args),
                is_base(m, c, variables, at(comp_of(m, at(o, i)).args, p))
                or exists(lambda q: 0 <= q and q < i and at(o, q) is at(comp_of(m, at(o, i)).args, p), "int"),
            ),
            "int",
            "int",
        )
    )


def eq_holds(m, c, tbl, i):
    # the component at position i of dyn_order has the value its function gives on the
    # table.  The model and the cache are read in the pre-state (they are never modified);
    # only the table is read in the current state.
    return old(at(c.dyn_order, i)) in tbl and vals(tbl)[old(at(c.dyn_order, i))] == apply(
        old(comp_of(m, at(c.dyn_order, i)).fn),
        [tbl[a] for a in old(elems(comp_of(m, at(c.dyn_order, i)).args))],
    )


def is_base0(m, c, variables, k):
    return old(is_base(m, c, variables, k))


@contract("mxlpy.model:Model._get_args")
class get_args_equations:
    requires = lambda self, variables, time, cache: OrderOK(self, cache, variables)
    ensures = lambda self, variables, time, cache, result: [
        fresh(result),
        forall(lambda i: implies(0 <= i and i < old(len(cache.dyn_order)), eq_holds(self, cache, result, i)), "int"),
        forall(
            lambda k: implies(
                k in variables and not (k in self._data) and not (k is "time"), k in result and result[k] == variables[k]
            ),
            "val",
        ),
        forall(
            lambda k: implies(
                k in cache.all_parameter_values and not (k in variables) and not (k in self._data) and not (k is "time"),
                k in result and result[k] == cache.all_parameter_values[k],
            ),
            "val",
        ),
        implies(not ("time" in self._data), "time" in result and result["time"] == time),
        unchanged(variables),
        unchanged(cache.all_parameter_values),
    ]
    modifies = lambda self, variables, time, cache: []
    loops = {
        1: lambda self, variables, time, cache, args, containers: [
            fresh(args),
            forall(lambda j: implies(0 <= j and j < _i, eq_holds(self, cache, args, j)), "int"),
            forall(
                lambda k: implies(
                    is_base0(self, cache, variables, k), k in args and vals(args)[k] == at_entry(vals(args))[k]
                ),
                "val",
            ),
            unchanged(variables),
            unchanged(cache.all_parameter_values),
            unchanged(self._data),
        ],
        2: lambda self, variables, time, cache, args: [
            fresh(args),
            vals(args) == at_entry(vals(args)),
            forall(lambda k: implies(not old(k in self._data), (k in args) == at_entry(k in args)), "val"),
            forall(
                lambda q: implies(_i <= q and q < old(len(keys(self._data))), old(at(keys(self._data), q)) in args),
                "int",
            ),
            unchanged(variables),
            unchanged(cache.all_parameter_values),
            unchanged(self._data),
        ],
    }
