# Sidecar contracts for property C18, clause "every routine leaves the model's parameter
# values ... as it found them":  mca.parameter_elasticities perturbs one parameter at a
# time through Model.update_parameters and resets it; proved here: on normal return every
# parameter record has the value it had on entry.
#
# Loaded together with contracts/model_edit.py (single edits, Wf).  update_parameters gets
# a VALUE-LEVEL contract here (second contract view; C03's view in model_edit_plural.py
# states the name-space / cache clauses): for distinct parameter records, every named
# parameter given as a plain value ends with that value and no other record changes.
#
# NOT claimed: anything on exceptional exit.  parameter_elasticities has no try/finally: if
# get_fluxes raises between the perturbation and the reset, the model stays perturbed
# (observation recorded in DESIGN.md, outside the property's stated scope).
# Parsed, never executed.

ASSUMPTIONS = [
    "C18 frames: get_parameter_values()[k] is the current value of parameter record k (assumed contract of the cache; exercised by the bounded parts of C13/C18)",
    "C18 frames: parameter records are pairwise distinct objects (Model.add_parameter allocates a fresh record per name)",
    "C18 frames: get_fluxes / get_initial_conditions write nothing but the model's cache field (assumed frames)",
]


def records_distinct(m):
    return forall(lambda k: implies(k in m._parameters, has_type(m._parameters[k], "Parameter")), "val") and forall(
        lambda a, b: implies(
            a in m._parameters and b in m._parameters and not (a is b), not (m._parameters[a] is m._parameters[b])
        ),
        "val",
        "val",
    )


def values_kept(m):
    return forall(
        lambda k: implies(old(k in m._parameters), m._parameters[k].value is old(m._parameters[k].value)), "val"
    )


@contract("mxlpy.model:Model.update_parameters")
class update_parameters_values:
    requires = lambda self, parameters: (
        Wf(self)
        and not (parameters is self._parameters)
        and not (parameters is self._ids)
        and dict_wf(parameters)
        and records_distinct(self)
    )
    may_raise = (KeyError,)
    ensures = lambda self, parameters, result: [
        result is self,
        Wf(self),
        content_same(self),
        records_distinct(self),
        forall(
            lambda k: implies(
                k in parameters and not isinstance(parameters[k], Parameter),
                k in self._parameters and self._parameters[k].value is parameters[k],
            ),
            "val",
        ),
        forall(
            lambda k: implies(
                k in self._parameters and not (k in parameters),
                self._parameters[k].value is old(self._parameters[k].value),
            ),
            "val",
        ),
    ]
    modifies = lambda self, parameters: [field(self, "_cache"), field_map("value"), field_map("unit"), field_map("source")]
    loops = {
        1: lambda self, parameters: [
            Wf(self),
            content_same(self),
            records_distinct(self),
            unchanged(parameters),
            forall(
                lambda q: implies(
                    0 <= q and q < _i and not isinstance(parameters[at(keys(parameters), q)], Parameter),
                    at(keys(parameters), q) in self._parameters
                    and self._parameters[at(keys(parameters), q)].value is parameters[at(keys(parameters), q)],
                ),
                "int",
            ),
            forall(
                lambda k: implies(
                    k in self._parameters,
                    self._parameters[k].value is old(self._parameters[k].value)
                    or exists(lambda q: 0 <= q and q < _i and at(keys(parameters), q) is k, "int"),
                ),
                "val",
            ),
        ],
    }


@contract("mxlpy.model:Model.get_parameter_values")
class get_parameter_values:
    trusted = "reads the cache (Model._create_cache, bounded under C13): the plain-valued parameters with their current values"
    requires = lambda self: True
    may_raise = (Exception,)
    ensures = lambda self, result: [
        forall(lambda k: implies(k in result, k in self._parameters and result[k] is self._parameters[k].value), "val"),
        not (result is self._parameters),
        not (result is self._ids),
    ]
    modifies = lambda self: [field(self, "_cache")]


@contract("mxlpy.model:Model.get_initial_conditions")
class get_initial_conditions:
    trusted = "reads the cache (Model._create_cache, bounded under C13); only the frame is used"
    may_raise = (Exception,)
    ensures = lambda self, result: True
    modifies = lambda self: [field(self, "_cache")]


@contract("mxlpy.model:Model.get_fluxes")
class get_fluxes:
    trusted = "pandas-based evaluation (bounded under C01/C18); only the frame is used: it writes nothing but the cache field"
    may_raise = (Exception,)
    ensures = lambda self, variables, time, result: True
    modifies = lambda self, variables, time: [field(self, "_cache")]


@contract("mxlpy.mca:parameter_elasticities")
class parameter_elasticities:
    requires = lambda model, to_scan, variables, time, normalized, displacement: Wf(model) and records_distinct(model)
    may_raise = (Exception,)
    ensures = lambda model, to_scan, variables, time, normalized, displacement, result: [
        values_kept(model),
        content_same(model),
        Wf(model),
    ]
    modifies = lambda model, to_scan, variables, time, normalized, displacement: [
        field(model, "_cache"),
        field_map("value"),
        field_map("unit"),
        field_map("source"),
    ]
    loops = {
        1: lambda model, to_scan, elasticities: [
            values_kept(model),
            content_same(model),
            Wf(model),
            records_distinct(model),
            fresh(elasticities),
        ],
    }


# variable_elasticities perturbs one variable at a time in a COPY of the state
# (`variables | {var: ...}`); proved: on normal return every parameter record holds its
# entry value, the name space is unchanged and a state dict handed in by the caller holds
# what it held on entry (the clause "initial conditions as it found them" for the
# caller's own dict).
@contract("mxlpy.model:Model.get_variable_names")
class get_variable_names:
    requires = lambda self: Wf(self)
    ensures = lambda self, result: [fresh(result), len(result) == len(keys(self._variables))]
    modifies = lambda self: []


@contract("mxlpy.mca:variable_elasticities")
class variable_elasticities:
    requires = lambda model, to_scan, variables, time, normalized, displacement: (
        Wf(model) and records_distinct(model) and implies(not (variables is None), dict_wf(variables))
    )
    may_raise = (Exception,)
    ensures = lambda model, to_scan, variables, time, normalized, displacement, result: [
        values_kept(model),
        content_same(model),
        Wf(model),
        implies(not (variables is None), unchanged(variables)),
    ]
    modifies = lambda model, to_scan, variables, time, normalized, displacement: [field(model, "_cache")]
    loops = {
        1: lambda model, to_scan, variables, elasticities: [
            values_kept(model),
            content_same(model),
            Wf(model),
            fresh(elasticities),
            implies(not (old(variables) is None), variables is old(variables) and unchanged(variables)),
        ],
    }
