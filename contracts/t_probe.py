# probe contracts (engine bring-up)

@contract("mxlpy.types:Derived.calculate")
class Derived_calculate:
    requires = lambda self, args: all(a in args for a in self.args)
    ensures = lambda self, args, result: result == apply(self.fn, [args[a] for a in self.args])
    modifies = lambda self, args: []

@contract("mxlpy.types:Derived.calculate_inpl")
class Derived_calculate_inpl:
    requires = lambda self, name, args: all(a in args for a in self.args)
    ensures = lambda self, name, args, result: [
        vals(args) == store(old(vals(args)), name, apply(self.fn, [old(args[a]) for a in self.args])),
        dom(args) == store(old(dom(args)), name, True),
    ]
    modifies = lambda self, name, args: [args]

@contract("mxlpy.model:Model._insert_id")
class insert_id:
    raises = {KeyError: lambda self, name, ctx: name == "time",
              NameError: lambda self, name, ctx: name != "time" and name in self._ids}
    on_raise = lambda self, name, ctx: unchanged(self._ids)
    ensures = lambda self, name, ctx, result: [
        keys(self._ids) == old(keys(self._ids)) + [name],
        vals(self._ids) == store(old(vals(self._ids)), name, ctx),
        dom(self._ids) == store(old(dom(self._ids)), name, True),
    ]
    modifies = lambda self, name, ctx: [self._ids]
