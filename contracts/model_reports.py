# Sidecar contracts for how derived quantities are REPORTED (property C13): a derived
# quantity is listed as a derived parameter exactly when the cache holds a value for it among
# `all_parameter_values` (i.e. it was classified static when the cache was built), and as a
# derived variable otherwise - every derived quantity is in exactly one of the two reports,
# with its own record.  That the cache classifies "depends, through any chain, only on
# parameters" correctly is the static/dynamic split of Model._create_cache: bounded (C13).
# Parsed, never executed.

TYPE_ALIAS = {"SurrogateProtocol": "AbstractSurrogate"}


@contract("mxlpy.model:Model._create_cache")
class create_cache:
    trusted = "Model._create_cache: bounded under C13; here only: it stores and returns a new cache object and writes nothing else"
    may_raise = (Exception,)
    ensures = lambda self, result: [fresh(result), self._cache is result, fresh(result.all_parameter_values)]
    modifies = lambda self: [field(self, "_cache")]


def cache_of(m):
    return as_type(m._cache, "ModelCache")


@contract("mxlpy.model:Model.get_derived_parameters")
class get_derived_parameters:
    requires = lambda self: dict_wf(self._derived) and (self._cache is None or not (self._cache.all_parameter_values is self._derived))
    may_raise = (Exception,)
    ensures = lambda self, result: [
        self._cache is not None,
        implies(old(self._cache is not None), self._cache is old(self._cache)),
        fresh(result),
        forall(
            lambda k: iff(k in result, k in self._derived and k in cache_of(self).all_parameter_values),
            "val",
        ),
        forall(lambda k: implies(k in result, result[k] is self._derived[k]), "val"),
        unchanged(self._derived),
    ]
    modifies = lambda self: [field(self, "_cache")]


@contract("mxlpy.model:Model.get_derived_variables")
class get_derived_variables:
    requires = lambda self: dict_wf(self._derived) and (self._cache is None or not (self._cache.all_parameter_values is self._derived))
    may_raise = (Exception,)
    ensures = lambda self, result: [
        self._cache is not None,
        implies(old(self._cache is not None), self._cache is old(self._cache)),
        fresh(result),
        forall(
            lambda k: iff(k in result, k in self._derived and not (k in cache_of(self).all_parameter_values)),
            "val",
        ),
        forall(lambda k: implies(k in result, result[k] is self._derived[k]), "val"),
        unchanged(self._derived),
    ]
    modifies = lambda self: [field(self, "_cache")]
