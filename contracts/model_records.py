# Sidecar contracts for the component records of mxlpy.types (Derived, Reaction,
# InitialAssignment, Readout): calculate / calculate_inpl evaluate the record's function on
# the named entries of the argument table.  Shared by contracts/model_eval.py (C01) and
# contracts/model_args.py (equations of _get_args).  Parsed, never executed.

TYPE_ALIAS = {"SurrogateProtocol": "AbstractSurrogate"}


@contract("mxlpy.types:Derived.calculate")
class Derived_calculate:
    requires = lambda self, args: all_in(self.args, args)
    ensures = lambda self, args, result: result == apply(self.fn, [args[a] for a in self.args])
    modifies = lambda self, args: []
    opts = {"allocates": False}


@contract("mxlpy.types:Derived.calculate_inpl")
class Derived_calculate_inpl:
    requires = lambda self, name, args: all_in(self.args, args)
    ensures = lambda self, name, args, result: [
        vals(args) == store(old(vals(args)), name, apply(self.fn, [old(args[a]) for a in self.args])),
        dom(args) == store(old(dom(args)), name, True),
        keys(args) == (old(keys(args)) if old(name in args) else old(keys(args)) + [name]),
    ]
    modifies = lambda self, name, args: [args]
    opts = {"allocates": False}


@contract("mxlpy.types:Reaction.calculate")
class Reaction_calculate:
    requires = lambda self, args: all_in(self.args, args)
    ensures = lambda self, args, result: result == apply(self.fn, [args[a] for a in self.args])
    modifies = lambda self, args: []
    opts = {"allocates": False}


@contract("mxlpy.types:Reaction.calculate_inpl")
class Reaction_calculate_inpl:
    requires = lambda self, name, args: all_in(self.args, args)
    ensures = lambda self, name, args, result: [
        vals(args) == store(old(vals(args)), name, apply(self.fn, [old(args[a]) for a in self.args])),
        dom(args) == store(old(dom(args)), name, True),
        keys(args) == (old(keys(args)) if old(name in args) else old(keys(args)) + [name]),
    ]
    modifies = lambda self, name, args: [args]
    opts = {"allocates": False}


@contract("mxlpy.types:InitialAssignment.calculate")
class IA_calculate:
    requires = lambda self, args: all_in(self.args, args)
    ensures = lambda self, args, result: result == apply(self.fn, [args[a] for a in self.args])
    modifies = lambda self, args: []
    opts = {"allocates": False}


@contract("mxlpy.types:InitialAssignment.calculate_inpl")
class IA_calculate_inpl:
    requires = lambda self, name, args: all_in(self.args, args)
    ensures = lambda self, name, args, result: [
        vals(args) == store(old(vals(args)), name, apply(self.fn, [old(args[a]) for a in self.args])),
        dom(args) == store(old(dom(args)), name, True),
        keys(args) == (old(keys(args)) if old(name in args) else old(keys(args)) + [name]),
    ]
    modifies = lambda self, name, args: [args]
    opts = {"allocates": False}


@contract("mxlpy.types:Readout.calculate")
class Readout_calculate:
    requires = lambda self, args: all_in(self.args, args)
    ensures = lambda self, args, result: result == apply(self.fn, [args[a] for a in self.args])
    modifies = lambda self, args: []
    opts = {"allocates": False}


@contract("mxlpy.types:Readout.calculate_inpl")
class Readout_calculate_inpl:
    requires = lambda self, name, args: all_in(self.args, args)
    ensures = lambda self, name, args, result: [
        vals(args) == store(old(vals(args)), name, apply(self.fn, [old(args[a]) for a in self.args])),
        dom(args) == store(old(dom(args)), name, True),
        keys(args) == (old(keys(args)) if old(name in args) else old(keys(args)) + [name]),
    ]
    modifies = lambda self, name, args: [args]
    opts = {"allocates": False}


@contract("mxlpy.surrogates.abstract:AbstractSurrogate.calculate_inpl")
class Surrogate_calculate_inpl:
    trusted = "surrogate predictions are outside the deductive part (abstract predict); only the frame is used: it writes the argument table and keeps the keys that were there"
    ensures = lambda self, name, args, result: forall(lambda k: implies(old(k in args), k in args), "val")
    may_raise = (Exception,)
    modifies = lambda self, name, args: [args]
