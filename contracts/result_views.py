# Sidecar contract for the normalisation helper of the result views (property C10:
# "normalisation divides by the supplied scalar, per-segment factors or per-row factors").
# Parsed, never executed.  Frames and vectors are abstract values (pyvc/lib_frame.py):
# the clauses state WHICH operands meet - segment k is divided by the scalar, by the
# k-th factor (column-wise through the transpose, as pandas aligns a vector with the
# columns), or by the slice of `normalise` that starts where the rows of segments
# 0..k-1 end and has one factor per row of segment k.

ASSUMPTIONS = [
    "C10: pandas/numpy operations are functional (equal operands give equal results); frame / (n,1)-column divides row r by the r-th factor (numpy broadcasting)",
    "C10: when len(normalise) == number of segments the factors are read per segment (the function's documented precedence)",
]


def Off(results, k):
    # number of rows in segments 0..k-1
    return fold_prefix(lambda acc, f: acc + rows(f), 0, results, k)


def per_row(f, normalise, start):
    return df_div_a(f, vcol(vslice(arrv(normalise), start, start + rows(f)), rows(f)))


@contract("mxlpy.simulation:_normalise_split_results")
class normalise_split_results:
    requires = lambda results, normalise: True
    ensures = lambda results, normalise, result: [
        len(result) == len(results),
        unchanged(results),
        implies(
            not has_type(normalise, "Array"),
            forall(lambda k: implies(0 <= k and k < len(results), result[k] is df_div_s(results[k], real(normalise))), "int"),
        ),
        implies(
            has_type(normalise, "Array") and vlen(arrv(normalise)) == len(results),
            forall(
                lambda k: implies(
                    0 <= k and k < len(results),
                    result[k] is df_T(df_div_v(df_T(results[k]), velem(arrv(normalise), k))),
                ),
                "int",
            ),
        ),
        implies(
            has_type(normalise, "Array") and vlen(arrv(normalise)) != len(results),
            forall(
                lambda k: implies(
                    0 <= k and k < len(results),
                    result[k] is per_row(results[k], normalise, Off(results, k)),
                ),
                "int",
            ),
        ),
    ]
    modifies = lambda results, normalise: []
    loops = {
        1: lambda results, normalise: [
            start == Off(results, _i),
            len(normalised) == _i,
            unchanged(results),
            arrv(normalise) == old(arrv(normalise)),
            fresh(normalised),
            forall(lambda k: implies(0 <= k and k < _i, normalised[k] is per_row(results[k], normalise, Off(results, k))), "int"),
        ],
    }
