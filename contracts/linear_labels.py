# Sidecar contract for the position mapper of the linear label model (property C16).
# It states what the function DOES, for every permutation-like map: the substrate at
# position i is written to result position labelmap[i]  (result[labelmap[i]] = substrates[i]).
# The documented reading, used by LabelMapper and docs/label-models.ipynb, is the inverse
# one (product position i is read from substrate position labelmap[i], i.e.
# result[i] = substrates[labelmap[i]]); the two coincide exactly for involutive maps.
# This proved characterisation is the deductive side of the C16 known finding
# "linear mapper reads the map in the inverse direction" (replayed with concrete maps by
# bounded/C16.py).  Parsed, never executed.

ASSUMPTIONS = [
    "C16 _map_substrates_to_labelmap: stated for maps that are injective and in range (permutations of the positions); zip(strict=True) rejects different lengths",
]


@contract("mxlpy.linear_label_map:_map_substrates_to_labelmap")
class map_substrates_to_labelmap:
    requires = lambda substrates, labelmap: (
        len(labelmap) == len(substrates)
        and forall(lambda i: implies(0 <= i and i < len(labelmap), 0 <= at(labelmap, i) and at(labelmap, i) < len(substrates)), "int")
        and forall(
            lambda i, j: implies(0 <= i and i < j and j < len(labelmap), at(labelmap, i) != at(labelmap, j)), "int", "int"
        )
    )
    ensures = lambda substrates, labelmap, result: [
        len(result) == len(substrates),
        fresh(result),
        forall(
            lambda i: implies(0 <= i and i < len(substrates), at(result, at(labelmap, i)) is at(substrates, i)),
            "int",
        ),
        unchanged(substrates),
        unchanged(labelmap),
    ]
    modifies = lambda substrates, labelmap: []
    loops = {
        1: lambda substrates, labelmap, res: [
            len(res) == len(substrates),
            fresh(res),
            unchanged(substrates),
            unchanged(labelmap),
            forall(lambda q: implies(0 <= q and q < _i, at(res, at(labelmap, q)) is at(substrates, q)), "int"),
        ],
    }


def Copies(st, n):
    # total number of entries contributed by the first n species
    return fold_prefix(lambda acc, k: acc + (st[k] if st[k] > 0 else 0), 0, keys(st), n)


@contract("mxlpy.linear_label_map:_stoichiometry_to_duplicate_list")
class stoichiometry_to_duplicate_list:
    # every species listed as often as its (positive) coefficient says; nothing else
    requires = lambda stoichiometry: dict_wf(stoichiometry)
    ensures = lambda stoichiometry, result: [
        fresh(result),
        len(result) == Copies(stoichiometry, len(keys(stoichiometry))),
        forall(
            lambda p: implies(
                0 <= p and p < len(result), at(result, p) in stoichiometry and stoichiometry[at(result, p)] > 0
            ),
            "int",
        ),
        unchanged(stoichiometry),
    ]
    modifies = lambda stoichiometry: []
    loops = {
        1: lambda stoichiometry, long_form: [
            fresh(long_form),
            unchanged(stoichiometry),
            len(long_form) == Copies(stoichiometry, _i),
            forall(
                lambda p: implies(
                    0 <= p and p < len(long_form),
                    at(long_form, p) in stoichiometry and stoichiometry[at(long_form, p)] > 0,
                ),
                "int",
            ),
        ],
    }


@contract("mxlpy.linear_label_map:_unpack_stoichiometries")
class unpack_stoichiometries_linear:
    # species with a negative coefficient are substrates (with the negated coefficient),
    # all others products; computed coefficients are refused
    requires = lambda stoichiometries: dict_wf(stoichiometries)
    raises = {
        NotImplementedError: lambda stoichiometries: exists(
            lambda q: 0 <= q and q < len(keys(stoichiometries))
            and isinstance(stoichiometries[at(keys(stoichiometries), q)], Derived),
            "int",
        )
    }
    ensures = lambda stoichiometries, result: [
        forall(
            lambda k: iff(k in result[0], k in stoichiometries and real(stoichiometries[k]) < 0),
            "val",
        ),
        forall(
            lambda k: iff(k in result[1], k in stoichiometries and real(stoichiometries[k]) >= 0),
            "val",
        ),
        unchanged(stoichiometries),
    ]
    modifies = lambda stoichiometries: []
    loops = {
        1: lambda stoichiometries, substrates, products: [
            fresh(substrates),
            fresh(products),
            not (substrates is products),
            unchanged(stoichiometries),
            forall(
                lambda q: implies(0 <= q and q < _i, not isinstance(stoichiometries[at(keys(stoichiometries), q)], Derived)),
                "int",
            ),
            forall(
                lambda k: iff(
                    k in substrates,
                    exists(lambda q: 0 <= q and q < _i and at(keys(stoichiometries), q) is k, "int")
                    and real(stoichiometries[k]) < 0,
                ),
                "val",
            ),
            forall(
                lambda k: iff(
                    k in products,
                    exists(lambda q: 0 <= q and q < _i and at(keys(stoichiometries), q) is k, "int")
                    and real(stoichiometries[k]) >= 0,
                ),
                "val",
            ),
        ],
    }
