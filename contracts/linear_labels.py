# Sidecar contract for the position mapper of the linear label model (property C16).
# It states what the function DOES, for every permutation-like map: the substrate at
# position i is written to result position labelmap[i]  (result[labelmap[i]] = substrates[i]).
# The documented reading, used by LabelMapper and docs/label-models.ipynb, is the inverse
# one (product position i is read from substrate position labelmap[i], i.e.
# result[i] = substrates[labelmap[i]]); the two coincide exactly for involutive maps.
# This proved characterisation is the deductive side of the C16 known finding
# "linear mapper reads the map in the inverse direction" (replayed with concrete maps by
# bounded/C16.py).  Parsed, never executed.

ASSUMPTIONS = [
    "C16 _map_substrates_to_labelmap: stated for maps that are injective and in range (permutations of the positions); zip(strict=True) rejects different lengths",
]


@contract("mxlpy.linear_label_map:_map_substrates_to_labelmap")
class map_substrates_to_labelmap:
    requires = lambda substrates, labelmap: (
        len(labelmap) == len(substrates)
        and forall(lambda i: implies(0 <= i and i < len(labelmap), 0 <= at(labelmap, i) and at(labelmap, i) < len(substrates)), "int")
        and forall(
            lambda i, j: implies(0 <= i and i < j and j < len(labelmap), at(labelmap, i) != at(labelmap, j)), "int", "int"
        )
    )
    ensures = lambda substrates, labelmap, result: [
        len(result) == len(substrates),
        fresh(result),
        forall(
            lambda i: implies(0 <= i and i < len(substrates), at(result, at(labelmap, i)) is at(substrates, i)),
            "int",
        ),
        unchanged(substrates),
        unchanged(labelmap),
    ]
    modifies = lambda substrates, labelmap: []
    loops = {
        1: lambda substrates, labelmap, res: [
            len(res) == len(substrates),
            fresh(res),
            unchanged(substrates),
            unchanged(labelmap),
            forall(lambda q: implies(0 <= q and q < _i, at(res, at(labelmap, q)) is at(substrates, q)), "int"),
        ],
    }
