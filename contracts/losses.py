# Sidecar contracts for the shipped loss functions (property C20: "every shipped loss is
# smallest when the prediction reproduces the data").  Stated as: the loss is never
# negative and is exactly 0 when prediction and data hold the same numbers - so no
# prediction scores better than the perfect one.  Vectors are abstract (pyvc/lib_vec.py);
# what is proved is that each loss COMPOSES the numpy operations so that these two facts
# follow from the listed elementary facts about them.
#
# `losses.mean` is a signed mean (known finding, see known_findings.jsonl): its contract
# is stated all the same and its first clause is expected not to discharge.
# `cosine_similarity` (minimum -1 by Cauchy-Schwarz) is outside this vocabulary: bounded only.
# Parsed, never executed.

ASSUMPTIONS = [
    "C20 losses: numpy facts of pyvc/lib_vec.py (zero(a-a), nonneg(square/abs), mean of a non-negative vector >= 0, mean of a zero vector = 0, sqrt(0)=0, sqrt>=0); floats as reals, no NaN / division by zero / log of non-positive numbers",
]


@contract("mxlpy.fit.losses:mean")
class mean:
    opts = {"vectors": True}
    ensures = lambda y_pred, y_true, result: [
        real(result) >= 0,
        implies(same_data(y_pred, y_true), real(result) == 0),
    ]
    modifies = lambda y_pred, y_true: []


@contract("mxlpy.fit.losses:mean_squared")
class mean_squared:
    opts = {"vectors": True}
    ensures = lambda y_pred, y_true, result: [
        real(result) >= 0,
        implies(same_data(y_pred, y_true), real(result) == 0),
    ]
    modifies = lambda y_pred, y_true: []


@contract("mxlpy.fit.losses:rmse")
class rmse:
    opts = {"vectors": True}
    ensures = lambda y_pred, y_true, result: [
        real(result) >= 0,
        implies(same_data(y_pred, y_true), real(result) == 0),
    ]
    modifies = lambda y_pred, y_true: []


@contract("mxlpy.fit.losses:mae")
class mae:
    opts = {"vectors": True}
    ensures = lambda y_pred, y_true, result: [
        real(result) >= 0,
        implies(same_data(y_pred, y_true), real(result) == 0),
    ]
    modifies = lambda y_pred, y_true: []


@contract("mxlpy.fit.losses:mean_absolute_percentage")
class mean_absolute_percentage:
    opts = {"vectors": True}
    ensures = lambda y_pred, y_true, result: [
        real(result) >= 0,
        implies(same_data(y_pred, y_true), real(result) == 0),
    ]
    modifies = lambda y_pred, y_true: []


@contract("mxlpy.fit.losses:mean_squared_logarithmic")
class mean_squared_logarithmic:
    opts = {"vectors": True}
    ensures = lambda y_pred, y_true, result: [
        real(result) >= 0,
        implies(same_data(y_pred, y_true), real(result) == 0),
    ]
    modifies = lambda y_pred, y_true: []
