"""Bounded stand-in for C19 (labelled bounded, never counted as proved).

Contract (DESIGN 5 "C19"), checked at run time on the REAL ``parallel.parallelise``
and the REAL ``scan.*`` / ``mc.*`` entry points with a ``Cache`` in a fresh
temporary directory:

  T  transparency      parallelise(fn, inputs, cache=C) == parallelise(fn, inputs)
                       == [(k, fn(v)) for k, v in inputs]  (closed-form oracle), in
                       input order;
  R  repeated run      a second run on the complete cache returns the same list and
                       calls ``fn`` zero times (calls are counted through marker
                       files, so calls made inside pool processes count as well);
  P  partial cache     a run on a cache that holds an arbitrary (non-prefix) subset of
                       the keys returns the full, correctly ordered list and calls
                       ``fn`` only for absent keys;
  K  crash safety      a caching run that is killed
                         - before / after each result-file write (SIGKILL inside
                           ``fn`` of key j, i.e. after the write of key j-1), or
                         - in the middle of a result-file write at byte offset n
                           (the worker is REALLY killed by the kernel: RLIMIT_FSIZE
                           = n with the default SIGXFSZ action is armed inside
                           ``fn`` of the victim key, so the next file the library
                           writes dies after exactly n bytes, whatever name it
                           writes to),
                       leaves a directory on which a rerun completes and returns the
                       correct result for every key;
  K' simulated prefixes  every sampled prefix length (0, 1, half, all-but-one, random)
                       of a result file under its final name, other keys complete
                       or a non-prefix subset missing.  These states are only
                       *reachable* if the implementation writes under the final
                       name, so K' is counted as a property violation only when the
                       real kills of K were OBSERVED to leave a partial file under
                       a final name on this tree (otherwise it is recorded as
                       informational robustness only).

Key sets: ints, floats with dots, dotted strings, tuples, mixed; distinct keys with
equal ``str`` are outside the contract (stated precondition).  Sequential and
parallel (2 workers; the pool itself is an assumed contract).
"""
from __future__ import annotations

import contextlib
import itertools
import logging
import os
import random
import resource
import shutil
import signal
import tempfile
import time
import uuid
import warnings
from functools import partial
from pathlib import Path
from typing import Any

from vlib.core import Ctx, seed

###############################################################################
# worker functions (module level: they are pickled by reference for the pool)
###############################################################################


def _mark(logdir: str | None, tag: str) -> None:
    """Count one call: an EMPTY marker file (0 bytes, so it is never affected by a
    file-size limit armed in the same process)."""
    if logdir is None:
        return
    fd = os.open(os.path.join(logdir, f"{tag}@{uuid.uuid4().hex}"), os.O_CREAT | os.O_EXCL | os.O_WRONLY)
    os.close(fd)


def _expected(i: int) -> dict[str, Any]:
    """Closed-form oracle for the result of the i-th input (distinct per key and of
    distinct pickled length, so that mixed-up files / rows are noticed)."""
    x = i + 2
    return {"i": i, "x": x, "sq": x * x, "pad": "r" * (11 * i + 3), "f": x / 7.0}


def _work(v: dict[str, Any]) -> dict[str, Any]:
    i = v["i"]
    _mark(v.get("log"), f"call-{i}")
    die = v.get("die")
    if die == "kill":  # killed before this key's result is written
        os.kill(os.getpid(), signal.SIGKILL)
    elif die == "killpg":  # the whole run (pool manager + all workers) is killed
        os.killpg(os.getpgid(0), signal.SIGKILL)
    res = _expected(i)
    if (lim := v.get("fsize")) is not None:
        # arm a REAL kill in the middle of the next file write of this process
        signal.signal(signal.SIGXFSZ, signal.SIG_DFL)
        resource.setrlimit(resource.RLIMIT_FSIZE, (lim, lim))
    return res


# -- model used for the scan.* / mc.* flows (plain parameters only; models whose
#    parameters are computed from initial values are C09's business)


def _const(k0: float) -> float:
    return k0


def _ma(s: float, k: float) -> float:
    return k * s


def _model():
    from mxlpy import Model

    return (
        Model()
        .add_parameters({"k0": 1.0, "k1": 1.0, "k2": 2.0})
        .add_variables({"S": 0.5, "P": 0.25})
        .add_reaction("v0", _const, args=["k0"], stoichiometry={"S": 1.0})
        .add_reaction("v1", _ma, args=["S", "k1"], stoichiometry={"S": -1.0, "P": 1.0})
        .add_reaction("v2", _ma, args=["P", "k2"], stoichiometry={"P": -1.0})
    )


def _arm(model, logdir, fsize_at):
    _mark(logdir, "call-row")
    if fsize_at is not None and abs(model.get_parameter_values()["k1"] - fsize_at[0]) < 1e-12:
        signal.signal(signal.SIGXFSZ, signal.SIG_DFL)
        resource.setrlimit(resource.RLIMIT_FSIZE, (fsize_at[1], fsize_at[1]))


def _ss_worker(model, *, rel_norm, integrator, y0, logdir=None, fsize_at=None):
    from mxlpy.scan import _steady_state_worker

    res = _steady_state_worker(model, rel_norm=rel_norm, integrator=integrator, y0=y0)
    _arm(model, logdir, fsize_at)
    return res


def _tc_worker(model, time_points, *, integrator, y0, logdir=None, fsize_at=None):
    from mxlpy.scan import _time_course_worker

    res = _time_course_worker(model, time_points=time_points, integrator=integrator, y0=y0)
    _arm(model, logdir, fsize_at)
    return res


def _pr_worker(model, protocol, *, integrator, y0, time_points_per_step=10, logdir=None, fsize_at=None):
    from mxlpy.scan import _protocol_worker

    res = _protocol_worker(model, protocol=protocol, integrator=integrator, y0=y0,
                           time_points_per_step=time_points_per_step)
    _arm(model, logdir, fsize_at)
    return res


def _ptc_worker(model, protocol, time_points, *, integrator, y0, logdir=None, fsize_at=None):
    from mxlpy.scan import _protocol_time_course_worker

    res = _protocol_time_course_worker(model, protocol=protocol, time_points=time_points,
                                       integrator=integrator, y0=y0)
    _arm(model, logdir, fsize_at)
    return res


###############################################################################
# helpers
###############################################################################

KEYSETS: dict[str, list[Any]] = {
    "ints": [0, 1, 2, 3, 4],
    "floats": [0.5, 1.0, 1.5, 1.25, 2.0],  # 1.0 / 1.5 / 1.25 agree up to the last dot
    "dotted-strings": ["a", "v1.fwd", "v1.rev", "k 2", "b.c.d"],
    "tuples": [(1, 3), (1, 4), (2, 3), (2.5, "x"), (1,)],
    "mixed": [7, 2.5, "x.y", (1, "a"), -3],
}
WORKERS = 2
CHILD_TIMEOUT = 20  # seconds an interrupted run may take before the watchdog kills it


def _inputs(keys, log=None, **special):
    """special: die={index: 'kill'|'killpg'}, fsize={index: n}."""
    out = []
    for i, k in enumerate(keys):
        v: dict[str, Any] = {"i": i, "log": log}
        for name, d in special.items():
            if i in d:
                v[name] = d[i]
        out.append((k, v))
    return out


def _want(keys, idx=None):
    idx = range(len(keys)) if idx is None else idx
    return [(keys[i], _expected(i)) for i in idx]


def _run(keys_inputs, tmp: Path | None, parallel: bool):
    from mxlpy.parallel import Cache, parallelise

    return parallelise(
        _work, keys_inputs, cache=None if tmp is None else Cache(tmp_dir=tmp),
        parallel=parallel, max_workers=WORKERS, disable_tqdm=True,
    )


def _calls(logdir: Path) -> list[str]:
    return sorted(p.name.split("@")[0] for p in logdir.iterdir())


def _clear(d: Path) -> None:
    for p in d.iterdir():
        p.unlink()


def _in_child(fn) -> tuple[str, int]:
    """Run fn() in a forked child that is its own process group; return how it ended.
    The child never returns into the caller's stack."""
    with warnings.catch_warnings():
        warnings.simplefilter("ignore", DeprecationWarning)
        pid = os.fork()
    if pid == 0:
        code = 0
        try:
            os.setsid()
            devnull = os.open(os.devnull, os.O_RDWR)
            os.dup2(devnull, 1)
            os.dup2(devnull, 2)
            fn()
        except BaseException:  # noqa: BLE001  (e.g. pebble.ProcessExpired: a pool worker was killed)
            code = 7
        finally:
            os._exit(code)
    # watchdog: when a pool worker is killed, pebble occasionally loses the task and
    # the interrupted run waits forever (observed once in ~600 kills).  The run is
    # being interrupted anyway: kill it for good after CHILD_TIMEOUT seconds.
    deadline = time.monotonic() + CHILD_TIMEOUT
    timed_out = False
    while True:
        done, st = os.waitpid(pid, os.WNOHANG)
        if done:
            break
        if time.monotonic() > deadline:
            timed_out = True
            with contextlib.suppress(ProcessLookupError, PermissionError):
                os.killpg(pid, signal.SIGKILL)
            _, st = os.waitpid(pid, 0)
            break
        time.sleep(0.005)
    # make sure nothing of the child's process group survives (pool workers)
    with contextlib.suppress(ProcessLookupError, PermissionError):
        os.killpg(pid, signal.SIGKILL)
    if timed_out:
        return "watchdog-kill", CHILD_TIMEOUT
    if os.WIFSIGNALED(st):
        return "signal", os.WTERMSIG(st)
    return "exit", os.WEXITSTATUS(st)


def _dir_state(tmp: Path) -> dict[str, int]:
    return {p.name: p.stat().st_size for p in sorted(tmp.iterdir())}


def _final_name(k) -> str:
    from mxlpy.parallel import Cache

    return Cache().name_fn(k)


def _offset_classes(L: int, rng: random.Random, extra: int) -> list[tuple[str, int]]:
    out = [("0-bytes", 0), ("1-byte", 1), ("half", L // 2), ("all-but-one", L - 1)]
    seen = {n for _, n in out}
    pool = [n for n in range(2, L - 1) if n not in seen]
    rng.shuffle(pool)
    out += [("inner", n) for n in sorted(pool[:extra])]
    return [(c, n) for c, n in out if 0 <= n < L]


class _Tally:
    def __init__(self) -> None:
        self.cases = 0
        self.nontrivial: set = set()
        self.samples: list = []
        self.partial_under_final_name = 0  # real kills that left a partial file under a final name
        self.real_kills = 0
        self.contract_evals = 0

    def case(self, ident, nontrivial: bool, sample=None) -> None:
        self.cases += 1
        if nontrivial:
            self.nontrivial.add(ident)
        if sample is not None and len(self.samples) < 6:
            self.samples.append(sample)


def _rerun_ok(ctx: Ctx, tally: _Tally, *, key: str, what: str, witness: dict, tmp: Path, keys, parallel: bool,
              record: bool = True) -> bool:
    """The rerun clause: on directory `tmp` a full run completes and returns the
    correct list.  Returns True if it held."""
    try:
        got = _run(_inputs(keys), tmp, parallel)
    except Exception as e:  # noqa: BLE001
        if record:
            ctx.fail(key=key, kind="bounded", what=f"{what}: rerun raised {type(e).__name__}: {str(e)[:80]}",
                     witness=witness, replayed=True, detail={"dir": _dir_state(tmp)})
        return False
    if got != _want(keys):
        if record:
            ctx.fail(key=key + ":wrong-result", kind="bounded", what=f"{what}: rerun returned wrong results",
                     witness=witness, replayed=True, detail={"got": repr(got)[:600], "want": repr(_want(keys))[:600]})
        return False
    return True


###############################################################################
# parallelise: T, R, P, K, K'
###############################################################################


def _check_parallelise(ctx: Ctx, tally: _Tally, rng: random.Random) -> None:
    import mxlpy.parallel as mp

    quick = ctx.tier == "quick"

    # run-time contract on the real _load_or_run (sequential branch only: the
    # parallel branch runs it in pool processes): the returned pair carries the
    # key, and with a cache the file of the key now loads to the returned value.
    real_lor = mp._load_or_run

    def contracted(inp, fn, cache):
        out = real_lor(inp, fn, cache)
        tally.contract_evals += 1
        assert out[0] == inp[0], "post: key is passed through"
        if cache is not None:
            f = cache.tmp_dir / cache.name_fn(inp[0])
            assert f.exists() and cache.load_fn(f) == out[1], "post: file(k) holds the returned value"
        return out

    for ks_name, keys in KEYSETS.items():
        n = len(keys)
        assert len({str(k) for k in keys}) == n  # precondition of the contract
        for parallel in (False, True):
            mode = "parallel" if parallel else "sequential"
            tag = f"parallelise:{ks_name}:{mode}"
            with tempfile.TemporaryDirectory(prefix="c19_") as d:
                tmp, log = Path(d) / "cache", Path(d) / "log"
                log.mkdir()

                # ---- T: cached == uncached == closed form ----------------------
                if not parallel:  # pool tasks are pickled by reference, so only the sequential branch
                    mp._load_or_run = contracted
                try:
                    uncached = _run(_inputs(keys), None, parallel)
                    first = _run(_inputs(keys, str(log)), tmp, parallel)
                except AssertionError as e:
                    ctx.fail(key=f"bounded:load-or-run-postcondition:{tag}", kind="bounded", what=str(e),
                             witness={"keys": repr(keys), "mode": mode}, replayed=True)
                    first = uncached = None
                finally:
                    mp._load_or_run = real_lor
                tally.case(("T", tag), True, {"clause": "T", "keys": repr(keys), "mode": mode})
                if first is not None and not (first == uncached == _want(keys)):
                    ctx.fail(key=f"bounded:cached-differs-from-uncached:{tag}", kind="bounded",
                             what="first run with a cache differs from the run without / from fn applied to each input",
                             witness={"keys": repr(keys), "mode": mode}, replayed=True,
                             detail={"cached": repr(first)[:600], "uncached": repr(uncached)[:600]})
                if _calls(log) != sorted(f"call-{i}" for i in range(n)):
                    ctx.fail(key=f"bounded:first-run-call-count:{tag}", kind="bounded",
                             what=f"first caching run did not call fn exactly once per key: {_calls(log)}",
                             witness={"keys": repr(keys), "mode": mode}, replayed=True)
                full_state = _dir_state(tmp)
                sizes = {i: full_state.get(_final_name(k)) for i, k in enumerate(keys)}

                # ---- R: second run from disk, zero calls ------------------------
                _clear(log)
                try:
                    second = _run(_inputs(keys, str(log)), tmp, parallel)
                except Exception as e:  # noqa: BLE001
                    second = f"raised {type(e).__name__}"
                tally.case(("R", tag), True)
                if second != _want(keys):
                    ctx.fail(key=f"bounded:second-run-differs:{tag}", kind="bounded",
                             what="repeated run on a complete cache does not return the same results",
                             witness={"keys": repr(keys), "mode": mode}, replayed=True,
                             detail={"second": repr(second)[:600]})
                if _calls(log):
                    ctx.fail(key=f"bounded:second-run-recomputed:{tag}", kind="bounded",
                             what=f"repeated run on a complete cache called fn: {_calls(log)}",
                             witness={"keys": repr(keys), "mode": mode}, replayed=True)

                # ---- P: partial caches (arbitrary subsets present) --------------
                subsets = [s for r in range(n + 1) for s in itertools.combinations(range(n), r)]
                if parallel or not quick or ks_name != "ints":
                    # exhaustive for ints/sequential; otherwise a sample that always
                    # contains non-prefix subsets
                    nonprefix = [s for s in subsets if s and s != tuple(range(len(s)))]
                    rng.shuffle(nonprefix)
                    subsets = nonprefix[: (3 if quick else 8)] + [(), tuple(range(n - 1))]
                for present in subsets:
                    shutil.rmtree(tmp, ignore_errors=True)
                    _clear(log)
                    order = list(present)
                    if len(order) > 1 and rng.random() < 0.5:
                        order.reverse()  # the earlier run may have had another row order
                    if order:
                        sub = [(keys[i], {"i": i, "log": None}) for i in order]
                        _run(sub, tmp, parallel)
                    ident = ("P", tag, present)
                    w = {"keys": repr(keys), "mode": mode, "present_before_run": [repr(keys[i]) for i in present]}
                    try:
                        got = _run(_inputs(keys, str(log)), tmp, parallel)
                    except Exception as e:  # noqa: BLE001
                        got = f"raised {type(e).__name__}: {e}"
                    tally.case(ident, 0 < len(present) < n, {"clause": "P", **w})
                    if got != _want(keys):
                        prefix = present == tuple(range(len(present)))
                        ctx.fail(key=f"bounded:partial-cache-run-wrong:{'prefix' if prefix else 'non-prefix'}-subset:{tag}",
                                 kind="bounded",
                                 what="run on a partially filled cache differs from the uncached run (values or order)",
                                 witness=w, replayed=True,
                                 detail={"got": repr(got)[:600], "want": repr(_want(keys))[:600]})
                    recomputed = set(_calls(log)) & {f"call-{i}" for i in present}
                    if recomputed:
                        ctx.fail(key=f"bounded:partial-cache-recomputed-present-key:{tag}", kind="bounded",
                                 what=f"fn was called for keys whose results were on disk: {sorted(recomputed)}",
                                 witness=w, replayed=True)

                # ---- K: real kills ---------------------------------------------
                # (a) before the write of key j  (== after the write of key j-1)
                js = range(n) if (not quick or ks_name == "ints") else sorted(rng.sample(range(n), 2))
                for j in js:
                    for how in (("kill",) if not parallel else ("kill", "killpg")):
                        if parallel and how == "kill" and quick and ks_name != "ints":
                            continue
                        shutil.rmtree(tmp, ignore_errors=True)
                        ended = _in_child(lambda j=j, how=how: _run(_inputs(keys, die={j: how}), tmp, parallel))
                        tally.real_kills += 1
                        state = _dir_state(tmp) if tmp.exists() else {}
                        w = {"keys": repr(keys), "mode": mode, "killed": f"{how} inside fn of key {keys[j]!r} (index {j})",
                             "child_ended": list(ended), "dir_after_kill": state}
                        tally.case(("Ka", tag, j, how), True, {"clause": "K-before-write", **w})
                        _note_partials(tally, state, keys, sizes)
                        _rerun_ok(ctx, tally, key=f"bounded:rerun-after-kill-before-write:{how}:{tag}",
                                  what=f"run killed ({how}) before the result of key {keys[j]!r} was written",
                                  witness=w, tmp=tmp, keys=keys, parallel=parallel)

                # (b) in the middle of the write of key j at byte offset n
                if all(v is not None for v in sizes.values()):
                    victims = [0, n - 1] if quick else list(range(n))
                    if quick and ks_name not in ("ints", "floats"):
                        victims = [rng.randrange(n)]
                    for j in victims:
                        L = sizes[j]
                        for cls, off in _offset_classes(L, rng, 1 if quick else 6):
                            if parallel and quick and cls == "inner":
                                continue
                            shutil.rmtree(tmp, ignore_errors=True)
                            ended = _in_child(lambda j=j, off=off: _run(_inputs(keys, fsize={j: off}), tmp, parallel))
                            tally.real_kills += 1
                            state = _dir_state(tmp) if tmp.exists() else {}
                            w = {"keys": repr(keys), "mode": mode,
                                 "killed": f"SIGXFSZ after {off} of {L} bytes of the result file of key {keys[j]!r} (index {j})",
                                 "child_ended": list(ended), "dir_after_kill": state}
                            tally.case(("Kb", tag, j, off), True, {"clause": "K-mid-write", **w})
                            _note_partials(tally, state, keys, sizes)
                            _rerun_ok(ctx, tally, key=f"bounded:rerun-after-kill-mid-write:{cls}:{tag}",
                                      what=f"worker killed after {off}/{L} bytes of the result file of key {keys[j]!r}",
                                      witness=w, tmp=tmp, keys=keys, parallel=parallel)

    # ---- K': simulated prefixes under the final name (gated, see module doc) --------
    reachable = tally.partial_under_final_name > 0
    ctx.extra["C19_partial_file_under_final_name_observed_after_real_kill"] = tally.partial_under_final_name
    info_fail = 0
    for ks_name, keys in KEYSETS.items():
        n = len(keys)
        for parallel in (False, True):
            if parallel and quick and ks_name not in ("ints", "floats"):
                continue
            mode = "parallel" if parallel else "sequential"
            tag = f"parallelise:{ks_name}:{mode}"
            with tempfile.TemporaryDirectory(prefix="c19_") as d:
                ref, tmp = Path(d) / "ref", Path(d) / "cache"
                _run(_inputs(keys), ref, False)
                victims = range(n) if not (quick and parallel) else [0, n - 1]
                for j in victims:
                    f = ref / _final_name(keys[j])
                    if not f.exists():
                        continue
                    blob = f.read_bytes()
                    offs = _offset_classes(len(blob), rng, 2 if quick else 10)
                    if not quick and not parallel and ks_name == "ints":
                        offs = [("every", o) for o in range(len(blob))]  # every byte offset
                    for cls, off in offs:
                        for others in ("complete", "non-prefix-missing"):
                            if others != "complete" and (cls == "inner" or (quick and parallel)):
                                continue
                            shutil.rmtree(tmp, ignore_errors=True)
                            shutil.copytree(ref, tmp)
                            if others != "complete":
                                cand = [i for i in range(n) if i != j]
                                for i in rng.sample(cand, max(1, len(cand) // 2)):
                                    (tmp / _final_name(keys[i])).unlink(missing_ok=True)
                            (tmp / _final_name(keys[j])).write_bytes(blob[:off])
                            w = {"keys": repr(keys), "mode": mode, "dir_before_rerun": _dir_state(tmp),
                                 "truncated": f"{_final_name(keys[j])} to {off} of {len(blob)} bytes"}
                            tally.case(("K'", tag, j, off, others), reachable, {"clause": "K'-simulated-prefix", **w})
                            ok = _rerun_ok(ctx, tally, key=f"bounded:rerun-with-truncated-cache-file:{cls if cls != 'every' else 'inner'}:{tag}",
                                           what=f"result file of key {keys[j]!r} cut to {off}/{len(blob)} bytes (others {others})",
                                           witness=w, tmp=tmp, keys=keys, parallel=parallel, record=reachable)
                            info_fail += (not ok) and (not reachable)
    if not reachable:
        ctx.notes.append(
            f"C19 K': no real kill left a partial file under a final name, so truncated final files are unreachable on this tree; "
            f"{info_fail} simulated-prefix reruns failed (informational only)")


def _note_partials(tally: _Tally, state: dict[str, int], keys, sizes) -> None:
    for i, k in enumerate(keys):
        nm = _final_name(k)
        if nm in state and sizes.get(i) is not None and state[nm] < sizes[i]:
            tally.partial_under_final_name += 1


###############################################################################
# scan.* / mc.* with a cache
###############################################################################


def _frames_equal(a, b) -> bool:
    import pandas as pd

    try:
        pd.testing.assert_frame_equal(a, b, check_exact=True)
    except AssertionError:
        return False
    return True


def _check_scans(ctx: Ctx, tally: _Tally, rng: random.Random) -> None:
    import numpy as np
    import pandas as pd

    import mxlpy.mc as mc
    import mxlpy.scan as scan
    from mxlpy import make_protocol
    from mxlpy.parallel import Cache

    quick = ctx.tier == "quick"
    tp = np.linspace(0, 1.0, 4)
    proto = make_protocol([(0.5, {"k0": 2.0}), (0.5, {"k0": 0.5})])
    k1 = [0.5, 1.0, 1.5, 1.25]
    tables = {
        "range-index": pd.DataFrame({"k1": k1}),
        "float-index": pd.DataFrame({"k1": k1}, index=k1),
        "dotted-string-index": pd.DataFrame({"k1": k1}, index=["r.a", "r.b", "s", "t.a.b"]),
        "tuple-index": pd.DataFrame({"k1": k1, "S": [0.1, 0.2, 0.3, 0.4]},
                                    index=pd.MultiIndex.from_tuples([(1, 3), (1, 4), (2, 3), (2, 4)])),
    }

    # scan.* has no max_workers argument (it would start cpu_count() = 16 processes
    # per call); other jobs share the machine, so the pool size is pinned to 2 here.
    real_par = scan.parallelise
    pinned = lambda *a, **kw: real_par(*a, **{**kw, "max_workers": WORKERS})  # noqa: E731
    entries = {
        "scan.steady_state": (lambda m, t, **kw: scan.steady_state(m, to_scan=t, **kw), _ss_worker),
        "scan.time_course": (lambda m, t, **kw: scan.time_course(m, to_scan=t, time_points=tp, **kw), _tc_worker),
        "scan.protocol": (lambda m, t, **kw: scan.protocol(m, to_scan=t, protocol=proto, time_points_per_step=3, **kw), _pr_worker),
        "scan.protocol_time_course": (lambda m, t, **kw: scan.protocol_time_course(m, to_scan=t, protocol=proto, time_points=tp, **kw), _ptc_worker),
        "mc.steady_state": (lambda m, t, parallel=True, **kw: mc.steady_state(m, mc_to_scan=t, max_workers=WORKERS, **kw), _ss_worker),
        "mc.time_course": (lambda m, t, parallel=True, **kw: mc.time_course(m, mc_to_scan=t, time_points=tp, max_workers=WORKERS, **kw), _tc_worker),
    }
    import mxlpy.parallel as mp

    real_tqdm = mp.tqdm
    mp.tqdm = lambda *a, **kw: real_tqdm(*a, **{**kw, "disable": True})  # silence progress bars
    scan.parallelise = pinned
    try:
        for ename, (call, worker) in entries.items():
            for tname, table in tables.items():
                modes = (True,) if ename.startswith("mc.") else (False, True)
                for parallel in modes:
                    if quick and not (tname in ("float-index", "tuple-index") or (ename == "scan.steady_state" and not parallel)):
                        continue
                    if quick and parallel and ename not in ("scan.steady_state", "scan.time_course", "mc.steady_state"):
                        continue
                    mode = "parallel" if parallel else "sequential"
                    tag = f"{ename}:{tname}:{mode}"
                    w = {"entry": ename, "to_scan": table.reset_index().to_dict("list"), "mode": mode}
                    with tempfile.TemporaryDirectory(prefix="c19_") as d:
                        tmp, log = Path(d) / "cache", Path(d) / "log"
                        log.mkdir()
                        plain = call(_model(), table, parallel=parallel, worker=partial(worker, logdir=None))
                        first = call(_model(), table, parallel=parallel, cache=Cache(tmp_dir=tmp),
                                     worker=partial(worker, logdir=str(log)))
                        ncalls = len(_calls(log))
                        _clear(log)
                        second = call(_model(), table, parallel=parallel, cache=Cache(tmp_dir=tmp),
                                      worker=partial(worker, logdir=str(log)))
                        tally.case(("scan-TR", tag), True, {"clause": "T+R on scan", **w})
                        for attr in ("variables", "fluxes"):
                            p, f, s = getattr(plain, attr), getattr(first, attr), getattr(second, attr)
                            if not _frames_equal(p, f):
                                ctx.fail(key=f"bounded:cached-differs-from-uncached:{tag}:{attr}", kind="bounded",
                                         what=f"{ename} with a cache reports other {attr} than without",
                                         witness=w, replayed=True, detail={"uncached": p.to_string()[:800], "cached": f.to_string()[:800]})
                            if not _frames_equal(p, s):
                                ctx.fail(key=f"bounded:second-run-differs:{tag}:{attr}", kind="bounded",
                                         what=f"{ename} repeated on a complete cache reports other {attr}",
                                         witness=w, replayed=True, detail={"uncached": p.to_string()[:800], "second": s.to_string()[:800]})
                        if ncalls != len(table):
                            ctx.fail(key=f"bounded:first-run-call-count:{tag}", kind="bounded",
                                     what=f"first caching scan called the worker {ncalls} times for {len(table)} rows",
                                     witness=w, replayed=True)
                        if _calls(log):
                            ctx.fail(key=f"bounded:second-run-recomputed:{tag}", kind="bounded",
                                     what=f"repeated scan on a complete cache called the worker {len(_calls(log))} times",
                                     witness=w, replayed=True)

                        # P on scans: coarse scan (every other row, i.e. a non-prefix
                        # subset) first, then the full table on the same cache
                        shutil.rmtree(tmp)
                        call(_model(), table.iloc[[1, 3]], parallel=parallel, cache=Cache(tmp_dir=tmp),
                             worker=partial(worker, logdir=None))
                        try:
                            fine = call(_model(), table, parallel=parallel, cache=Cache(tmp_dir=tmp),
                                        worker=partial(worker, logdir=None))
                            okp = all(_frames_equal(getattr(plain, a), getattr(fine, a)) for a in ("variables", "fluxes"))
                            det = {"uncached": plain.variables.to_string()[:800], "on_partial_cache": fine.variables.to_string()[:800]}
                        except Exception as e:  # noqa: BLE001
                            okp, det = False, {"raised": f"{type(e).__name__}: {e}"}
                        tally.case(("scan-P", tag), True)
                        if not okp:
                            ctx.fail(key=f"bounded:partial-cache-run-wrong:non-prefix-subset:{tag}", kind="bounded",
                                     what=f"{ename} on a cache filled by a coarser scan (rows 1,3) differs from the uncached scan",
                                     witness={**w, "rows_cached_before": [1, 3]}, replayed=True, detail=det)

                        # K on scans: the process writing the result of row k1=1.5
                        # is really killed after `off` bytes; then a rerun
                        if ename.startswith("mc.") or (quick and tname != "float-index"):
                            continue
                        row = 2
                        fname = Cache().name_fn(list(table.iterrows())[row][0])  # the key scan.* hands to parallelise
                        shutil.rmtree(tmp)
                        call(_model(), table, parallel=False, cache=Cache(tmp_dir=tmp), worker=partial(worker, logdir=None))
                        L = (tmp / fname).stat().st_size
                        for cls, off in _offset_classes(L, rng, 0 if quick else 3):
                            shutil.rmtree(tmp, ignore_errors=True)
                            ended = _in_child(lambda off=off: call(
                                _model(), table, parallel=parallel, cache=Cache(tmp_dir=tmp),
                                worker=partial(worker, logdir=None, fsize_at=(k1[row], off))))
                            tally.real_kills += 1
                            state = _dir_state(tmp) if tmp.exists() else {}
                            if state.get(fname, L) < L:
                                tally.partial_under_final_name += 1
                            wk = {**w, "killed": f"SIGXFSZ after {off} of {L} bytes of the result file of row {row}",
                                  "child_ended": list(ended), "dir_after_kill": state}
                            tally.case(("scan-K", tag, off), True, {"clause": "K-mid-write on scan", **wk})
                            try:
                                again = call(_model(), table, parallel=parallel, cache=Cache(tmp_dir=tmp),
                                             worker=partial(worker, logdir=None))
                                okk = all(_frames_equal(getattr(plain, a), getattr(again, a)) for a in ("variables", "fluxes"))
                                det = {"uncached": plain.fluxes.to_string()[:800], "rerun": again.fluxes.to_string()[:800]}
                            except Exception as e:  # noqa: BLE001
                                okk, det = False, {"raised": f"{type(e).__name__}: {str(e)[:100]}"}
                            if not okk:
                                ctx.fail(key=f"bounded:rerun-after-kill-mid-write:{cls}:{ename}:{mode}", kind="bounded",
                                         what=f"{ename}: worker killed after {off}/{L} bytes of a result file; rerun fails or is wrong",
                                         witness=wk, replayed=True, detail=det)
    finally:
        scan.parallelise = real_par
        mp.tqdm = real_tqdm


###############################################################################


def run(ctx: Ctx) -> None:
    logging.disable(logging.WARNING)
    rng = random.Random(seed())
    tally = _Tally()
    try:
        _check_scans(ctx, tally, rng)  # first: its real kills feed the reachability gate of K'
        _check_parallelise(ctx, tally, rng)
    finally:
        logging.disable(logging.NOTSET)
    if tally.real_kills == 0 or tally.contract_evals == 0:
        from vlib.core import CheckerError

        raise CheckerError("C19 stand-in: no real kill executed or the _load_or_run contract was bypassed")
    ctx.extra["C19_real_kills"] = tally.real_kills
    ctx.extra["C19_load_or_run_contract_evaluations"] = tally.contract_evals
    ctx.trust(
        "pebble.ProcessPool.map yields results in input order and runs tasks in separate processes (assumed pool contract)",
        "RLIMIT_FSIZE with the default SIGXFSZ action kills the writing process after exactly n bytes of a file (kernel)",
        "SIGKILL cannot be handled; a killed process leaves the bytes it has written (no power-loss model: page cache survives)",
    )
    ctx.assume(
        "distinct keys have distinct str() (stated precondition of the cache naming)",
        "keys contain no path separators",
        "exact equality between cached and uncached scans: pickling floats is exact and the same arithmetic is replayed",
        "scan.* pool size pinned to 2 workers for this check (scan.* has no max_workers argument)",
    )
    ctx.add_bounded(
        name="C19-cache-crash",
        tool="fault injection (real SIGKILL / RLIMIT_FSIZE kills in forked children) + small-scope enumeration on the real parallelise/scan/mc",
        bound=f"{len(KEYSETS)} key sets (ints, dotted floats, dotted strings, tuples, mixed; 5 keys) x sequential/parallel(2 workers); "
              f"kill before each write, mid-write at offsets 0/1/half/all-but-one(+random inner), partial caches "
              f"({'all 32 subsets for ints/sequential, sampled non-prefix subsets elsewhere' if ctx.tier == 'quick' else 'sampled subsets'}), "
              f"simulated prefixes of final files ({'sampled' if ctx.tier == 'quick' else 'every byte offset for ints/sequential'}); "
              "6 scan/mc entry points x 4 index kinds",
        cases=tally.cases, distinct_nontrivial=len(tally.nontrivial),
        rule="case = (clause, entry, key set, mode, crash point / present subset); non-trivial if a cache file is involved "
             "(partial caches: 0 < present < all; simulated prefixes only when such states were observed to be reachable)",
        exhaustive=False, samples=tally.samples,
    )
