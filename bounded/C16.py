"""Bounded stand-in for C16 (labelled bounded, never counted as proved).

The contract of the property, checked at run time on the REAL
`LinearLabelMapper.build_model` and `LabelMapper.build_model` over an
enumerated small scope of mass-action base networks put at an exact metabolic
steady state (pools and fluxes are chosen, the rate constants follow):

  (a) at random isotopomer distributions consistent with the pool sizes, the
      rate of change the linear label model gives position p of compound c
      equals d/dt [ sum of c's isotopomers labelled at p / pool(c) ] in the
      isotopomer model built from the same label counts and maps (external
      pool fully labelled) - for every atom-transition map, i.e. every
      permutation of the padded position vector, incl. non-involutive ones,
      merges (A + B -> C), splits, influx / efflux of positions;
  (b) both agree with the closed form that follows from the documented reading
      of a map (docs/label-models.ipynb: product position i is fed by substrate
      position map[i]):  de_p/dt = sum_rxn v (e_src(p) - e_p) / pool;
  (c) for any external enrichment eps, the uniform state eps is stationary;
  (d) with external_label = 0 and no initial label the initial state is 0 and
      stationary (no label appears).

Keys: a disagreement that is *exactly* the linear mapper reading the map in
the inverse direction (map is a non-involutive permutation, the linear model
equals the closed form of the inverse map, the isotopomer model equals the
closed form of the map) carries the one key KNOWN_KEY; every other
disagreement (involutive maps, or a non-involutive map not explained by the
inverse reading) gets a key of its own.
"""
from __future__ import annotations

import copy
import inspect
import itertools
import logging
import random
from collections import Counter

from vlib.core import CheckerError, Ctx, seed

TOL = 1e-9  # relative to max(1, |rates|); rates are sums of <= ~40 products of O(1) doubles
KNOWN_KEY = "bounded:linear-mapper-reads-map-in-inverse-direction:non-involutive-map"


def _c0(k):
    return k


def _ma1(k, a):
    return k * a


def _ma2(k, a, b):
    return k * a * b


_MA = {0: _c0, 1: _ma1, 2: _ma2}

# ---------------------------------------------------------------------------
# templates: reactions with integer stoichiometry and a steady-state flux vector written
# as a combination of two free fluxes J (through-flux) and r (cycle flux)

TEMPLATES: dict[str, dict] = {
    "chain": {
        "compounds": ["A", "B"],
        "reactions": [("vin", {"A": 1}, (1, 0)), ("v1", {"A": -1, "B": 1}, (1, 0)), ("vout", {"B": -1}, (1, 0))],
        "focus": ["vin", "v1", "vout"],
    },
    "merge": {
        "compounds": ["A", "B", "C"],
        "reactions": [("vinA", {"A": 1}, (1, 0)), ("vinB", {"B": 1}, (1, 0)),
                      ("v1", {"A": -1, "B": -1, "C": 1}, (1, 0)), ("vout", {"C": -1}, (1, 0))],
        "focus": ["v1"],
    },
    "split": {
        "compounds": ["C", "A", "B"],
        "reactions": [("vin", {"C": 1}, (1, 0)), ("v1", {"C": -1, "A": 1, "B": 1}, (1, 0)),
                      ("voutA", {"A": -1}, (1, 0)), ("voutB", {"B": -1}, (1, 0))],
        "focus": ["v1"],
    },
    "cycle": {
        "compounds": ["A", "B"],
        "reactions": [("vin", {"A": 1}, (1, 0)), ("vf", {"A": -1, "B": 1}, (1, 1)),
                      ("vb", {"B": -1, "A": 1}, (0, 1)), ("vout", {"B": -1}, (1, 0))],
        "focus": ["vf", "vb"],
    },
    "bibi": {
        "compounds": ["A", "B", "C", "D"],
        "reactions": [("vinA", {"A": 1}, (1, 0)), ("vinB", {"B": 1}, (1, 0)),
                      ("v1", {"A": -1, "B": -1, "C": 1, "D": 1}, (1, 0)),
                      ("voutC", {"C": -1}, (1, 0)), ("voutD", {"D": -1}, (1, 0))],
        "focus": ["v1"],
    },
    "closed-cycle": {  # no exchange with the outside at all
        "compounds": ["A", "B", "C"],
        "reactions": [("vab", {"A": -1, "B": 1}, (0, 1)), ("vbc", {"B": -1, "C": 1}, (0, 1)), ("vca", {"C": -1, "A": 1}, (0, 1))],
        "focus": ["vab"], "equal_counts": True,
    },
    "product-twice": {
        "compounds": ["A", "B"],
        "reactions": [("vin", {"A": 1}, (1, 0)), ("v1", {"A": -1, "B": 2}, (1, 0)), ("vout", {"B": -1}, (2, 0))],
        "focus": ["v1"],
    },
    # 2A -> B: the isotopomer side is known to be wrong for a substrate occurring twice (C05
    # known finding), so here the linear model is compared with the closed form only
    "substrate-twice": {
        "compounds": ["A", "B"],
        "reactions": [("vin", {"A": 1}, (2, 0)), ("v1", {"A": -2, "B": 1}, (1, 0)), ("vout", {"B": -1}, (1, 0))],
        "focus": ["v1"], "closed_form_only": True,
    },
    # an unlabelled, unmapped side network X <-> Y next to the labelled chain
    "bystander": {
        "compounds": ["A", "B", "X", "Y"], "unlabelled": ["X", "Y"],
        "reactions": [("vin", {"A": 1}, (1, 0)), ("v1", {"A": -1, "B": 1}, (1, 0)), ("vout", {"B": -1}, (1, 0)),
                      ("vxy", {"X": -1, "Y": 1}, (0, 1)), ("vyx", {"Y": -1, "X": 1}, (0, 1))],
        "unmapped": ["vxy", "vyx"], "focus": ["v1"],
    },
}


def _occ(stoich: dict[str, int]) -> tuple[list[str], list[str]]:
    subs = [c for c, v in stoich.items() if v < 0 for _ in range(-v)]
    prods = [c for c, v in stoich.items() if v > 0 for _ in range(v)]
    return subs, prods


def _sp(stoich, nlab) -> tuple[int, int]:
    subs, prods = _occ(stoich)
    return sum(nlab.get(c, 0) for c in subs), sum(nlab.get(c, 0) for c in prods)


def _mapped(t) -> list[str]:
    return [n for n, _, _ in t["reactions"] if n not in t.get("unmapped", [])]


def build_base(tname: str, rng: random.Random):
    """Mass-action base model at an exact steady state: (model, pools, fluxes)."""
    from mxlpy import Model

    t = TEMPLATES[tname]
    pools = {c: round(rng.uniform(0.5, 3.0), 3) for c in t["compounds"]}
    J, r = round(rng.uniform(0.5, 2.0), 3), round(rng.uniform(0.5, 2.0), 3)
    m = Model()
    m.add_variables(pools)
    flux = {}
    for name, stoich, (aj, ar) in t["reactions"]:
        v = aj * J + ar * r
        flux[name] = v
        subs, _ = _occ(stoich)
        denom = 1.0
        for s in subs:
            denom *= pools[s]
        m.add_parameter(f"k_{name}", v / denom)
        m.add_reaction(name, _MA[len(subs)], args=[f"k_{name}", *subs], stoichiometry=stoich)
    return m, pools, flux


def map_class(lmap: list[int]) -> str:
    n = len(lmap)
    if sorted(lmap) != list(range(n)):
        return "non-permutation"
    if lmap == list(range(n)):
        return "identity"
    return "involutive-permutation" if all(lmap[lmap[i]] == i for i in range(n)) else "non-involutive-permutation"


def inverse(lmap: list[int]) -> list[int]:
    inv = [0] * len(lmap)
    for i, m in enumerate(lmap):
        inv[m] = i
    return inv


def closed_form(t, nlab, lmaps, pools, flux, e, ext: float) -> dict[str, float]:
    """de_{c,p}/dt from the documented reading: product position i is fed by substrate
    position map[i] (the external pool when map[i] lies beyond the substrates); every
    substrate position is drained with the flux."""
    d = dict.fromkeys(e, 0.0)
    for name, stoich, _ in t["reactions"]:
        if name not in lmaps:
            continue
        subs, prods = _occ(stoich)
        src = [f"{c}__{p}" for c in subs for p in range(nlab[c])]
        dst = [f"{c}__{p}" for c in prods for p in range(nlab[c])]
        v = flux[name]
        for s in src:
            d[s] -= v * e[s] / pools[s.split("__")[0]]
        for i, tgt in enumerate(dst):
            m = lmaps[name][i]
            d[tgt] += v * (e[src[m]] if m < len(src) else ext) / pools[tgt.split("__")[0]]
    return d


def _iso_names(c: str, n: int) -> list[str]:
    return [f"{c}__{''.join(b)}" for b in itertools.product("01", repeat=n)]


def _close(a: dict, b: dict) -> bool:
    scale = max([1.0] + [abs(v) for v in a.values()] + [abs(v) for v in b.values()])
    return all(abs(a[k] - b[k]) <= TOL * scale for k in a)


def _maxdiff(a: dict, b: dict):
    k = max(a, key=lambda k: abs(a[k] - b[k]))
    return k, a[k], b[k]


# ---------------------------------------------------------------------------
# helper contracts: observers around the real helpers (record, never raise, so that the
# model-level comparison still runs); evaluations are counted


class _Observers:
    def __init__(self) -> None:
        self.evals: Counter = Counter()
        self.violations: list[tuple[str, str, dict]] = []
        self.saved: dict = {}

    def attach(self) -> None:
        import mxlpy.linear_label_map as ll

        def gen_post(a, res, exc):
            n = a["num_labels"]
            if n <= 0:
                return None if isinstance(exc, ValueError) else "no ValueError for num_labels <= 0"
            if exc is not None:
                return f"raised {type(exc).__name__} for num_labels > 0"
            return None if res == [f"{a['base_name']}__{i}" for i in range(n)] else "result != [base__0 .. base__(n-1)]"

        def unpack_post(a, res, exc):
            if exc is not None:
                return f"raised {type(exc).__name__} for numeric coefficients"
            subs, prods = res
            for k, v in a["stoichiometries"].items():
                if v < 0 and not (subs.get(k) == -v and k not in prods):
                    return "substrates[k] != -v for v < 0"
                if v > 0 and not (prods.get(k) == v and k not in subs):
                    return "products[k] != v for v > 0"
                if v == 0 and (subs.get(k, 0) != 0 or prods.get(k, 0) != 0):
                    return "zero coefficient gives occurrences"
            return None if set(subs) | set(prods) <= set(a["stoichiometries"]) else "unknown compound in result"

        def dup_post(a, res, exc):
            if exc is not None:
                return f"raised {type(exc).__name__}"
            return None if res == [k for k, v in a["stoichiometry"].items() for _ in range(v)] else "result != species repeated by coefficient, in dict order"

        def map_post(a, res, exc):
            subs, lmap = a["substrates"], a["labelmap"]
            if len(subs) != len(lmap):
                return None if isinstance(exc, ValueError) else "no ValueError although lengths differ"
            if exc is not None:
                return f"raised {type(exc).__name__} for equal lengths"
            if sorted(lmap) != list(range(len(lmap))):
                return None  # not an atom-transition map: no clause
            return None if res == [subs[lmap[i]] for i in range(len(lmap))] else "DIRECTION: res[i] != substrates[labelmap[i]]"

        def pad_post(a, res, exc):
            s0, p0, lmap = a["substrates"], a["products"], a["labelmap"]
            n = max(len(s0), len(p0))
            if len(lmap) < n:
                return None if isinstance(exc, ValueError) else "no ValueError although len(labelmap) < padded length"
            if exc is not None:
                return f"raised {type(exc).__name__} although the map is long enough"
            s1, p1 = res
            ok = (len(s1) == len(p1) == n and s1[:len(s0)] == s0 and p1[:len(p0)] == p0
                  and all(x == "EXT" for x in s1[len(s0):]) and all(x == "EXT" for x in p1[len(p0):]))
            return None if ok else "shorter side not padded with 'EXT' to equal length"

        specs = {
            "_generate_isotope_labels": gen_post,
            "_unpack_stoichiometries": unpack_post,
            "_stoichiometry_to_duplicate_list": dup_post,
            "_map_substrates_to_labelmap": map_post,
            "_add_label_influx_or_efflux": pad_post,
            "_relative_label_flux": lambda a, res, exc: None if exc is None and res == a["label_percentage"] * a["v_ss"] else "!= label * v_ss",
            "_one_div": lambda a, res, exc: None if exc is None and res == 1 / a["y"] else "!= 1/y",
            "_neg_one_div": lambda a, res, exc: None if exc is None and res == -1 / a["y"] else "!= -1/y",
        }
        for name, post in specs.items():
            fn = getattr(ll, name)
            self.saved[name] = fn
            setattr(ll, name, self._wrap(name, fn, post))

    def _wrap(self, name, fn, post):
        sig = inspect.signature(fn)
        evals, violations = self.evals, self.violations

        def w(*a, **kw):
            before = copy.deepcopy(dict(sig.bind(*a, **kw).arguments))
            res, exc = None, None
            try:
                res = fn(*a, **kw)
            except Exception as e:  # noqa: BLE001
                exc = e
            evals[name] += 1
            msg = post(before, res, exc)
            if msg:
                violations.append((name, msg, before))
            if exc is not None:
                raise exc
            return res

        w.__name__ = fn.__name__
        w.__wrapped__ = fn
        return w

    def detach(self) -> None:
        import mxlpy.linear_label_map as ll

        for name, fn in self.saved.items():
            setattr(ll, name, fn)
        self.saved.clear()

    def drain(self) -> list[dict]:
        """Failure records for the violations observed since the last drain."""
        out = []
        for name, msg, args in self.violations:
            if name == "_map_substrates_to_labelmap" and msg.startswith("DIRECTION"):
                cls = map_class(args["labelmap"])
                key = KNOWN_KEY if cls == "non-involutive-permutation" else f"bounded:helper-contract:{name}:{cls}"
            else:
                key = f"bounded:helper-contract:{name}:{msg}"
            out.append({"key": key, "what": f"{name}: {msg} on {args}", "detail": {"helper": name, "arguments": {k: repr(v) for k, v in args.items()}}})
        self.violations.clear()
        return out


# ---------------------------------------------------------------------------
# one case on the real code


def default_maps(tname: str, nlab: dict[str, int]) -> dict[str, list[int]]:
    t = TEMPLATES[tname]
    return {name: list(range(max(_sp(st, nlab)))) for name, st, _ in t["reactions"] if name in _mapped(t)}


def _ordered(nlab: dict[str, int], order: str) -> dict[str, int]:
    items = list(nlab.items())
    return dict(items if order == "declared" else reversed(items))


def check_case(tname: str, nlab: dict[str, int], lmaps: dict[str, list[int]], focus: str, order: str,
               state_seed: int, n_states: int) -> list[dict]:
    """Clauses (a) and (b).  Returns failure records; [] when the contract holds."""
    import pandas as pd

    from mxlpy import LabelMapper, LinearLabelMapper

    t = TEMPLATES[tname]
    rng = random.Random(state_seed)
    base, pools, flux = build_base(tname, rng)
    if max(abs(float(v)) for v in base.get_right_hand_side(dict(pools))) > 1e-12:
        raise CheckerError(f"template {tname} is not at steady state")
    lv = _ordered(nlab, order)
    classes = {n: map_class(m) for n, m in lmaps.items()}
    cls = classes[focus] if all(c == "identity" for n, c in classes.items() if n != focus) else (
        "all-maps-involutive" if all(c in ("identity", "involutive-permutation") for c in classes.values()) else "some-map-non-involutive")
    non_involutive = any(c == "non-involutive-permutation" for c in classes.values())
    concs = pd.Series(pools)
    fluxes = base.get_fluxes(dict(pools))
    if any(abs(float(fluxes[n]) - flux[n]) > 1e-12 * max(1, flux[n]) for n in flux):
        raise CheckerError("base fluxes differ from the constructed steady-state fluxes")
    where = f"{tname}:{focus}:{cls}"
    try:
        lin = LinearLabelMapper(base, label_variables=dict(lv), label_maps={k: list(v) for k, v in lmaps.items()}).build_model(concs=concs, fluxes=fluxes)
    except Exception as e:  # noqa: BLE001
        return [{"key": f"bounded:linear-build-model-raises:{where}:{type(e).__name__}",
                 "what": f"LinearLabelMapper.build_model raised {type(e).__name__}: {e}", "detail": {}}]
    iso = None
    if not t.get("closed_form_only"):
        try:
            iso = LabelMapper(base, label_variables=dict(lv), label_maps={k: list(v) for k, v in lmaps.items()}).build_model()
        except Exception as e:  # noqa: BLE001
            return [{"key": f"bounded:isotopomer-build-model-raises:{where}:{type(e).__name__}",
                     "what": f"LabelMapper.build_model raised {type(e).__name__}: {e}", "detail": {}}]
    positions = [f"{c}__{p}" for c in nlab for p in range(nlab[c])]
    if set(lin.get_variable_names()) != set(positions):
        return [{"key": f"bounded:linear-model-variables:{tname}", "what": "linear label model variables are not one per label position",
                 "detail": {"got": sorted(lin.get_variable_names()), "want": sorted(positions)}}]
    inv_maps = {n: (inverse(m) if classes[n] != "non-permutation" else m) for n, m in lmaps.items()}
    fails: list[dict] = []
    for _ in range(n_states):
        x, e = {}, {}
        for c, n in nlab.items():
            names = _iso_names(c, n)
            w = [rng.uniform(0.05, 1.0) for _ in names]
            for nm, wi in zip(names, w):
                x[nm] = pools[c] * wi / sum(w)
            for p in range(n):
                e[f"{c}__{p}"] = sum(x[nm] for nm in names if nm.split("__")[1][p] == "1") / pools[c]
        for c in t.get("unlabelled", []):
            x[c] = pools[c]
        try:
            r_lin = lin.get_right_hand_side(dict(e))
            L = {k: float(r_lin[k]) for k in positions}
        except Exception as ex:  # noqa: BLE001
            return [{"key": f"bounded:linear-rhs-raises:{where}:{type(ex).__name__}", "what": f"linear label model rhs raised {type(ex).__name__}: {ex}", "detail": {}}]
        R = closed_form(t, nlab, lmaps, pools, flux, e, 1.0)
        if iso is not None:
            r_iso = iso.get_right_hand_side(dict(x))
            enr = {}
            for c, n in nlab.items():
                names = _iso_names(c, n)
                if abs(sum(float(r_iso[nm]) for nm in names)) > 1e-9 * max(1.0, max(abs(float(r_iso[nm])) for nm in names)):
                    fails.append({"key": f"bounded:isotopomer-pool-not-steady:{where}",
                                  "what": f"pool of {c} changes in the isotopomer model although the base model is at steady state", "detail": {"state": x}})
                for p in range(n):
                    enr[f"{c}__{p}"] = sum(float(r_iso[nm]) for nm in names if nm.split("__")[1][p] == "1") / pools[c]
            if fails:
                return fails
            iso_ok = _close(enr, R)
            if not _close(L, enr):
                k, lv_, iv_ = _maxdiff(L, enr)
                explained = non_involutive and iso_ok and _close(L, closed_form(t, nlab, inv_maps, pools, flux, e, 1.0))
                if explained:
                    key = KNOWN_KEY
                elif non_involutive:
                    key = f"bounded:linear-rate-differs-from-isotopomer-enrichment-rate:{where}:not-explained-by-inverse-reading"
                else:
                    key = f"bounded:linear-rate-differs-from-isotopomer-enrichment-rate:{where}"
                fails.append({"key": key,
                              "what": f"d/dt {k}: linear model {lv_:.6g}, isotopomer model enrichment {iv_:.6g} ({tname}, maps {lmaps}, label_variables order {list(lv)})"
                                      + ("; linear model equals the closed form of the INVERSE maps" if explained else ""),
                              "detail": {"isotopomer_state": x, "enrichment": e, "linear": L, "isotopomer": enr, "closed_form": R}})
                return fails
            if not iso_ok:
                k, a_, b_ = _maxdiff(enr, R)
                return [{"key": f"bounded:isotopomer-enrichment-rate-differs-from-closed-form:{where}",
                         "what": f"d/dt {k}: isotopomer model {a_:.6g}, closed form of the documented reading {b_:.6g} ({tname}, maps {lmaps})",
                         "detail": {"isotopomer_state": x, "isotopomer": enr, "closed_form": R}}]
        elif not _close(L, R):
            k, a_, b_ = _maxdiff(L, R)
            explained = non_involutive and _close(L, closed_form(t, nlab, inv_maps, pools, flux, e, 1.0))
            key = KNOWN_KEY if explained else f"bounded:linear-rate-differs-from-closed-form:{where}" + (":not-explained-by-inverse-reading" if non_involutive else "")
            return [{"key": key, "what": f"d/dt {k}: linear model {a_:.6g}, closed form of the documented reading {b_:.6g} ({tname}, maps {lmaps})",
                     "detail": {"enrichment": e, "linear": L, "closed_form": R}}]
    return fails


_EPS = [("0", 0.0), ("1", 1.0), ("fraction", 0.5), ("fraction", None)]


def check_stationary(tname: str, nlab: dict[str, int], lmaps: dict[str, list[int]], order: str, state_seed: int) -> list[dict]:
    """Clauses (c) and (d)."""
    import pandas as pd

    from mxlpy import LinearLabelMapper

    t = TEMPLATES[tname]
    rng = random.Random(state_seed)
    base, pools, flux = build_base(tname, rng)
    lv = _ordered(nlab, order)
    concs, fluxes = pd.Series(pools), base.get_fluxes(dict(pools))
    positions = [f"{c}__{p}" for c in nlab for p in range(nlab[c])]
    scale = max(1.0, max(flux.values()) / min(pools.values()))
    fails = []
    mapper = LinearLabelMapper(base, label_variables=dict(lv), label_maps={k: list(v) for k, v in lmaps.items()})
    for label, eps in _EPS:
        eps = round(rng.uniform(0.05, 0.95), 3) if eps is None else eps
        try:
            lin = mapper.build_model(concs=concs, fluxes=fluxes, external_label=eps)
            rhs = lin.get_right_hand_side(dict.fromkeys(positions, eps))
        except Exception as e:  # noqa: BLE001
            fails.append({"key": f"bounded:linear-build-model-raises:{tname}:external={label}:{type(e).__name__}",
                          "what": f"build_model(external_label={eps}) / rhs raised {type(e).__name__}: {e}", "detail": {}})
            continue
        worst = max(positions, key=lambda k: abs(float(rhs[k])))
        if abs(float(rhs[worst])) > 1e-12 * 40 * scale:
            fails.append({"key": f"bounded:uniform-enrichment-not-stationary:{tname}:external={label}",
                          "what": f"external_label={eps}, all positions at {eps}: d/dt {worst} = {float(rhs[worst]):.6g}",
                          "detail": {"external_label": eps}})
        if eps == 0.0:
            init = lin.get_initial_conditions()
            if any(v != 0 for v in init.values()):
                fails.append({"key": f"bounded:label-without-source:{tname}:initial-state",
                              "what": f"no initial label requested but initial enrichments are {init}", "detail": {}})
            r0 = lin.get_right_hand_side()
            if any(float(v) != 0.0 for v in r0):
                fails.append({"key": f"bounded:label-without-source:{tname}:rate",
                              "what": f"no external and no initial label, yet d/dt at the initial state is { {k: float(v) for k, v in r0.items()} }", "detail": {}})
    # default external pool (argument omitted) is fully labelled
    lin = mapper.build_model(concs=concs, fluxes=fluxes)
    rhs = lin.get_right_hand_side(dict.fromkeys(positions, 1.0))
    if max(abs(float(v)) for v in rhs) > 1e-12 * 40 * scale:
        fails.append({"key": f"bounded:uniform-enrichment-not-stationary:{tname}:external=default",
                      "what": "default external pool: the fully labelled state is not stationary", "detail": {}})
    return fails


def check_no_label_simulated(tname: str, nlab: dict[str, int], state_seed: int) -> list[dict]:
    """Clause (d) through the integrator: simulate the unlabelled linear model."""
    import pandas as pd

    from mxlpy import LinearLabelMapper, Simulator

    base, pools, _ = build_base(tname, random.Random(state_seed))
    lin = LinearLabelMapper(base, label_variables=dict(nlab), label_maps=default_maps(tname, nlab)).build_model(
        concs=pd.Series(pools), fluxes=base.get_fluxes(dict(pools)), external_label=0.0)
    res = Simulator(lin).simulate(5.0).get_result().unwrap_or_err()
    worst = float(res.variables.abs().to_numpy().max())
    if worst > 1e-9:
        return [{"key": f"bounded:label-without-source:{tname}:simulated",
                 "what": f"no external and no initial label, but enrichment {worst:.3g} appears within t = 5", "detail": {}}]
    return []


# ---------------------------------------------------------------------------


def _label_counts(tname: str, max_positions: int):
    t = TEMPLATES[tname]
    labelled = [c for c in t["compounds"] if c not in t.get("unlabelled", [])]
    stoichs = {n: s for n, s, _ in t["reactions"]}
    for counts in itertools.product(range(1, 4), repeat=len(labelled)):
        if t.get("equal_counts") and len(set(counts)) != 1:
            continue
        nlab = dict(zip(labelled, counts))
        if all(max(_sp(stoichs[f], nlab)) <= max_positions for f in t["focus"]):
            yield nlab


def _direct_helper_calls() -> int:
    import mxlpy.linear_label_map as ll

    n = 0
    names = ["A__0", "A__1", "B__0", "EXT"]
    for k in range(1, 5):
        for perm in itertools.permutations(range(k)):
            ll._map_substrates_to_labelmap(names[:k], list(perm))
            n += 1
    for ls, lp, lm in itertools.product(range(4), range(4), range(5)):
        try:
            ll._add_label_influx_or_efflux([f"S__{i}" for i in range(ls)], [f"P__{i}" for i in range(lp)], list(range(lm)))
        except ValueError:
            pass
        n += 1
    for a, b in [(3, 2), (2, 3)]:
        try:
            ll._map_substrates_to_labelmap(names[:a], list(range(b)))
        except ValueError:
            pass
        n += 1
    for coefs in itertools.product(range(-2, 3), repeat=3):
        ll._unpack_stoichiometries({c: v for c, v in zip("ABC", coefs)})
        ll._unpack_stoichiometries({c: float(v) for c, v in zip("ABC", coefs)})
        ll._stoichiometry_to_duplicate_list({c: abs(v) for c, v in zip("ABC", coefs)})
        n += 3
    for nn in range(-1, 5):
        try:
            ll._generate_isotope_labels("cpd", nn)
        except ValueError:
            pass
        n += 1
    return n


def run(ctx: Ctx) -> None:
    logging.disable(logging.WARNING)
    quick = ctx.tier == "quick"
    rng = random.Random(seed())
    max_positions = 4 if quick else 5
    n_states = 2 if quick else 3
    n_random = 150 if quick else 1500

    obs = _Observers()
    obs.attach()
    try:
        seen: set[str] = set()

        def report(recs, witness):
            for r in recs + obs.drain():
                first = r["key"] not in seen
                seen.add(r["key"])
                ctx.fail(key=r["key"], kind="bounded", what=r["what"], witness=witness, replayed=True,
                         detail=r.get("detail", {}) if first else {})

        # ---- (a) (b): one focus reaction gets every permutation, the others the identity ----
        cases = 0
        nontrivial: set = set()
        samples: list = []
        for tname, t in TEMPLATES.items():
            stoichs = {n: s for n, s, _ in t["reactions"]}
            for nlab in _label_counts(tname, max_positions):
                for focus in t["focus"]:
                    L = max(_sp(stoichs[focus], nlab))
                    for perm in itertools.permutations(range(L)):
                        for order in ("declared", "reversed"):
                            lmaps = default_maps(tname, nlab)
                            lmaps[focus] = list(perm)
                            st_seed = rng.randrange(10**9)
                            recs = check_case(tname, nlab, lmaps, focus, order, st_seed, n_states)
                            w = {"template": tname, "label_counts": nlab, "label_maps": lmaps, "focus": focus,
                                 "label_variables_order": order, "state_seed": st_seed, "n_states": n_states,
                                 "replay": "bounded.C16.check_case(template, label_counts, label_maps, focus, label_variables_order, state_seed, n_states)"}
                            report(recs, w)
                            cases += 1
                            if list(perm) != list(range(L)):
                                nontrivial.add((tname, tuple(nlab.items()), focus, perm, order))
                            if len(samples) < 3 and L >= 3 and map_class(list(perm)) == "involutive-permutation":
                                samples.append({"template": tname, "label_counts": nlab, "label_maps": lmaps, "order": order, "holds": not recs})
        ctx.add_bounded(
            name="C16-rate-identity", tool="small-scope enumeration; real LinearLabelMapper vs real LabelMapper vs closed form of the documented reading",
            bound=f"{len(TEMPLATES)} steady-state mass-action templates x label counts 1..3 per compound (focus reaction <= {max_positions} positions) x "
                  f"EVERY permutation map of the focus reaction (others identity) x label_variables listed in declared / reversed order x {n_states} random isotopomer states",
            cases=cases, distinct_nontrivial=len(nontrivial),
            rule="case = (template, label counts, focus reaction, permutation, order); non-trivial if the permutation is not the identity",
            exhaustive=True, samples=samples)

        # ---- (a) (b): random permutations on every mapped reaction at once ----------------------
        rc = 0
        rnt: set = set()
        pool = [(tn, nl) for tn in TEMPLATES for nl in _label_counts(tn, max_positions)]
        for _ in range(n_random):
            tname, nlab = rng.choice(pool)
            t = TEMPLATES[tname]
            lmaps = default_maps(tname, nlab)
            involutive_only = rng.random() < 0.5
            for name in lmaps:
                n = len(lmaps[name])
                if involutive_only:
                    perm = list(range(n))
                    idx = list(range(n))
                    rng.shuffle(idx)
                    for a, b in zip(idx[0::2], idx[1::2]):
                        if rng.random() < 0.6:
                            perm[a], perm[b] = b, a
                else:
                    perm = list(range(n))
                    rng.shuffle(perm)
                lmaps[name] = perm
            order = rng.choice(["declared", "reversed"])
            st_seed = rng.randrange(10**9)
            recs = check_case(tname, nlab, lmaps, t["focus"][0], order, st_seed, n_states)
            report(recs, {"template": tname, "label_counts": nlab, "label_maps": lmaps, "focus": t["focus"][0],
                          "label_variables_order": order, "state_seed": st_seed, "n_states": n_states})
            rc += 1
            rnt.add((tname, tuple(nlab.items()), repr(lmaps), order))
        ctx.add_bounded(
            name="C16-rate-identity-all-maps-random", tool="as above",
            bound=f"{n_random} draws: template, label counts, a random permutation for EVERY mapped reaction (half of the draws: products of disjoint transpositions only)",
            cases=rc, distinct_nontrivial=len(rnt), rule="distinct by (template, label counts, maps, order)", exhaustive=False)

        # ---- (c) (d) -----------------------------------------------------------------------------
        sc = 0
        for tname, t in TEMPLATES.items():
            stoichs = {n: s for n, s, _ in t["reactions"]}
            for nlab in _label_counts(tname, 3 if quick else 4):
                for focus in t["focus"]:
                    L = max(_sp(stoichs[focus], nlab))
                    for perm in itertools.permutations(range(L)):
                        lmaps = default_maps(tname, nlab)
                        lmaps[focus] = list(perm)
                        order = "declared" if sc % 2 == 0 else "reversed"
                        st_seed = rng.randrange(10**9)
                        try:
                            recs = check_stationary(tname, nlab, lmaps, order, st_seed)
                        except Exception as e:  # noqa: BLE001
                            recs = [{"key": f"bounded:linear-build-model-raises:{tname}:{type(e).__name__}",
                                     "what": f"build_model / rhs raised {type(e).__name__}: {e}", "detail": {}}]
                        report(recs, {"template": tname, "label_counts": nlab, "label_maps": lmaps, "label_variables_order": order, "state_seed": st_seed,
                                      "replay": "bounded.C16.check_stationary(template, label_counts, label_maps, label_variables_order, state_seed)"})
                        sc += 1
        sim = 0
        if not quick:
            for tname in ("chain", "merge", "closed-cycle", "cycle"):
                nlab = next(iter(_label_counts(tname, 4)))
                report(check_no_label_simulated(tname, nlab, rng.randrange(10**9)), {"template": tname, "label_counts": nlab, "simulate": 5.0})
                sim += 1
        ctx.add_bounded(
            name="C16-stationary-and-no-label", tool="small-scope enumeration on the real LinearLabelMapper.build_model(external_label=eps)",
            bound=f"every template x label counts 1..3 (focus <= {3 if quick else 4} positions) x every permutation of the focus reaction x external_label in "
                  "{0, 1, 0.5, random} passed to build_model, plus the default; eps = 0: initial state and its rate are exactly 0"
                  + ("; 4 templates simulated to t = 5" if sim else ""),
            cases=sc + sim, distinct_nontrivial=sc + sim, rule="case = (template, label counts, focus permutation); each evaluates 5 external pools", exhaustive=True)

        # ---- helper observers ------------------------------------------------------------------------
        nd = _direct_helper_calls()
        report([], {"direct helper calls": "all permutations of length <= 4 for _map_substrates_to_labelmap; paddings 0..3 x 0..3 x map length 0..4"})
        never = [h for h in obs.saved if obs.evals[h] == 0 and h not in ("_one_div", "_neg_one_div", "_relative_label_flux")]
        if never:
            raise CheckerError(f"helper observers never evaluated (wrapper bypassed?): {never}")
        ctx.add_bounded(
            name="C16-helper-contracts", tool="recording pre/post-condition observers monkey-patched around the real linear_label_map helpers",
            bound="every call made by the build_model cases above plus direct calls (all permutations of length <= 4, all paddings 0..3 x 0..3, coefficients -2..2)",
            cases=sum(obs.evals.values()), distinct_nontrivial=nd, rule="cases = contract evaluations; distinct = enumerated direct calls",
            exhaustive=False, samples=[{"evaluations": dict(obs.evals)}])
        ctx.extra["helper_contract_evaluations"] = dict(obs.evals)
    finally:
        obs.detach()
        logging.disable(logging.NOTSET)

    ctx.assume(
        f"rates compared with relative tolerance {TOL} (stationarity: 4e-11 x flux/pool scale); inputs are O(1) doubles, rounding is ~1e-15",
        "documented reading of a map (docs/label-models.ipynb, 'DHAP(1) is built from GAP(3) ... [2, 1, 0]'): product position i is fed by substrate position map[i]; "
        "positions are numbered along the stoichiometry in insertion order, the shorter side padded with the external pool",
        "atom-transition map = permutation of the padded position vector (each atom has one source and one destination); duplicating maps are outside the quantifier",
        "every compound of a mapped reaction carries >= 1 label position (LinearLabelMapper has no notion of unlabelled co-substrates)",
        "substrate-twice template: linear model compared with the closed form only, the isotopomer side being the C05 known finding",
        "positional enrichment rate = sum of the derivatives of the isotopomers labelled at that position / pool, valid because the pool derivative is checked to be 0",
    )
    ctx.trust("Model.get_right_hand_side evaluates stored rate functions and Derived stoichiometric coefficients on the given state (property C01)")
