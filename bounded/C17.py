"""Bounded stand-in for C17 (labelled bounded, never counted as proved).

Contract (from the property statement), checked at run time on the REAL
``mxlpy.sbml.read`` over generated SBML Level 3 documents:

  for every generated document D (species, parameters, compartments with sizes != 1,
  function definitions, assignment rules, initial assignments incl. chains through
  parameters / compartments, kinetic laws with piecewise / power / transcendental math,
  constant / fractional / rule- or initial-assignment-defined stoichiometries, awkward
  but legal identifiers) and every state of a grid:

  (R)  ``read`` returns a usable model (it does not raise where the third-party parser
       accepts the file, and the returned model evaluates);
  (T)  the model denotes the *transformed document*: every variable, parameter, derived
       quantity and reaction of ``pysbml.load_and_transform_model(D)`` is present under its
       key; initial values (initial assignments applied to exactly the component they
       name), every value of ``get_args`` and every derivative of
       ``get_right_hand_side`` equal the values obtained by evaluating the sympy
       expressions of the transformed model directly (sympy ``xreplace`` + ``N``; no
       generated code) - this is MxlPy's own part of the import (``_codegen``,
       ``generate_mxlpy_code_from_symbolic_repr``, ``sympy_to_python_fn``,
       ``valid_filename`` / ``import_from_path``);
  (D)  end to end the model reproduces the *document*: initial values, values of every
       identifier and d/dt of every dynamic species equal an independent evaluator of the
       document spec the file was generated from (SBML L3 semantics re-implemented here
       on expression trees; shares nothing with pysbml or MxlPy).  Identifiers that are
       not usable names may be renamed (``x``, ``x_`` or ``_x`` accepted) as long as every
       reference resolves;
  (S)  documents read in one session do not interfere: after reading all documents of a
       case (same stem in different directories, stems differing only in case /
       punctuation, the same path rewritten - also with generated code of identical
       size within the same second, with byte-code writing enabled as in a default
       interpreter) every returned model still satisfies (T) and (D) for its own document.

Blame: the MathML parser and the species / compartment transformation live in the
third-party ``pysbml``.  A case where (D) fails while (T) holds is, by construction, a
place where ``pysbml``'s transformed model does not denote the document; it is recorded
as a violated *assumption* (evidence: ``extra.pysbml_unfaithful``), not as an MxlPy
failure.  (R)/(T)/(S) failures are MxlPy failures.

HOME is redirected to a private temporary directory inside the worker processes
(``read`` writes generated modules to ``~/.cache/mxlpy``), file stems are unique per case.
"""
from __future__ import annotations

import copy
import json
import logging
import math
import os
import random
import shutil
import sys
import tempfile
import time as _time
import warnings
from concurrent.futures import ProcessPoolExecutor
from pathlib import Path

import libsbml

from vlib.core import CheckerError, Ctx, seed

RTOL, ATOL = 1e-9, 1e-12

# ---------------------------------------------------------------------------
# expression trees: float | int | str (identifier) | [op, *children]

_L = libsbml
AST_TYPES = {
    "plus": _L.AST_PLUS, "times": _L.AST_TIMES, "minus": _L.AST_MINUS, "divide": _L.AST_DIVIDE,
    "power": _L.AST_POWER, "fpower": _L.AST_FUNCTION_POWER, "root": _L.AST_FUNCTION_ROOT,
    "exp": _L.AST_FUNCTION_EXP, "ln": _L.AST_FUNCTION_LN, "log": _L.AST_FUNCTION_LOG,
    "abs": _L.AST_FUNCTION_ABS, "floor": _L.AST_FUNCTION_FLOOR, "ceiling": _L.AST_FUNCTION_CEILING,
    "factorial": _L.AST_FUNCTION_FACTORIAL,
    "sin": _L.AST_FUNCTION_SIN, "cos": _L.AST_FUNCTION_COS, "tan": _L.AST_FUNCTION_TAN,
    "sec": _L.AST_FUNCTION_SEC, "csc": _L.AST_FUNCTION_CSC, "cot": _L.AST_FUNCTION_COT,
    "sinh": _L.AST_FUNCTION_SINH, "cosh": _L.AST_FUNCTION_COSH, "tanh": _L.AST_FUNCTION_TANH,
    "arcsin": _L.AST_FUNCTION_ARCSIN, "arccos": _L.AST_FUNCTION_ARCCOS, "arctan": _L.AST_FUNCTION_ARCTAN,
    "arcsinh": _L.AST_FUNCTION_ARCSINH, "arccosh": _L.AST_FUNCTION_ARCCOSH, "arctanh": _L.AST_FUNCTION_ARCTANH,
    "sech": _L.AST_FUNCTION_SECH, "csch": _L.AST_FUNCTION_CSCH, "coth": _L.AST_FUNCTION_COTH,
    "arcsec": _L.AST_FUNCTION_ARCSEC, "arccsc": _L.AST_FUNCTION_ARCCSC, "arccot": _L.AST_FUNCTION_ARCCOT,
    "arcsech": _L.AST_FUNCTION_ARCSECH, "arccsch": _L.AST_FUNCTION_ARCCSCH, "arccoth": _L.AST_FUNCTION_ARCCOTH,
    "piecewise": _L.AST_FUNCTION_PIECEWISE,
    "lt": _L.AST_RELATIONAL_LT, "gt": _L.AST_RELATIONAL_GT, "leq": _L.AST_RELATIONAL_LEQ,
    "geq": _L.AST_RELATIONAL_GEQ, "eq": _L.AST_RELATIONAL_EQ, "neq": _L.AST_RELATIONAL_NEQ,
    "and": _L.AST_LOGICAL_AND, "or": _L.AST_LOGICAL_OR, "not": _L.AST_LOGICAL_NOT, "xor": _L.AST_LOGICAL_XOR,
    "pi": _L.AST_CONSTANT_PI, "exponentiale": _L.AST_CONSTANT_E, "true": _L.AST_CONSTANT_TRUE,
    "false": _L.AST_CONSTANT_FALSE,
    "min": _L.AST_FUNCTION_MIN, "max": _L.AST_FUNCTION_MAX, "rem": _L.AST_FUNCTION_REM,
    "quotient": _L.AST_FUNCTION_QUOTIENT, "implies": _L.AST_LOGICAL_IMPLIES,
}


def to_ast(e):
    if isinstance(e, bool):
        raise TypeError(e)
    if isinstance(e, int):
        n = _L.ASTNode(_L.AST_INTEGER)
        n.setValue(int(e))
        return n
    if isinstance(e, float):
        n = _L.ASTNode(_L.AST_REAL)
        n.setValue(float(e))
        return n
    if isinstance(e, str):
        n = _L.ASTNode(_L.AST_NAME)
        n.setName(e)
        return n
    op = e[0]
    if op == "time":
        n = _L.ASTNode(_L.AST_NAME_TIME)
        n.setName("t")
        return n
    if op == "avogadro":
        n = _L.ASTNode(_L.AST_NAME_AVOGADRO)
        n.setName("NA")
        return n
    if op == "rational":
        n = _L.ASTNode(_L.AST_RATIONAL)
        n.setValue(int(e[1]), int(e[2]))
        return n
    if op == "enotation":
        n = _L.ASTNode(_L.AST_REAL_E)
        n.setValue(float(e[1]), int(e[2]))
        return n
    if op == "call":
        n = _L.ASTNode(_L.AST_FUNCTION)
        n.setName(e[1])
        for c in e[2:]:
            n.addChild(to_ast(c))
        return n
    if op == "sqrt":
        n = _L.ASTNode(_L.AST_FUNCTION_ROOT)
        n.addChild(to_ast(2))
        n.addChild(to_ast(e[1]))
        return n
    if op == "log10":
        n = _L.ASTNode(_L.AST_FUNCTION_LOG)
        n.addChild(to_ast(10))
        n.addChild(to_ast(e[1]))
        return n
    n = _L.ASTNode(AST_TYPES[op])
    for c in e[1:]:
        n.addChild(to_ast(c))
    return n


AVOGADRO = 6.02214179e23  # value libsbml documents for the csymbol in L3


def _truth(x):
    return bool(x)


def ev(e, look, fns):
    """Value of expression tree `e`; `look(name)` gives identifier values, fns: name -> (args, body)."""
    if isinstance(e, (int, float)):
        return float(e)
    if isinstance(e, str):
        return look(e)
    op = e[0]
    a = e[1:]
    E = lambda x: ev(x, look, fns)  # noqa: E731
    if op == "time":
        return look("@time")
    if op == "avogadro":
        return AVOGADRO
    if op == "rational":
        return a[0] / a[1]
    if op == "enotation":
        return a[0] * 10.0 ** a[1]
    if op == "call":
        args, body = fns[a[0]]
        vals = [E(x) for x in a[1:]]
        if len(vals) != len(args):
            raise ValueError("arity")
        local = dict(zip(args, vals))

        def look2(n):
            if n in local:
                return local[n]
            if n == "@time":
                return look(n)
            raise KeyError(n)  # function bodies are closed

        return ev(body, look2, fns)
    if op == "plus":
        return math.fsum(E(x) for x in a) if a else 0.0
    if op == "times":
        r = 1.0
        for x in a:
            r *= E(x)
        return r
    if op == "minus":
        return -E(a[0]) if len(a) == 1 else E(a[0]) - E(a[1])
    if op == "divide":
        return E(a[0]) / E(a[1])
    if op in ("power", "fpower"):
        return E(a[0]) ** E(a[1])
    if op == "root":
        return E(a[1]) ** (1.0 / E(a[0]))
    if op == "sqrt":
        return math.sqrt(E(a[0]))
    if op == "exp":
        return math.exp(E(a[0]))
    if op == "ln":
        return math.log(E(a[0]))
    if op == "log":
        return math.log(E(a[1])) / math.log(E(a[0]))
    if op == "log10":
        return math.log10(E(a[0]))
    if op == "abs":
        return abs(E(a[0]))
    if op == "floor":
        return float(math.floor(E(a[0])))
    if op == "ceiling":
        return float(math.ceil(E(a[0])))
    if op == "factorial":
        return float(math.factorial(int(E(a[0]))))
    if op in ("sin", "cos", "tan", "sinh", "cosh", "tanh"):
        return getattr(math, op)(E(a[0]))
    if op in ("arcsin", "arccos", "arctan", "arcsinh", "arccosh", "arctanh"):
        return getattr(math, "a" + op[3:])(E(a[0]))
    if op == "sec":
        return 1.0 / math.cos(E(a[0]))
    if op == "csc":
        return 1.0 / math.sin(E(a[0]))
    if op == "cot":
        return 1.0 / math.tan(E(a[0]))
    if op == "sech":
        return 1.0 / math.cosh(E(a[0]))
    if op == "csch":
        return 1.0 / math.sinh(E(a[0]))
    if op == "coth":
        return 1.0 / math.tanh(E(a[0]))
    if op == "arcsec":
        return math.acos(1.0 / E(a[0]))
    if op == "arccsc":
        return math.asin(1.0 / E(a[0]))
    if op == "arccot":
        return math.atan(1.0 / E(a[0]))
    if op == "arcsech":
        return math.acosh(1.0 / E(a[0]))
    if op == "arccsch":
        return math.asinh(1.0 / E(a[0]))
    if op == "arccoth":
        return math.atanh(1.0 / E(a[0]))
    if op == "piecewise":
        i = 0
        while i + 1 < len(a):
            if _truth(E(a[i + 1])):
                return E(a[i])
            i += 2
        if i < len(a):
            return E(a[i])
        return float("nan")
    if op == "lt":
        return float(E(a[0]) < E(a[1]))
    if op == "gt":
        return float(E(a[0]) > E(a[1]))
    if op == "leq":
        return float(E(a[0]) <= E(a[1]))
    if op == "geq":
        return float(E(a[0]) >= E(a[1]))
    if op == "eq":
        return float(E(a[0]) == E(a[1]))
    if op == "neq":
        return float(E(a[0]) != E(a[1]))
    if op == "and":
        return float(all(_truth(E(x)) for x in a))
    if op == "or":
        return float(any(_truth(E(x)) for x in a))
    if op == "xor":
        r = False
        for x in a:
            r ^= _truth(E(x))
        return float(r)
    if op == "not":
        return float(not _truth(E(a[0])))
    if op == "implies":
        return float((not _truth(E(a[0]))) or _truth(E(a[1])))
    if op == "pi":
        return math.pi
    if op == "exponentiale":
        return math.e
    if op == "true":
        return 1.0
    if op == "false":
        return 0.0
    if op == "min":
        return min(E(x) for x in a)
    if op == "max":
        return max(E(x) for x in a)
    if op == "rem":
        x, y = E(a[0]), E(a[1])
        return x - y * math.trunc(x / y)
    if op == "quotient":
        return float(math.trunc(E(a[0]) / E(a[1])))
    raise KeyError(op)


# ---------------------------------------------------------------------------
# documents


def build_document(spec) -> str:
    lv = tuple(spec.get("level_version", (3, 1)))
    doc = _L.SBMLDocument(*lv)
    m = doc.createModel()
    m.setId(spec.get("model_id", "m"))
    for f in spec.get("functions", []):
        fd = m.createFunctionDefinition()
        fd.setId(f["id"])
        lam = _L.ASTNode(_L.AST_LAMBDA)
        for arg in f["args"]:
            lam.addChild(to_ast(arg))
        lam.addChild(to_ast(f["math"]))
        assert fd.setMath(lam) == 0, f
    for c in spec.get("compartments", []):
        cc = m.createCompartment()
        cc.setId(c["id"])
        cc.setConstant(c.get("constant", True))
        if c.get("size") is not None:
            cc.setSize(float(c["size"]))
        cc.setSpatialDimensions(float(c.get("dims", 3)))
    for s in spec.get("species", []):
        ss = m.createSpecies()
        ss.setId(s["id"])
        ss.setCompartment(s["compartment"])
        ss.setHasOnlySubstanceUnits(bool(s.get("hosu", False)))
        ss.setBoundaryCondition(bool(s.get("boundary", False)))
        ss.setConstant(bool(s.get("constant", False)))
        if s.get("amount") is not None:
            ss.setInitialAmount(float(s["amount"]))
        if s.get("conc") is not None:
            ss.setInitialConcentration(float(s["conc"]))
    for p in spec.get("parameters", []):
        pp = m.createParameter()
        pp.setId(p["id"])
        pp.setConstant(bool(p.get("constant", True)))
        if p.get("value") is not None:
            pp.setValue(float(p["value"]))
    for ia in spec.get("initial_assignments", []):
        x = m.createInitialAssignment()
        x.setSymbol(ia["symbol"])
        assert x.setMath(to_ast(ia["math"])) == 0, ia
    for r in spec.get("rules", []):
        x = m.createRateRule() if r.get("rate") else m.createAssignmentRule()
        x.setVariable(r["variable"])
        assert x.setMath(to_ast(r["math"])) == 0, r
    for r in spec.get("reactions", []):
        rr = m.createReaction()
        rr.setId(r["id"])
        rr.setReversible(bool(r.get("reversible", False)))
        if lv == (3, 1):
            rr.setFast(False)
        for side, mk in (("reactants", rr.createReactant), ("products", rr.createProduct)):
            for sr in r.get(side, []):
                x = mk()
                x.setSpecies(sr["species"])
                x.setConstant(bool(sr.get("constant", True)))
                if sr.get("stoichiometry") is not None:
                    x.setStoichiometry(float(sr["stoichiometry"]))
                if sr.get("id"):
                    x.setId(sr["id"])
        for sp in r.get("modifiers", []):
            x = rr.createModifier()
            x.setSpecies(sp)
        kl = rr.createKineticLaw()
        assert kl.setMath(to_ast(r["math"])) == 0, r
        for k, v in r.get("locals", {}).items():
            lp = kl.createLocalParameter()
            lp.setId(k)
            lp.setValue(float(v))
    return _L.writeSBMLToString(doc)


def validate(xml: str) -> list[str]:
    doc = _L.readSBMLFromString(xml)
    doc.setConsistencyChecks(_L.LIBSBML_CAT_UNITS_CONSISTENCY, False)
    doc.setConsistencyChecks(_L.LIBSBML_CAT_MODELING_PRACTICE, False)
    doc.checkConsistency()
    out = []
    for i in range(doc.getNumErrors()):
        er = doc.getError(i)
        if er.getSeverity() >= _L.LIBSBML_SEV_ERROR:
            out.append(f"{er.getErrorId()}: {er.getShortMessage()}")
    return out


class Sem:
    """Independent reading of a document spec (SBML L3 core semantics, no events, constant compartments)."""

    def __init__(self, spec):
        self.spec = spec
        self.fns = {f["id"]: (f["args"], f["math"]) for f in spec.get("functions", [])}
        self.comp = {c["id"]: c for c in spec.get("compartments", [])}
        self.species = {s["id"]: s for s in spec.get("species", [])}
        self.params = {p["id"]: p for p in spec.get("parameters", [])}
        self.ia = {i["symbol"]: i["math"] for i in spec.get("initial_assignments", [])}
        self.arules = {r["variable"]: r["math"] for r in spec.get("rules", []) if not r.get("rate")}
        self.rrules = {r["variable"]: r["math"] for r in spec.get("rules", []) if r.get("rate")}
        self.rxns = {r["id"]: r for r in spec.get("reactions", [])}
        self.srefs = {}
        for r in self.rxns.values():
            for side in ("reactants", "products"):
                for sr in r.get(side, []):
                    if sr.get("id"):
                        self.srefs[sr["id"]] = sr
        in_rxn = set()
        for r in self.rxns.values():
            for side in ("reactants", "products"):
                for sr in r.get(side, []):
                    in_rxn.add(sr["species"])
        # identifiers whose value is a state of the ODE system
        self.dynamic = [
            s for s, d in self.species.items()
            if (not d.get("constant") and not d.get("boundary") and s in in_rxn and s not in self.arules)
            or s in self.rrules
        ] + [p for p in self.params if p in self.rrules]
        self.init = self._initial()

    # value of every symbol at t = 0
    def _initial(self):
        memo: dict[str, float] = {}
        busy: set[str] = set()

        def look(n):
            if n == "@time":
                return 0.0
            if n in memo:
                return memo[n]
            if n in busy:
                raise RecursionError(n)
            busy.add(n)
            v = self._define0(n, look)
            busy.discard(n)
            memo[n] = v
            return v

        for n in [*self.comp, *self.species, *self.params, *self.srefs, *self.rxns]:
            look(n)
        return memo

    def _define0(self, n, look):
        if n in self.ia:
            return ev(self.ia[n], look, self.fns)
        if n in self.arules:
            return ev(self.arules[n], look, self.fns)
        if n in self.species:
            s = self.species[n]
            if s.get("amount") is not None:
                return s["amount"] if s.get("hosu") else s["amount"] / look(s["compartment"])
            if s.get("conc") is not None:
                return s["conc"] * look(s["compartment"]) if s.get("hosu") else s["conc"]
            return float("nan")
        if n in self.params:
            v = self.params[n].get("value")
            return float("nan") if v is None else float(v)
        if n in self.comp:
            v = self.comp[n].get("size")
            return float("nan") if v is None else float(v)
        if n in self.srefs:
            v = self.srefs[n].get("stoichiometry")
            return float("nan") if v is None else float(v)
        if n in self.rxns:
            return self._rate(self.rxns[n], look)
        raise KeyError(n)

    def _rate(self, r, look):
        loc = r.get("locals", {})

        def look2(n):
            if n in loc:
                return float(loc[n])
            return look(n)

        return ev(r["math"], look2, self.fns)

    def at(self, state, time):
        """Values of every identifier and d/dt of the dynamic ones at (state, time)."""
        memo: dict[str, float] = {}

        def look(n):
            if n == "@time":
                return time
            if n in memo:
                return memo[n]
            if n in state:
                v = state[n]
            elif n in self.arules:
                v = ev(self.arules[n], look, self.fns)
            elif n in self.rxns:
                v = self._rate(self.rxns[n], look)
            else:
                v = self.init[n]
            memo[n] = v
            return v

        vals = {n: look(n) for n in [*self.comp, *self.species, *self.params, *self.srefs, *self.rxns]}
        ddt = {}
        for s in self.dynamic:
            if s in self.rrules:
                ddt[s] = ev(self.rrules[s], look, self.fns)
                continue
            d = self.species[s]
            terms = []
            for r in self.rxns.values():
                v = vals[r["id"]]
                for side, sign in (("reactants", -1.0), ("products", 1.0)):
                    for sr in r.get(side, []):
                        if sr["species"] != s:
                            continue
                        if sr.get("id"):
                            n = vals[sr["id"]]
                        else:
                            n = 1.0 if sr.get("stoichiometry") is None else float(sr["stoichiometry"])
                        terms.append(sign * n * v)
            tot = math.fsum(terms)
            ddt[s] = tot if d.get("hosu") else tot / vals[d["compartment"]]
        return vals, ddt


# ---------------------------------------------------------------------------
# reading a document back into a spec (used to give an exported file an independent meaning)

_REV = {v: k for k, v in AST_TYPES.items() if k not in ("fpower",)}
_REV[_L.AST_FUNCTION_POWER] = "power"


def from_ast(n):
    t = n.getType()
    if t == _L.AST_INTEGER:
        return int(n.getInteger())
    if t in (_L.AST_REAL, _L.AST_REAL_E, _L.AST_RATIONAL):
        return float(n.getReal()) if t != _L.AST_RATIONAL else ["rational", n.getNumerator(), n.getDenominator()]
    if t == _L.AST_NAME:
        return n.getName()
    if t == _L.AST_NAME_TIME:
        return ["time"]
    if t == _L.AST_NAME_AVOGADRO:
        return ["avogadro"]
    kids = [from_ast(n.getChild(i)) for i in range(n.getNumChildren())]
    if t == _L.AST_FUNCTION:
        return ["call", n.getName() or "", *kids]
    if t == _L.AST_LAMBDA:
        return ["lambda", *kids]
    if t not in _REV:
        raise KeyError(f"ast type {t}")
    return [_REV[t], *kids]


def spec_from_xml(xml: str) -> dict:
    doc = _L.readSBMLFromString(xml)
    m = doc.getModel()
    spec: dict = {"level_version": (doc.getLevel(), doc.getVersion()), "functions": [], "compartments": [],
                  "species": [], "parameters": [], "initial_assignments": [], "rules": [], "reactions": []}

    def math(x, what):
        if not x.isSetMath() or x.getMath() is None:
            raise ValueError(f"{what}: no math")
        return from_ast(x.getMath())

    for i in range(m.getNumFunctionDefinitions()):
        f = m.getFunctionDefinition(i)
        lam = math(f, f.getId())
        spec["functions"].append({"id": f.getId(), "args": lam[1:-1], "math": lam[-1]})
    for i in range(m.getNumCompartments()):
        c = m.getCompartment(i)
        spec["compartments"].append({"id": c.getId(), "size": c.getSize() if c.isSetSize() else None,
                                     "constant": c.getConstant()})
    for i in range(m.getNumSpecies()):
        s = m.getSpecies(i)
        spec["species"].append({
            "id": s.getId(), "compartment": s.getCompartment(), "hosu": s.getHasOnlySubstanceUnits(),
            "boundary": s.getBoundaryCondition(), "constant": s.getConstant(),
            "amount": s.getInitialAmount() if s.isSetInitialAmount() else None,
            "conc": s.getInitialConcentration() if s.isSetInitialConcentration() else None})
    for i in range(m.getNumParameters()):
        p = m.getParameter(i)
        spec["parameters"].append({"id": p.getId(), "value": p.getValue() if p.isSetValue() else None,
                                   "constant": p.getConstant()})
    for i in range(m.getNumInitialAssignments()):
        x = m.getInitialAssignment(i)
        spec["initial_assignments"].append({"symbol": x.getSymbol(), "math": math(x, "ia " + x.getSymbol())})
    for i in range(m.getNumRules()):
        x = m.getRule(i)
        if x.isAlgebraic():
            raise ValueError("algebraic rule")
        spec["rules"].append({"variable": x.getVariable(), "math": math(x, "rule " + x.getVariable()),
                              "rate": x.isRate()})
    for i in range(m.getNumReactions()):
        r = m.getReaction(i)
        d = {"id": r.getId(), "reactants": [], "products": [], "modifiers": [], "locals": {}}
        for side, n, get in (("reactants", r.getNumReactants(), r.getReactant), ("products", r.getNumProducts(), r.getProduct)):
            for j in range(n):
                sr = get(j)
                d[side].append({"species": sr.getSpecies(), "id": sr.getId() or None,
                                "stoichiometry": sr.getStoichiometry() if sr.isSetStoichiometry() else None,
                                "constant": sr.getConstant()})
        for j in range(r.getNumModifiers()):
            d["modifiers"].append(r.getModifier(j).getSpecies())
        kl = r.getKineticLaw()
        if kl is None:
            raise ValueError(f"reaction {r.getId()}: no kinetic law")
        d["math"] = math(kl, "kinetic law " + r.getId())
        for j in range(kl.getNumLocalParameters()):
            lp = kl.getLocalParameter(j)
            d["locals"][lp.getId()] = lp.getValue()
        spec["reactions"].append(d)
    return spec


# ---------------------------------------------------------------------------
# independent evaluation of pysbml's transformed model (sympy expressions)


class TSem:
    """Meaning of a pysbml.transform.data.Model: variables/parameters (numbers or initial assignments),
    derived expressions, reactions with stoichiometry expressions.  Evaluated with sympy itself
    (xreplace + evalf), never with generated code."""

    def __init__(self, tm):
        import sympy

        self.sympy = sympy
        self.tm = tm
        self.variables = list(tm.variables)
        self.parameters = list(tm.parameters)
        self.derived = dict(tm.derived)
        self.reactions = dict(tm.reactions)
        self.ia = {k: v for k, v in tm.initial_assignments.items() if k in tm.parameters or k in tm.variables}
        self.ia_unbound = [k for k in tm.initial_assignments if k not in self.ia]
        self.init = self._solve(None, 0.0)

    def _num(self, expr, look):
        sympy = self.sympy
        expr = sympy.sympify(expr)
        syms = [s for s in expr.free_symbols]
        sub = {}
        for s in syms:
            sub[s] = sympy.Float(look(s.name))
        v = expr.xreplace(sub)
        v = sympy.N(v)
        if v in (sympy.true, sympy.false):
            return float(bool(v))
        return float(v)

    def _solve(self, state, time):
        memo: dict[str, float] = {}
        busy: set[str] = set()
        tm = self.tm

        def look(n):
            if n in ("time", "t") and not (n in tm.variables or n in tm.parameters or n in tm.derived or n in tm.reactions):
                return time
            if n in memo:
                return memo[n]
            if n in busy:
                raise RecursionError(n)
            busy.add(n)
            if state is not None and n in state:
                v = state[n]
            elif state is not None and n in self.init and n not in self.derived and n not in self.reactions:
                v = self.init[n]  # parameters keep their t=0 value
            elif n in self.derived:
                v = self._num(self.derived[n], look)
            elif n in self.reactions:
                v = self._num(self.reactions[n].expr, look)
            elif n in self.ia:
                v = self._num(self.ia[n], look)
            elif n in tm.variables:
                v = float(tm.variables[n].value)
            elif n in tm.parameters:
                v = float(tm.parameters[n].value)
            else:
                raise KeyError(n)
            busy.discard(n)
            memo[n] = v
            return v

        for n in [*tm.parameters, *tm.variables, *self.derived, *self.reactions]:
            look(n)
        self._look = look
        return memo

    def at(self, state, time):
        vals = self._solve(dict(state), time)
        look = self._look
        ddt = {v: [] for v in self.variables}
        for rn, r in self.reactions.items():
            for var, st in r.stoichiometry.items():
                n = self._num(st, look)
                ddt.setdefault(var, []).append(n * vals[rn])
        return vals, {k: math.fsum(v) for k, v in ddt.items()}


# ---------------------------------------------------------------------------
# enumerated documents


def base_doc():
    """2 species (concentrations) in a compartment of size 2.5, 4 parameters, 2 reactions."""
    return {
        "compartments": [{"id": "c", "size": 2.5}],
        "species": [{"id": "A", "compartment": "c", "conc": 1.2}, {"id": "B", "compartment": "c", "conc": 0.7}],
        "parameters": [{"id": "k", "value": 0.3}, {"id": "k0", "value": 2.0}, {"id": "kn", "value": -1.5},
                       {"id": "thr", "value": 1.0}],
        "reactions": [
            {"id": "r1", "reactants": [{"species": "A", "stoichiometry": 1}],
             "products": [{"species": "B", "stoichiometry": 2}], "math": ["times", "c", "k", "A"]},
            {"id": "r2", "reactants": [{"species": "B", "stoichiometry": 1}], "products": [],
             "math": ["divide", ["times", "c", "k0", "B"], ["plus", "thr", "B"]]},
        ],
    }


def ident_doc():
    """base_doc with laws that make the generated module call math.* and scipy.special.*"""
    d = base_doc()
    d["reactions"][0]["math"] = ["times", "c", "k", "A", ["exp", ["minus", "B"]]]
    d["reactions"][1]["math"] = ["divide", ["times", "c", "k0", "B", ["factorial", ["floor", ["plus", "B", 2]]]], ["plus", "thr", "B"]]
    return d


def _with(fn):
    d = base_doc()
    fn(d)
    return d


def _rename(spec, old, new):
    """Rename identifier `old` to `new` everywhere (declarations and math)."""
    def walk(x):
        if isinstance(x, str):
            return new if x == old else x
        if isinstance(x, list):
            return [walk(i) for i in x]
        if isinstance(x, dict):
            return {(new if k == old and isinstance(v, (int, float)) else k): walk(v) for k, v in x.items()}
        return x
    return walk(spec)


X = ["plus", "A", 0.5]
UNARY_OPS = {
    "exp": X, "ln": X, "log10": X, "sqrt": X, "abs": ["minus", "A", 1.0], "floor": ["times", "A", 1.7],
    "ceiling": ["times", "A", 1.7], "sin": X, "cos": X, "tan": X, "sec": X, "csc": X, "cot": X, "sinh": X,
    "cosh": X, "tanh": X, "sech": X, "csch": X, "coth": X, "arcsin": ["divide", "A", 4], "arccos": ["divide", "A", 4],
    "arctan": X, "arcsinh": X, "arccosh": ["plus", "A", 1], "arctanh": ["divide", "A", 4],
    "arcsec": ["plus", "A", 1], "arccsc": ["plus", "A", 1], "arccot": X, "arcsech": ["divide", "A", 4],
    "arccsch": X, "arccoth": ["plus", "A", 1.5], "factorial": ["floor", ["plus", "A", 2]],
}
EXPRS = {
    "power": ["power", "A", "k0"], "power-neg-exp": ["power", "A", "kn"], "fpower": ["fpower", "A", 0.5],
    "root3": ["root", 3, "A"], "log2": ["log", 2, "A"], "uminus": ["minus", "A"], "minus": ["minus", "A", "B"],
    "minus-nonassoc": ["minus", "A", ["minus", "B", "k"]], "divide-nonassoc": ["divide", "A", ["divide", "B", "k0"]],
    "plus3": ["plus", "A", "B", "k"], "plus0": ["plus"], "times0": ["times"], "times1": ["times", "A"],
    "divide": ["divide", "A", "B"], "rational": ["times", ["rational", 1, 3], "A"],
    "enotation": ["times", ["enotation", 2.5, -3], "A"], "integer": ["times", 3, "A"], "pi": ["times", ["pi"], "A"],
    "exponentiale": ["times", ["exponentiale"], "A"], "avogadro": ["divide", ["avogadro"], 1e23],
    "time": ["times", "A", ["plus", 1, ["time"]]],
    "pw-lt": ["piecewise", "k", ["lt", "A", "B"], "k0"], "pw-gt": ["piecewise", "k", ["gt", "A", "B"], "k0"],
    "pw-leq": ["piecewise", "k", ["leq", "A", "thr"], "k0"], "pw-geq": ["piecewise", "k", ["geq", "A", "thr"], "k0"],
    "pw-eq": ["piecewise", "k", ["eq", "A", 1.2], "k0"], "pw-neq": ["piecewise", "k", ["neq", "A", 1.2], "k0"],
    "pw-and": ["piecewise", "k", ["and", ["lt", "A", 1.0], ["gt", "B", 0.5]], "k0"],
    "pw-or": ["piecewise", "k", ["or", ["lt", "A", 1.0], ["gt", "B", 1.5]], "k0"],
    "pw-xor": ["piecewise", "k", ["xor", ["lt", "A", 1.0], ["gt", "B", 0.5]], "k0"],
    "pw-not": ["piecewise", "k", ["not", ["lt", "A", 1.0]], "k0"],
    "pw-true": ["piecewise", "k", ["true"], "k0"], "pw-false": ["piecewise", "k", ["false"], "k0"],
    "pw-3": ["piecewise", "k", ["lt", "A", 0.5], "k0", ["lt", "A", 1.5], 0.1],
    "pw-otherwise-only": ["piecewise", 0.1],
    "pw-nested": ["piecewise", ["piecewise", "k", ["lt", "B", 0.6], "kn"], ["lt", "A", 1.0], ["times", "k0", "A"]],
    "pw-chain-lt3": ["piecewise", "k", ["lt", 0.5, "A", 2.0], "k0"],
    "pw-values-expr": ["piecewise", ["times", "k", "A"], ["lt", "A", "thr"], ["divide", "B", ["plus", 1, "A"]]],
    "mm": ["divide", ["times", "k0", "A"], ["plus", "thr", "A"]],
    "hill": ["divide", ["power", "A", 2.5], ["plus", ["power", "thr", 2.5], ["power", "A", 2.5]]],
    "mixed": ["times", "k", ["power", "A", 2.5], ["exp", ["minus", "A"]], ["ln", ["plus", 1, "B"]],
              ["log10", ["plus", "A", 1]], ["sqrt", "B"]],
}
EXPRS_V2 = {
    "min": ["min", "A", "B"], "max3": ["max", "A", "B", "k"], "rem": ["rem", "A", "k"],
    "quotient": ["quotient", "A", "k"],
    "pw-implies": ["piecewise", "k", ["implies", ["lt", "A", 1.0], ["gt", "B", 0.5]], "k0"],
    "bool-in-arith": ["plus", ["true"], "A"], "relational-in-arith": ["times", "A", ["lt", "A", 1.0]],
}
POS_EXPRS = ["mm", "pw-lt", "mixed", "power", "time", "minus-nonassoc"]

AWKWARD_IDS = [
    "lambda", "if", "None", "True", "def", "class", "in", "is", "math", "scipy", "E", "I", "S", "N", "O", "Q", "pi",
    "oo", "zoo", "nan", "inf", "beta", "gamma", "time", "t", "_", "__", "_x", "x_", "Model", "Derived",
    "InitialAssignment", "create_model", "float", "exp", "self", "print", "abs", "min", "max", "sqrt", "log",
    "Symbol", "x__45__y", "A_amount", "B_conc", "compartment", "l", "variables", "X", "x1", "a_very_long_identifier_"
    "with_many_characters_0123456789_abcdefghijklmnopqrstuvwxyz",
]
QUICK_IDS = ["lambda", "math", "E", "pi", "time", "_x", "Model", "create_model", "x__45__y", "A_amount", "None", "scipy"]


def _idents(e, acc):
    if isinstance(e, str):
        acc.add(e)
    elif isinstance(e, list):
        for x in e[1:]:
            _idents(x, acc)
    return acc


def _list_modifiers(spec):
    """SBML requires every species a kinetic law mentions to be a reactant, product or modifier."""
    species = {s["id"] for s in spec.get("species", [])}
    for r in spec.get("reactions", []):
        part = {sr["species"] for side in ("reactants", "products") for sr in r.get(side, [])}
        used = (_idents(r["math"], set()) & species) - set(r.get("locals", {}))
        r["modifiers"] = sorted(set(r.get("modifiers", [])) | (used - part))


def _doc(spec, stem=None, sub=""):
    return {"spec": spec, "stem": stem, "dir": sub}


def enumerate_cases(tier, rng):
    quick = tier == "quick"
    cases = []

    def add(cls, *docs, bytecode=True, role=None):
        docs = [d if "spec" in d else _doc(d) for d in docs]
        for d in docs:
            _list_modifiers(d["spec"])
        cases.append({"cls": cls, "docs": docs, "bytecode": bytecode, "role": role})

    def law(e, lv=None):
        d = base_doc()
        d["reactions"][0]["math"] = ["times", "c", "k", e]
        if lv:
            d["level_version"] = lv
        return d

    # F1 every MathML operator in a kinetic law
    for op, arg in UNARY_OPS.items():
        add(f"math:{op}", law([op, arg]))
    for name, e in EXPRS.items():
        add(f"math:{name}", law(e))
    for name, e in EXPRS_V2.items():
        add(f"math-l3v2:{name}", law(e, (3, 2)))

    # F2 positions
    for name in POS_EXPRS if not quick else POS_EXPRS[:3]:
        e = EXPRS[name]
        d = base_doc()
        d["parameters"].append({"id": "p", "constant": False})
        d["rules"] = [{"variable": "p", "math": e}]
        d["reactions"][1]["math"] = ["times", "c", "p", "B"]
        add(f"position:assignment-rule:{name}", d)
        d = base_doc()
        d["initial_assignments"] = [{"symbol": "k0", "math": _rename(e, "k0", "k")}]
        add(f"position:initial-assignment-parameter:{name}", d)
        d = base_doc()
        e2 = _rename(e, "B", "k")
        e2 = _rename(e2, "A", "k0")
        d["initial_assignments"] = [{"symbol": "B", "math": e2}]
        add(f"position:initial-assignment-species:{name}", d)
        if name != "time":
            d = base_doc()
            body = _rename(_rename(_rename(_rename(_rename(e, "A", "u"), "B", "w"), "k0", "p1"), "kn", "p1"), "thr", "p2")
            body = _rename(body, "k", "p3")
            d["functions"] = [{"id": "fd", "args": ["w", "p3", "u", "p2", "p1"], "math": body}]
            d["reactions"][0]["math"] = ["times", "c", ["call", "fd", "B", "k", "A", "thr", "k0"]]
            add(f"position:function-definition:{name}", d)
        d = base_doc()
        d["reactions"][0]["products"][0].update(id="sr", stoichiometry=None, constant=False)
        d["rules"] = [{"variable": "sr", "math": e}]
        add(f"position:rule-stoichiometry:{name}", d)

    # F3 species kinds / compartments
    for attr in ("conc", "amount"):
        for hosu in (False, True):
            for mod in ("plain", "boundary", "constant"):
                d = base_doc()
                s = d["species"][1]
                s.pop("conc")
                s[attr] = 0.7 if attr == "conc" else 1.75
                s["hosu"] = hosu
                if mod == "boundary":
                    s["boundary"] = True
                if mod == "constant":
                    s["boundary"] = True
                    s["constant"] = True
                add(f"species:B-{attr}-hosu{int(hosu)}-{mod}", d)
    for attr in ("conc", "amount"):
        for hosu in (False, True):
            d = base_doc()
            for s in d["species"]:
                v = s.pop("conc")
                s[attr] = v if attr == "conc" else v * 2.5
                s["hosu"] = hosu
            add(f"species:all-{attr}-hosu{int(hosu)}", d)
    d = base_doc()
    d["compartments"].append({"id": "c2", "size": 0.5})
    d["species"][1]["compartment"] = "c2"
    d["reactions"][1]["math"] = ["divide", ["times", "c2", "k0", "B"], ["plus", "thr", "B"]]
    add("species:two-compartments", d)
    d = base_doc()
    d["compartments"][0]["size"] = 1.0
    add("species:compartment-size-1", d)
    d = base_doc()
    d["reactions"][0]["math"] = ["times", "k", "A"]
    d["reactions"][1]["math"] = ["times", "k0", "B"]
    add("species:law-without-compartment", d)
    d = base_doc()
    d["species"].append({"id": "M", "compartment": "c", "conc": 0.4})
    d["reactions"][0]["modifiers"] = ["M"]
    d["reactions"][0]["math"] = ["times", "c", "k", "A", "M"]
    add("species:modifier-without-reaction", d)
    d = base_doc()
    d["species"].append({"id": "U", "compartment": "c", "conc": 0.4})
    add("species:unused", d)

    # F4 stoichiometry
    def st(cls, f):
        add(f"stoichiometry:{cls}", _with(f))

    st("fractional", lambda d: (d["reactions"][0]["reactants"][0].update(stoichiometry=0.5),
                                d["reactions"][0]["products"][0].update(stoichiometry=1.75)))
    st("zero", lambda d: d["reactions"][0]["products"][0].update(stoichiometry=0))
    st("same-species-twice", lambda d: d["reactions"][0]["reactants"].append({"species": "A", "stoichiometry": 1.5}))
    st("reactant-and-product", lambda d: d["reactions"][0]["products"].append({"species": "A", "stoichiometry": 0.5}))
    st("named-constant", lambda d: d["reactions"][0]["products"][0].update(id="sr", stoichiometry=3.0))
    st("rule-defined", lambda d: (d["reactions"][0]["products"][0].update(id="sr", stoichiometry=None, constant=False),
                                  d.update(rules=[{"variable": "sr", "math": ["plus", "k0", "A"]}])))
    st("rule-defined-negative-value", lambda d: (
        d["reactions"][0]["products"][0].update(id="sr", stoichiometry=None, constant=False),
        d.update(rules=[{"variable": "sr", "math": ["times", "kn", "A"]}])))
    st("rule-defined-reactant", lambda d: (
        d["reactions"][0]["reactants"][0].update(id="sr", stoichiometry=None, constant=False),
        d.update(rules=[{"variable": "sr", "math": ["plus", "k0", "B"]}])))
    st("initial-assignment-defined", lambda d: (
        d["reactions"][0]["products"][0].update(id="sr", stoichiometry=None, constant=True),
        d.update(initial_assignments=[{"symbol": "sr", "math": ["plus", "k0", 0.5]}])))
    st("initial-assignment-defined-from-species", lambda d: (
        d["reactions"][0]["products"][0].update(id="sr", stoichiometry=None, constant=True),
        d.update(initial_assignments=[{"symbol": "sr", "math": ["plus", "A", 0.5]}])))
    st("two-rules-two-reactions", lambda d: (
        d["reactions"][0]["products"][0].update(id="s1", stoichiometry=None, constant=False),
        d["reactions"][1]["reactants"][0].update(id="s2", stoichiometry=None, constant=False),
        d.update(rules=[{"variable": "s1", "math": ["plus", "k0", "A"]}, {"variable": "s2", "math": ["times", 2, "k"]}])))
    st("stoichiometry-referenced-in-law", lambda d: (
        d["reactions"][0]["products"][0].update(id="sr", stoichiometry=3.0),
        d["reactions"][1].update(math=["times", "c", "k0", "B", "sr"])))

    def hosu_doc():
        d = base_doc()
        for sp_ in d["species"]:
            sp_["amount"] = sp_.pop("conc") * 2.5
            sp_["hosu"] = True
        d["reactions"][0]["math"] = ["times", "k", "A"]
        d["reactions"][1]["math"] = ["divide", ["times", "k0", "B"], ["plus", "thr", "B"]]
        return d

    d = hosu_doc()
    d["reactions"][0]["products"][0].update(id="sr", stoichiometry=None, constant=False)
    d["rules"] = [{"variable": "sr", "math": ["plus", "k0", "A"]}]
    add("stoichiometry:rule-defined:species-in-substance-units", d)
    d = hosu_doc()
    d["reactions"][0]["reactants"][0].update(id="sr", stoichiometry=None, constant=False)
    d["rules"] = [{"variable": "sr", "math": ["plus", "k0", "B"]}]
    add("stoichiometry:rule-defined-reactant:species-in-substance-units", d)
    d = hosu_doc()
    d["reactions"][0]["products"][0].update(id="sr", stoichiometry=2.5, constant=True)
    add("stoichiometry:named-constant:species-in-substance-units", d)

    # F5 initial assignments
    def ia(cls, ias, f=None):
        d = base_doc()
        d["initial_assignments"] = [{"symbol": s, "math": m} for s, m in ias]
        if f:
            f(d)
        add(f"initial-assignment:{cls}", d)

    ia("parameter<-parameter", [("k", ["times", 2, "k0"])])
    ia("parameter-without-value", [("k", ["times", 2, "k0"])], lambda d: d["parameters"][0].pop("value"))
    ia("parameter<-species", [("k", ["times", 2, "A"])])
    ia("species<-parameter", [("A", ["times", 2, "k0"])])
    ia("species-without-value", [("A", ["times", 2, "k0"])], lambda d: d["species"][0].pop("conc"))
    ia("species<-species", [("A", ["times", 2, "B"])])
    ia("chain:parameter<-parameter<-parameter", [("k", ["plus", "k0", 1]), ("k0", ["times", 3, "thr"])])
    ia("chain:species<-parameter<-parameter", [("A", ["times", 2, "k0"]), ("k0", ["plus", "k", 1])])
    ia("chain:declared-in-reverse-order", [("k0", ["plus", "k", 1]), ("A", ["times", 2, "k0"])])
    ia("compartment", [("c", ["plus", "k0", 1])])
    ia("chain:species<-compartment<-parameter", [("c", ["plus", "k0", 1]), ("A", ["times", 2, "c"])])
    ia("chain:parameter<-compartment", [("c", ["plus", "k0", 1]), ("k", ["divide", 1, "c"])])
    ia("species-amount-attr<-parameter", [("B", ["times", 2, "k0"])],
       lambda d: (d["species"][1].pop("conc"), d["species"][1].update(amount=1.75)))
    ia("species-hosu<-parameter", [("B", ["times", 2, "k0"])], lambda d: d["species"][1].update(hosu=True))
    ia("parameter<-assignment-rule", [("k", ["times", 2, "p"])],
       lambda d: (d["parameters"].append({"id": "p", "constant": False}),
                  d.update(rules=[{"variable": "p", "math": ["plus", "k0", "A"]}])))
    ia("parameter<-time", [("k", ["plus", 1, ["time"]])])
    ia("parameter<-function", [("k", ["call", "fd", "k0", 2])],
       lambda d: d.update(functions=[{"id": "fd", "args": ["a", "b"], "math": ["power", "a", "b"]}]))
    ia("two-species", [("A", ["times", 2, "k0"]), ("B", ["plus", "k", 1])])

    # F6 function definitions
    def fd(cls, fns, law_, f=None):
        d = base_doc()
        d["functions"] = fns
        d["reactions"][0]["math"] = law_
        if f:
            f(d)
        add(f"function:{cls}", d)

    fd("args-in-order", [{"id": "f", "args": ["a", "b"], "math": ["divide", ["times", "a", "b"], ["plus", 1, "b"]]}],
       ["times", "c", ["call", "f", "k", "A"]])
    fd("args-swapped", [{"id": "f", "args": ["b", "a"], "math": ["minus", "a", "b"]}], ["times", "c", ["call", "f", "k", "A"]])
    fd("bvar-named-like-global", [{"id": "f", "args": ["k", "A"], "math": ["minus", "A", "k"]}],
       ["times", "c", ["call", "f", "A", "k"]])
    fd("bvar-named-like-global-crossed", [{"id": "f", "args": ["A", "B"], "math": ["divide", "A", ["plus", 1, "B"]]}],
       ["times", "c", ["call", "f", "B", "A"]])
    fd("expression-arguments", [{"id": "f", "args": ["a", "b"], "math": ["power", "a", "b"]}],
       ["times", "c", ["call", "f", ["plus", "A", "B"], ["minus", "k0", "k"]]])
    fd("nested", [{"id": "g", "args": ["x"], "math": ["plus", 1, "x"]},
                  {"id": "f", "args": ["a", "b"], "math": ["divide", "a", ["call", "g", "b"]]}],
       ["times", "c", ["call", "f", "A", ["call", "g", "B"]]])
    fd("zero-arguments", [{"id": "f", "args": [], "math": 0.25}], ["times", "c", "A", ["call", "f"]])
    fd("piecewise-body", [{"id": "f", "args": ["a", "b"], "math": ["piecewise", "a", ["lt", "a", "b"], "b"]}],
       ["times", "c", "k", ["call", "f", "A", "thr"]])
    fd("called-twice", [{"id": "f", "args": ["a", "b"], "math": ["minus", "a", "b"]}],
       ["times", "c", ["plus", ["call", "f", "A", "k"], ["call", "f", "k", "B"]]])
    fd("unused-argument", [{"id": "f", "args": ["a", "b"], "math": ["times", 2, "a"]}], ["times", "c", ["call", "f", "A", "B"]])
    fd("used-in-rule-and-law", [{"id": "f", "args": ["a", "b"], "math": ["minus", "a", "b"]}],
       ["times", "c", "p", ["call", "f", "A", "k"]],
       lambda d: (d["parameters"].append({"id": "p", "constant": False}),
                  d.update(rules=[{"variable": "p", "math": ["call", "f", "k0", "B"]}])))
    fd("time-argument", [{"id": "f", "args": ["a", "b"], "math": ["times", "a", ["plus", 1, "b"]]}],
       ["times", "c", "k", ["call", "f", "A", ["time"]]])

    # rules: chains, rule on species, reaction id in math, local parameters, rate rules
    d = base_doc()
    d["parameters"] += [{"id": "p", "constant": False}, {"id": "q", "constant": False}]
    d["rules"] = [{"variable": "q", "math": ["times", 2, "p"]}, {"variable": "p", "math": ["plus", "k0", "A"]}]
    d["reactions"][1]["math"] = ["times", "c", "q", "B"]
    add("rule:chain-declared-in-reverse-order", d)
    d = base_doc()
    d["species"].append({"id": "T", "compartment": "c", "boundary": True})
    d["rules"] = [{"variable": "T", "math": ["plus", "A", "B"]}]
    d["reactions"][1]["math"] = ["times", "c", "k0", "T"]
    add("rule:on-boundary-species", d)
    d = base_doc()
    d["parameters"].append({"id": "p", "constant": False})
    d["rules"] = [{"variable": "p", "math": ["times", 2, "r1"]}]
    d["reactions"][1]["math"] = ["times", "k0", "p", "B"]
    add("rule:refers-to-reaction-id", d)
    d = base_doc()
    d["reactions"][1]["math"] = ["times", "k0", "r1"]
    add("law:refers-to-reaction-id", d)
    d = base_doc()
    d["reactions"][0]["locals"] = {"k": 7.0}
    add("local-parameter:shadows-global", d)
    d = base_doc()
    d["reactions"][0]["locals"] = {"kl": 7.0}
    d["reactions"][1]["locals"] = {"kl": 0.25}
    d["reactions"][0]["math"] = ["times", "c", "kl", "A"]
    d["reactions"][1]["math"] = ["times", "c", "kl", "B"]
    add("local-parameter:same-id-in-two-reactions", d)
    d = base_doc()
    d["parameters"].append({"id": "p", "value": 0.4, "constant": False})
    d["rules"] = [{"variable": "p", "math": ["minus", "A", "p"], "rate": True}]
    d["reactions"][1]["math"] = ["times", "c", "p", "B"]
    add("rate-rule:parameter", d)
    d = base_doc()
    d["species"].append({"id": "R", "compartment": "c", "conc": 0.3, "boundary": True})
    d["rules"] = [{"variable": "R", "math": ["times", "k", ["minus", "A", "R"]], "rate": True}]
    add("rate-rule:boundary-species", d)

    # F7 awkward identifiers, one document per (identifier, kind)
    ids = QUICK_IDS if quick else AWKWARD_IDS
    for ident in ids:
        for old, kind in (("k", "parameter"), ("A", "species"), ("r1", "reaction"), ("c", "compartment")):
            if ident in ("A_amount", "B_conc") and kind != "parameter":
                continue
            add(f"identifier:{ident}", _rename(ident_doc(), old, ident), role=kind)
        # rule target, function id, function bvar, local parameter, species reference
        d = ident_doc()
        d["parameters"].append({"id": ident, "constant": False})
        d["rules"] = [{"variable": ident, "math": ["plus", "k0", "A"]}]
        d["reactions"][0]["math"] = ["times", "c", ident, "A", ["exp", ["minus", "B"]]]
        add(f"identifier:{ident}", d, role="rule-target")
        if not quick or ident in ("lambda", "math", "Model"):
            d = ident_doc()
            d["functions"] = [{"id": ident, "args": ["a", "b"], "math": ["minus", "a", "b"]}]
            d["reactions"][0]["math"] = ["times", "c", ["call", ident, "A", "k"], ["exp", ["minus", "B"]]]
            add(f"identifier:{ident}", d, role="function-id")
            d = ident_doc()
            d["functions"] = [{"id": "f", "args": [ident, "b"], "math": ["minus", ident, "b"]}]
            d["reactions"][0]["math"] = ["times", "c", ["call", "f", "A", "k"], ["exp", ["minus", "B"]]]
            add(f"identifier:{ident}", d, role="function-bvar")
            d = ident_doc()
            d["reactions"][0]["locals"] = {ident: 7.0}
            d["reactions"][0]["math"] = ["times", "c", ident, "A", ["exp", ["minus", "B"]]]
            add(f"identifier:{ident}", d, role="local-parameter")
            d = ident_doc()
            d["reactions"][0]["products"][0].update(id=ident, stoichiometry=None, constant=False)
            d["rules"] = [{"variable": ident, "math": ["plus", "k0", "A"]}]
            add(f"identifier:{ident}", d, role="species-reference")

    # F8 names that collide with names the generated module invents
    d = base_doc()
    d["initial_assignments"] = [{"symbol": "k0", "math": ["times", 3, "thr"]}]
    d["parameters"].append({"id": "init_k0", "constant": False})
    d["rules"] = [{"variable": "init_k0", "math": ["plus", "A", 10]}]
    d["reactions"][1]["math"] = ["times", "c", "init_k0", "B", "k0"]
    add("collision:rule-named-init_<parameter-with-initial-assignment>", d)
    d = base_doc()
    d["initial_assignments"] = [{"symbol": "A", "math": ["times", 3, "thr"]}]
    d["reactions"].append({"id": "init_A", "reactants": [{"species": "B", "stoichiometry": 1}], "products": [],
                           "math": ["times", "c", 0.01, "B"]})
    add("collision:reaction-named-init_<species-with-initial-assignment>", d)
    d = base_doc()
    d["parameters"].append({"id": "r1_stoich_A", "constant": False})
    d["rules"] = [{"variable": "r1_stoich_A", "math": ["plus", "A", 10]}]
    d["reactions"][1]["math"] = ["times", "c", "r1_stoich_A", "B"]
    add("collision:rule-named-<reaction>_stoich_<species>", d)
    d = base_doc()
    d["reactions"].append({"id": "r1_stoich_B", "reactants": [{"species": "B", "stoichiometry": 1}], "products": [],
                           "math": ["times", "c", 0.01, "B"]})
    add("collision:reaction-named-<reaction>_stoich_<species>", d)
    d = base_doc()
    d["reactions"][0]["locals"] = {"kl": 7.0}
    d["reactions"][0]["math"] = ["times", "c", "kl", "A"]
    d["parameters"].append({"id": "r1_kl", "value": 0.125})
    d["reactions"][1]["math"] = ["times", "c", "r1_kl", "B"]
    add("collision:parameter-named-<reaction>_<local-parameter>", d)

    # F9 several documents in one session
    def variant(i):
        d = base_doc()
        d["parameters"][0]["value"] = [0.3, 0.4, 0.5][i]
        return d

    def variant_shape(i):
        d = base_doc()
        if i == 1:
            d["reactions"][0]["math"] = ["times", "c", "k", "A", "A"]
            d["parameters"][1]["value"] = 3.25
        if i == 2:
            d["species"].append({"id": "Z", "compartment": "c", "conc": 0.1})
            d["reactions"][0]["products"].append({"species": "Z", "stoichiometry": 1})
        return d

    for bc in (True, False):
        tag = "bytecode-enabled" if bc else "bytecode-disabled"
        add(f"session:same-stem-different-directories:same-size-code:{tag}",
            _doc(variant(0), "model", "run1"), _doc(variant(1), "model", "run2"), bytecode=bc)
        add(f"session:same-path-rewritten:same-size-code:{tag}",
            _doc(variant(0), "model", "run"), _doc(variant(1), "model", "run"), _doc(variant(2), "model", "run"), bytecode=bc)
        add(f"session:same-stem-different-directories:different-documents:{tag}",
            _doc(variant_shape(0), "model", "run1"), _doc(variant_shape(1), "model", "run2"),
            _doc(variant_shape(2), "model", "run3"), bytecode=bc)
        add(f"session:stems-differ-in-case:{tag}", _doc(variant(0), "Model"), _doc(variant(1), "model"),
            _doc(variant_shape(1), "MODEL"), bytecode=bc)
        add(f"session:stems-differ-in-punctuation:{tag}", _doc(variant(0), "my-model"), _doc(variant(1), "my model"),
            _doc(variant_shape(2), "my_model"), _doc(variant(2), "my--model"), bytecode=bc)
    add("session:distinct-stems", _doc(variant(0), "alpha"), _doc(variant_shape(1), "beta"), _doc(variant_shape(2), "gamma"))
    add("session:non-ascii-and-dotted-stems", _doc(variant(0), "modèle.v1"), _doc(variant(1), "modele.v1"),
        _doc(variant_shape(1), "modele.v2"))
    add("session:stem-is-python-keyword-or-module", _doc(variant(0), "class"), _doc(variant(1), "math"),
        _doc(variant_shape(1), "mxlpy"))

    # F10 random documents
    n_rand = 25 if quick else 320
    for _ in range(n_rand):
        spec, feats = random_doc(rng)
        add("random:" + "+".join(sorted(feats)), spec)
    return cases


def random_expr(rng, leaves, depth, fns=()):
    if depth <= 0 or rng.random() < 0.25:
        r = rng.random()
        if r < 0.7 and leaves:
            return rng.choice(leaves)
        return rng.choice([0.5, 2, 1.25, 3, ["rational", 1, 4]])
    sub = lambda: random_expr(rng, leaves, depth - 1, fns)  # noqa: E731
    pos = lambda: ["plus", 0.5, ["abs", sub()]]  # noqa: E731  (strictly positive)
    kind = rng.choice(["plus", "times", "minus", "divide", "power", "exp", "ln", "sqrt", "piecewise", "call", "uminus",
                       "tanh", "root", "log"])
    if kind == "plus":
        return ["plus", *[sub() for _ in range(rng.choice([2, 2, 3]))]]
    if kind == "times":
        return ["times", *[sub() for _ in range(rng.choice([2, 2, 3]))]]
    if kind == "minus":
        return ["minus", sub(), sub()]
    if kind == "uminus":
        return ["minus", sub()]
    if kind == "divide":
        return ["divide", sub(), pos()]
    if kind == "power":
        return ["power", pos(), rng.choice([2, 0.5, 1.5, -1, 3])]
    if kind == "exp":
        return ["exp", ["minus", ["abs", sub()]]]
    if kind == "ln":
        return ["ln", pos()]
    if kind == "sqrt":
        return ["sqrt", pos()]
    if kind == "root":
        return ["root", 3, pos()]
    if kind == "log":
        return ["log", 2, pos()]
    if kind == "tanh":
        return ["tanh", sub()]
    if kind == "piecewise":
        rel = rng.choice(["lt", "gt", "leq", "geq"])
        cond = [rel, sub(), sub()]
        if rng.random() < 0.3:
            cond = [rng.choice(["and", "or"]), cond, [rng.choice(["lt", "gt"]), sub(), sub()]]
        return ["piecewise", sub(), cond, sub()]
    if kind == "call" and fns:
        f = rng.choice(list(fns))
        return ["call", f["id"], *[sub() for _ in f["args"]]]
    return sub()


def random_doc(rng):
    feats = set()
    d = {"compartments": [{"id": "c", "size": rng.choice([0.5, 2.5, 4.0])}], "species": [], "parameters": [],
         "functions": [], "rules": [], "initial_assignments": [], "reactions": []}
    if rng.random() < 0.3:
        d["compartments"].append({"id": "c2", "size": rng.choice([0.25, 3.0])})
        feats.add("two-compartments")
    ns = rng.choice([2, 3, 3, 4])
    sp = [f"S{i}" for i in range(ns)]
    for s in sp:
        e = {"id": s, "compartment": rng.choice([c["id"] for c in d["compartments"]]),
             "conc": round(rng.uniform(0.2, 2.0), 3)}
        if rng.random() < 0.15:
            e["hosu"] = True
            feats.add("hosu")
        d["species"].append(e)
    np_ = rng.choice([2, 3, 4])
    ps = [f"p{i}" for i in range(np_)]
    for p in ps:
        d["parameters"].append({"id": p, "value": round(rng.uniform(0.1, 3.0), 3) * rng.choice([1, 1, 1, -1])})
    if rng.random() < 0.6:
        for i in range(rng.choice([1, 2])):
            args = ["a", "b", "x"][: rng.choice([1, 2, 3])]
            rng.shuffle(args)
            d["functions"].append({"id": f"f{i}", "args": args, "math": random_expr(rng, args, 2, d["functions"][:i])})
        feats.add("functions")
    leaves = sp + ps
    if rng.random() < 0.5:
        n = rng.choice([1, 2])
        for i in range(n):
            d["parameters"].append({"id": f"q{i}", "constant": False})
            d["rules"].append({"variable": f"q{i}", "math": random_expr(rng, leaves + [f"q{j}" for j in range(i)], 2, d["functions"])})
        leaves = leaves + [f"q{i}" for i in range(n)]
        rng.shuffle(d["rules"])
        feats.add("rules")
    if rng.random() < 0.5:
        tgt = rng.sample(ps + sp, rng.choice([1, 2]))
        done = []
        for t in tgt:
            d["initial_assignments"].append({"symbol": t, "math": random_expr(rng, [x for x in ps if x not in tgt] + done, 2, d["functions"])})
            done.append(t)
        rng.shuffle(d["initial_assignments"])
        feats.add("initial-assignments")
    if rng.random() < 0.3:
        leaves = leaves + [["time"]]
        feats.add("time")
    for i in range(rng.choice([2, 3, 4])):
        r = {"id": f"v{i}", "reactants": [], "products": [], "math": None}
        chosen = rng.sample(sp, rng.choice([1, 2, min(3, ns)]))
        for j, s in enumerate(chosen):
            side = "reactants" if (j == 0 and rng.random() < 0.8) or rng.random() < 0.4 else "products"
            sr = {"species": s, "stoichiometry": rng.choice([1, 1, 2, 0.5, 1.5])}
            if rng.random() < 0.15:
                sr.update(id=f"sr{i}_{j}", stoichiometry=None, constant=False)
                d["rules"].append({"variable": sr["id"], "math": random_expr(rng, ps + sp, 1)})
                feats.add("rule-stoichiometry")
            elif rng.random() < 0.1:
                sr.update(id=f"sr{i}_{j}", stoichiometry=None, constant=True)
                d["initial_assignments"].append({"symbol": sr["id"], "math": random_expr(rng, ps, 1)})
                feats.add("ia-stoichiometry")
            r[side].append(sr)
        comp = d["species"][sp.index(chosen[0])]["compartment"]
        r["math"] = ["times", comp, random_expr(rng, leaves, 3, d["functions"])]
        if rng.random() < 0.15:
            r["locals"] = {"kl": round(rng.uniform(0.1, 2.0), 3)}
            r["math"] = ["times", "kl", r["math"]]
            feats.add("local-parameter")
        d["reactions"].append(r)
    feats.add("piecewise" if "piecewise" in json.dumps(d) else "smooth")
    return d, feats


# ---------------------------------------------------------------------------
# checking one case on the real code (runs inside a worker process)


def _close(a, b):
    if a != a and b != b:
        return True
    if math.isinf(a) or math.isinf(b):
        return a == b
    return math.isclose(a, b, rel_tol=RTOL, abs_tol=ATOL)


def _quiet():
    logging.disable(logging.CRITICAL)
    warnings.simplefilter("ignore")
    os.environ.setdefault("TQDM_DISABLE", "1")


_ROOT = None


def _init_worker(root):
    """Private HOME (sbml.read writes ~/.cache/mxlpy/<name>.py) per worker process."""
    global _ROOT
    _ROOT = Path(root) / f"w{os.getpid()}"
    (_ROOT / "home").mkdir(parents=True, exist_ok=True)
    os.environ["HOME"] = str(_ROOT / "home")
    _quiet()


def _grid(names, init, rng, n):
    states = [dict(init)]
    for _ in range(n):
        states.append({k: round(rng.uniform(0.15, 2.6), 3) for k in names})
    return states


def _level2(tm, m, rng, n_states):
    """(T): the model against the transformed document, evaluated with sympy."""
    out = []
    try:
        ts = TSem(tm)
    except Exception as e:  # noqa: BLE001
        return [("oracle-undefined", f"{type(e).__name__}: {e}"[:200])], 0
    if ts.ia_unbound:
        out.append(("initial-assignment-names-no-component", ts.ia_unbound))
    try:
        ic = m.get_initial_conditions()
        a0 = m.get_args()
        pnames = set(m.get_parameter_names())
        dnames = set(m.get_raw_derived())
        rnames = set(m.get_reaction_names())
    except BaseException as e:  # noqa: BLE001
        return [("model-unusable", f"{type(e).__name__}: {e}"[:300])], 0
    for kind, want, have in (("variables", ts.variables, set(ic)), ("parameters", ts.parameters, pnames),
                             ("derived", list(ts.derived), dnames), ("reactions", list(ts.reactions), rnames)):
        miss = [k for k in want if k not in have]
        extra = [k for k in have if k not in want]
        if miss or extra:
            out.append((f"{kind}-not-those-of-the-transformed-document", {"missing": miss, "extra": extra}))
    for v in ts.variables:
        if v in ic and not _close(ts.init[v], float(ic[v])):
            out.append(("initial-value", {"name": v, "expected": ts.init[v], "got": float(ic[v])}))
    for p in ts.parameters:
        if p in a0.index and not _close(ts.init[p], float(a0[p])):
            out.append(("parameter-value", {"name": p, "expected": ts.init[p], "got": float(a0[p])}))
    vs = [v for v in ts.variables if v in ic]
    n_eval = 0
    for st in _grid(vs, {v: ts.init[v] for v in vs}, rng, n_states):
        for t in (0.0, 0.7):
            try:
                vals, ddt = ts.at(st, t)
                if any(isinstance(x, complex) for x in vals.values()):
                    raise ValueError("complex")
            except Exception:  # noqa: BLE001  (state outside the domain of the document's math)
                continue
            full = {k: float(v) for k, v in ic.items()}
            full.update(st)
            try:
                a = m.get_args(full, time=t)
                r = m.get_right_hand_side(full, time=t)
            except BaseException as e:  # noqa: BLE001
                out.append(("evaluation-raises", {"state": st, "time": t, "error": f"{type(e).__name__}: {e}"[:200]}))
                continue
            n_eval += 1
            for k, v in vals.items():
                if k not in a.index:
                    out.append(("value-missing", {"name": k}))
                elif not _close(v, float(a[k])):
                    kind = "flux" if k in ts.reactions else "derived-value" if k in ts.derived else "value"
                    out.append((kind, {"name": k, "expected": v, "got": float(a[k]), "state": st, "time": t}))
            for k, v in ddt.items():
                if k in r.index and not _close(v, float(r[k])):
                    out.append(("derivative", {"name": k, "expected": v, "got": float(r[k]), "state": st, "time": t}))
    if n_eval == 0 and not out:
        out.append(("oracle-undefined", "no state of the grid is inside the domain"))
    return _first_per_symptom(out), n_eval


def _first_per_symptom(out):
    seen, res = set(), []
    for s, d in out:
        if s in seen:
            continue
        seen.add(s)
        res.append((s, d))
    return res


def _map_name(ident, index):
    for c in (ident, ident + "_", "_" + ident):
        if c in index:
            return c
    return None


def _level1(spec, m, rng, n_states):
    """(D): the model against the document itself."""
    out = []
    try:
        sem = Sem(spec)
    except Exception as e:  # noqa: BLE001
        return [("generator-error", f"{type(e).__name__}: {e}")], 0
    try:
        ic = m.get_initial_conditions()
        a0 = m.get_args()
    except BaseException as e:  # noqa: BLE001
        return [("model-unusable", f"{type(e).__name__}: {e}"[:300])], 0
    names = {}
    for n in [*sem.comp, *sem.species, *sem.params, *sem.srefs, *sem.rxns]:
        names[n] = _map_name(n, a0.index)
    mapped = [v for v in names.values() if v is not None]
    if len(set(mapped)) != len(mapped):
        out.append(("identifiers-mapped-to-one-name", names))
    dyn = []
    for s in sem.dynamic:
        if names[s] is None or names[s] not in ic:
            out.append(("dynamic-quantity-is-not-a-variable", {"id": s, "variables": list(ic)}))
            continue
        dyn.append(s)
        if not _close(sem.init[s], float(ic[names[s]])):
            out.append(("initial-value", {"id": s, "expected": sem.init[s], "got": float(ic[names[s]])}))
    n_eval = 0
    for st in _grid(dyn, {s: sem.init[s] for s in dyn}, rng, n_states):
        for t in (0.0, 0.7):
            try:
                vals, ddt = sem.at(st, t)
                if not all(isinstance(v, float) for v in [*vals.values(), *ddt.values()]):
                    raise ValueError("complex")
            except Exception:  # noqa: BLE001
                continue
            full = {k: float(v) for k, v in ic.items()}
            full.update({names[s]: v for s, v in st.items()})
            try:
                a = m.get_args(full, time=t)
                r = m.get_right_hand_side(full, time=t)
            except BaseException as e:  # noqa: BLE001
                out.append(("evaluation-raises", {"state": st, "time": t, "error": f"{type(e).__name__}: {e}"[:200]}))
                continue
            n_eval += 1
            for k, v in vals.items():
                mk = names[k]
                if mk is None:
                    out.append(("identifier-missing", {"id": k}))
                elif not _close(v, float(a[mk])):
                    kind = "flux" if k in sem.rxns else "value"
                    out.append((kind, {"id": k, "expected": v, "got": float(a[mk]), "state": st, "time": t}))
            for k, v in ddt.items():
                if k in dyn and not _close(v, float(r[names[k]])):
                    out.append(("derivative", {"id": k, "expected": v, "got": float(r[names[k]]), "state": st, "time": t}))
    if n_eval == 0 and not out:
        out.append(("oracle-undefined", "no state of the grid is inside the domain"))
    return _first_per_symptom(out), n_eval


class _TModelAsModel:
    """pysbml's transformed model behind the three Model methods _level1 uses (evaluated with sympy)."""

    def __init__(self, tm):
        self.ts = TSem(tm)

    def get_initial_conditions(self):
        return {v: self.ts.init[v] for v in self.ts.variables}

    def get_args(self, variables=None, time=0.0):
        import pandas as pd

        vals, _ = self.ts.at(self.get_initial_conditions() if variables is None else variables, time)
        return pd.Series(vals, dtype=float)

    def get_right_hand_side(self, variables=None, time=0.0):
        import pandas as pd

        _, ddt = self.ts.at(self.get_initial_conditions() if variables is None else variables, time)
        return pd.Series(ddt, dtype=float)


def _transformed_model_denotes_document(spec, tm, rng, n_states):
    try:
        l0, n0 = _level1(spec, _TModelAsModel(tm), rng, n_states)
    except Exception as e:  # noqa: BLE001
        return False, [("transformed-model-not-evaluable", f"{type(e).__name__}: {e}"[:200])]
    return (not l0 and n0 > 0), l0


def check_case(case, idx, root=None, n_states=2):
    """Write the documents of one case, read them with the REAL mxlpy.sbml.read in order, then
    check every returned model.  Returns a json-able record."""
    import pysbml
    from mxlpy import sbml

    root = Path(root) if root is not None else _ROOT
    rng = random.Random(seed() * 1000003 + idx)
    rec = {"cls": case["cls"], "idx": idx, "failures": [], "excluded": [], "docs": len(case["docs"]), "evals": 0,
           "end_to_end_ok": 0, "invalid": None}
    xmls = []
    for d in case["docs"]:
        x = build_document(d["spec"])
        errs = validate(x)
        if errs:
            rec["invalid"] = errs
            return rec
        xmls.append(x)
    old_flag = sys.dont_write_bytecode
    sys.dont_write_bytecode = not case.get("bytecode", True)
    base = root / f"case{idx}"
    results = []
    try:
        for d, x in zip(case["docs"], xmls):
            folder = base / (d.get("dir") or "")
            folder.mkdir(parents=True, exist_ok=True)
            path = folder / f"{d.get('stem') or 'doc'}_{idx}.xml"
            path.write_text(x)
            try:
                tm, tm_err = pysbml.load_and_transform_model(path), None
            except BaseException as e:  # noqa: BLE001
                tm, tm_err = None, f"{type(e).__name__}: {e}"[:300]
            try:
                m, err = sbml.read(path), None
            except BaseException as e:  # noqa: BLE001
                m, err = None, f"{type(e).__name__}: {e}"[:300]
            results.append((tm, tm_err, m, err, str(path.relative_to(root))))
    finally:
        sys.dont_write_bytecode = old_flag
    for i, (d, (tm, tm_err, m, err, rel)) in enumerate(zip(case["docs"], results)):
        wit = {"cls": case["cls"], "docs": case["docs"], "bytecode": case.get("bytecode", True), "doc_index": i}
        if case.get("role"):
            wit["role"] = case["role"]
        if m is None:
            if tm is None:
                rec["excluded"].append({"cls": case["cls"], "why": "pysbml-refuses-document", "detail": tm_err, "doc": i})
            else:
                ok0, l0 = _transformed_model_denotes_document(d["spec"], tm, rng, n_states)
                if ok0:
                    rec["failures"].append({"symptom": "read-raises", "what": err, "witness": wit,
                                            "detail": {"error": err, "file": rel}})
                else:
                    rec["excluded"].append({"cls": case["cls"], "why": "pysbml-transformed-model-differs-from-document"
                                            "(read-raises-on-it)", "detail": [err, l0[:1]], "doc": i})
            continue
        if tm is None:
            rec["excluded"].append({"cls": case["cls"], "why": "pysbml-transform-not-repeatable", "detail": tm_err, "doc": i})
            continue
        l2, n2 = _level2(tm, m, rng, n_states)
        l1, n1 = _level1(d["spec"], m, rng, n_states)
        rec["evals"] += n1 + n2
        if l2 and l2[0][0] == "oracle-undefined":
            rec["excluded"].append({"cls": case["cls"], "why": "transformed-model-not-evaluable-with-sympy", "detail": l2[0][1], "doc": i})
            continue
        if l2:
            s, det = l2[0]  # one key per document: the first symptom in the order names, initial values, values, derivatives
            if len(case["docs"]) > 1 and _is_other_documents_model(i, m, results):
                s = "model-of-another-document-returned"
            rec["failures"].append({"symptom": s, "what": json.dumps(det, default=str)[:300], "witness": wit,
                                    "detail": {"level": "model vs transformed document", "mismatch": det,
                                               "all_symptoms": [x[0] for x in l2], "document_level": l1[:3]}})
            continue
        if l1:
            if l1[0][0] == "generator-error":
                rec["invalid"] = [l1[0][1]]
                return rec
            rec["excluded"].append({"cls": case["cls"], "why": "pysbml-transformed-model-differs-from-document",
                                    "detail": l1[0], "doc": i})
        else:
            rec["end_to_end_ok"] += 1
    shutil.rmtree(base, ignore_errors=True)
    return rec


def _is_other_documents_model(i, m, results):
    """In a session: does model i satisfy (T) for the transformed model of ANOTHER document of the session?"""
    for j, (tm, _e, _m, _err, _rel) in enumerate(results):
        if j == i or tm is None:
            continue
        l2, n = _level2(tm, m, random.Random(0), 1)
        if not l2 and n:
            return True
    return False


def _work(chunk):
    n_states, items = chunk
    return [check_case(case, idx, n_states=n_states) for idx, case in items]


def replay(witness, root=None):
    """Re-run one witness in this process (used by findings/*.py); returns the failure list."""
    own = root is None
    root = tempfile.mkdtemp(prefix="verif_c17_replay_") if own else root
    old_home = os.environ.get("HOME")
    try:
        _init_worker(root)
        case = {"cls": witness["cls"], "docs": witness["docs"], "bytecode": witness.get("bytecode", True)}
        return check_case(case, 0, n_states=2)
    finally:
        if old_home is not None:
            os.environ["HOME"] = old_home
        if own:
            shutil.rmtree(root, ignore_errors=True)


# ---------------------------------------------------------------------------


def _self_test():
    """The two evaluators on a document whose numbers are known by hand."""
    d = base_doc()
    sem = Sem(d)
    vals, ddt = sem.at({"A": 2.0, "B": 0.5}, 0.0)
    r1, r2 = 2.5 * 0.3 * 2.0, 2.5 * 2.0 * 0.5 / 1.5
    if not (_close(vals["r1"], r1) and _close(ddt["A"], -r1 / 2.5) and _close(ddt["B"], (2 * r1 - r2) / 2.5)):
        raise CheckerError("C17 document evaluator self-test failed")
    d["initial_assignments"] = [{"symbol": "A", "math": ["times", 2, "k0"]}, {"symbol": "k0", "math": ["plus", "k", 1]}]
    if not _close(Sem(d).init["A"], 2.6):
        raise CheckerError("C17 initial-assignment chain self-test failed")
    x = build_document(d)
    if validate(x) or spec_from_xml(x)["initial_assignments"][0]["math"] != ["times", 2, "k0"]:
        raise CheckerError("C17 document writer self-test failed")


def run(ctx: Ctx) -> None:
    _quiet()
    _self_test()
    quick = ctx.tier == "quick"
    rng = random.Random(seed())
    cases = enumerate_cases(ctx.tier, rng)
    n_states = 2 if quick else 3
    ctx.assume(
        f"numbers compared with rel {RTOL:g} / abs {ATOL:g}: generated code prints floats with 15+ significant digits",
        "states at which an oracle cannot evaluate the document's math (domain error, complex value) are outside the bound",
        "third-party pysbml.load_and_transform_model denotes the document (ASSUMED; violated for the document classes "
        "listed in extra.pysbml_unfaithful - those cases are excluded from the end-to-end clause, the MxlPy part (T) is "
        "still checked on them)",
        "libsbml writes the MathML the ASTNode describes and its consistency check accepts every generated document",
        "compartments are constant; no events, algebraic rules, delays, fast reactions, conversion factors",
    )
    ctx.trust("libsbml (document writer / validator)", "sympy xreplace + N as evaluator of the transformed model",
              "independent SBML L3 evaluator in bounded/C17.py (self-tested on hand-computed numbers)")
    workers = min(8 if quick else 14, os.cpu_count() or 1)
    items = list(enumerate(cases))
    chunks = [(n_states, items[i::workers * 3]) for i in range(workers * 3)]
    chunks = [c for c in chunks if c[1]]
    root = tempfile.mkdtemp(prefix="verif_c17_")
    try:
        with ProcessPoolExecutor(max_workers=workers, initializer=_init_worker, initargs=(root,)) as ex:
            recs = [r for part in ex.map(_work, chunks) for r in part]
    finally:
        shutil.rmtree(root, ignore_errors=True)
    invalid = [(r["cls"], r["invalid"]) for r in recs if r["invalid"]]
    if invalid:
        raise CheckerError(f"C17 generator produced documents libsbml rejects: {invalid[:3]}")
    n_docs = sum(r["docs"] for r in recs)
    n_fail_cases = 0
    excluded: dict[str, dict] = {}
    e2e = 0
    for r in sorted(recs, key=lambda r: r["idx"]):
        e2e += r["end_to_end_ok"]
        for e in r["excluded"]:
            k = f"{e['why']}:{'random' if e['cls'].startswith('random:') else e['cls']}"
            excluded.setdefault(k, {"count": 0, "first": e["detail"]})["count"] += 1
        if r["failures"]:
            n_fail_cases += 1
        for f in r["failures"]:
            cls = r["cls"]
            if cls.startswith("random:"):
                cls = "random"
            ctx.fail(key=f"bounded:{f['symptom']}:{cls}", kind="bounded",
                     what=f"sbml.read: {f['symptom']} ({r['cls']}): {f['what']}"[:300],
                     witness=f["witness"], replayed=True, detail=f["detail"])
    nontrivial = len({json.dumps(c["docs"], sort_keys=True, default=str) for c in cases})
    ctx.extra["pysbml_unfaithful"] = {k: v for k, v in sorted(excluded.items())}
    ctx.extra["documents_reproduced_end_to_end"] = e2e
    ctx.extra["documents_read"] = n_docs
    ctx.notes.append(
        f"C17 bounded: {len(cases)} cases / {n_docs} documents read with the real sbml.read; {e2e} reproduce the document "
        f"end to end, {sum(v['count'] for v in excluded.values())} excluded because pysbml's transformed model differs from / "
        f"refuses the document ({len(excluded)} classes), {n_fail_cases} cases with MxlPy failures")
    ctx.add_bounded(
        name="C17 generated SBML L3 documents read with mxlpy.sbml.read",
        tool="libsbml generator + independent SBML evaluator + sympy evaluation of pysbml's transformed model",
        bound=(f"every MathML operator of L3V1 ({len(UNARY_OPS)} one-argument functions, {len(EXPRS)} other expression shapes) + "
               f"{len(EXPRS_V2)} L3V2 shapes in a kinetic law; 6 expression shapes x 5 positions; 21 species / compartment kinds; 15 "
               "stoichiometry shapes; 18 initial-assignment shapes; 12 function-definition shapes; 9 rule / local-parameter shapes; "
               f"{len(QUICK_IDS) if quick else len(AWKWARD_IDS)} awkward identifiers x up to 9 roles; 5 name collisions; 13 "
               f"multi-document sessions; {25 if quick else 320} random documents; {n_states + 1} states x 2 times each"),
        cases=len(cases), distinct_nontrivial=nontrivial,
        rule="one case = one document (or one session of 2-4 documents) written with libsbml and read with the real "
             "sbml.read; distinct by canonical JSON of the document specs; every case has >= 2 species, 2 reactions",
        exhaustive=False,
        samples=[{"cls": c["cls"], "docs": c["docs"]} for c in cases[:2]],
    )
    ctx.evaluations += sum(r["evals"] for r in recs)
