"""Bounded stand-in for C04 (labelled bounded, never counted as proved).

The contract of C04, checked at run time on the REAL ``Simulator`` (default Scipy
integrator) over enumerated operation histories on a model with a closed-form solution:

  variables S, P, Q; parameters kin, k1, k2, k3
      dS/dt = kin - k1*S        dP/dt = k1*S - k2*P        dQ/dt = k3*S
  (kin = 0 here: a decaying chain plus an accumulator Q whose limit depends on the
  whole history, so "restarted from the wrong state / wrong time" is visible even in
  steady-state rows).

An independent *oracle* is run in lock-step with the simulator.  It keeps only what the
property talks about: the absolute time reached, the parameter values in force, the
overrides pending since the last simulation, and for every expected segment its
requested absolute time points.  After every operation the real simulator is compared
with it:

  (T1) the accumulated time axis is strictly increasing (absolute model time);
  (T2) segment i's time points are exactly the requested points later than the time
       already reached (plus the start row for a first segment), each once;
  (S)  segment i's states equal the closed-form solution started from the previous
       segment's final row (as recorded by the simulator) with the pending overrides
       applied, under the oracle's parameter values, to integrator tolerance;
  (P)  raw parameter map of segment i == the oracle's parameter values at that moment;
  (R)  a continuation raises ValueError  <=>  its requested end <= time reached.

(T1) and ``len(parameters) == len(variables)`` are additionally attached as an
``icontract`` post-condition to the real methods (monkey-patched from here, never by
editing the repository), so that calls nested inside the protocol methods are covered;
evaluations are counted so a bypassed wrapper is noticed.
"""
from __future__ import annotations

import itertools
import logging
import multiprocessing
import os
import random
import warnings
from concurrent.futures import ProcessPoolExecutor

import numpy as np

from vlib.core import CheckerError, Ctx, seed

# ---------------------------------------------------------------------------
# tolerances (justified in run(): ctx.assume)

TOL_TIME = 1e-9  # requested times are dyadic rationals; only shift arithmetic / linspace noise
TOL_STATE = 5e-7  # |err| <= TOL*(1+|exact|); solve_ivp(LSODA, rtol=atol=1e-8) local tolerance x 50
TOL_SS = 1e-4  # steady-state rows: spi.ode(lsoda) default rtol=1e-6 over t >= 100

VARS = ("S", "P", "Q")
Y0 = {"S": 1.0, "P": 0.5, "Q": 0.0}
P0 = {"kin": 0.0, "k1": 1.0, "k2": 2.0, "k3": 0.5}


# ---------------------------------------------------------------------------
# model and closed form


def _v0(kin):
    return kin


def _v1(S, k1):
    return k1 * S


def _v2(P, k2):
    return k2 * P


def _v3(S, k3):
    return k3 * S


def build_model(params=None, y0=None):
    from mxlpy import Model

    m = Model()
    m.add_variables(dict(Y0 if y0 is None else y0))
    m.add_parameters(dict(P0 if params is None else params))
    m.add_reaction("v0", _v0, args=["kin"], stoichiometry={"S": 1.0})
    m.add_reaction("v1", _v1, args=["S", "k1"], stoichiometry={"S": -1.0, "P": 1.0})
    m.add_reaction("v2", _v2, args=["P", "k2"], stoichiometry={"P": -1.0})
    m.add_reaction("v3", _v3, args=["S", "k3"], stoichiometry={"Q": 1.0})
    return m


def exact(state, p, dt):
    """Closed-form solution after elapsed time(s) dt from `state` under parameters p
    (requires k1 > 0, k2 > 0, k1 != k2)."""
    dt = np.asarray(dt, dtype=float)
    kin, k1, k2, k3 = p["kin"], p["k1"], p["k2"], p["k3"]
    s0, p0, q0 = state["S"], state["P"], state["Q"]
    sinf = kin / k1
    d = s0 - sinf
    e1 = np.exp(-k1 * dt)
    e2 = np.exp(-k2 * dt)
    a = k1 * d / (k2 - k1)
    return {
        "S": sinf + d * e1,
        "P": kin / k2 + a * e1 + (p0 - kin / k2 - a) * e2,
        "Q": q0 + k3 * (sinf * dt + d * (-np.expm1(-k1 * dt)) / k1),
    }


def exact_fluxes(state_frame, p):
    """Fluxes as functions of recorded states and a parameter map (definition of the model)."""
    return {
        "v0": np.full(len(state_frame), p["kin"], dtype=float),
        "v1": p["k1"] * state_frame["S"].to_numpy(),
        "v2": p["k2"] * state_frame["P"].to_numpy(),
        "v3": p["k3"] * state_frame["S"].to_numpy(),
    }


def selfcheck_oracle() -> float:
    """The closed form is itself checked against the matrix exponential of the linear
    system (scipy.linalg.expm; no mxlpy involved).  Returns the max deviation."""
    from scipy.linalg import expm

    worst = 0.0
    for p in (P0, {"kin": 1.5, "k1": 4.0, "k2": 0.25, "k3": 2.0}, {"kin": 0.5, "k1": 0.5, "k2": 3.0, "k3": 0.0}):
        m = np.array(
            [[-p["k1"], 0, 0, p["kin"]], [p["k1"], -p["k2"], 0, 0], [p["k3"], 0, 0, 0], [0, 0, 0, 0]], dtype=float
        )
        for st in (Y0, {"S": 0.25, "P": 3.0, "Q": 1.0}):
            z0 = np.array([st["S"], st["P"], st["Q"], 1.0])
            for dt in (0.0, 2.0**-20, 0.37, 1.0, 5.5):
                want = expm(m * dt) @ z0
                got = exact(st, p, dt)
                for i, v in enumerate(VARS):
                    worst = max(worst, abs(float(got[v]) - want[i]) / (1 + abs(want[i])))
    if worst > 1e-11:
        raise CheckerError(f"C04 oracle self-check failed: closed form deviates from expm by {worst:g}")
    return worst


# ---------------------------------------------------------------------------
# run-time contract attached to the real Simulator

_EVALS = {"n": 0}
_ATTACHED = {"on": False, "orig": {}}
_CONTRACT_METHODS = (
    "simulate",
    "simulate_time_course",
    "simulate_to_steady_state",
    "simulate_protocol",
    "simulate_protocol_time_course",
    "update_variables",
    "clear_results",
)


def inv_s(sim) -> bool:
    """Observable part of Inv_S: one parameter map per segment; accumulated absolute
    time axis strictly increasing."""
    _EVALS["n"] += 1
    v, p = sim.variables, sim.simulation_parameters
    if v is None:
        return p is None
    if p is None or len(p) != len(v):
        return False
    t = np.concatenate([np.asarray(d.index, dtype=float) for d in v])
    return bool(np.all(np.diff(t) > 0))


def _inv_error(self):
    import icontract

    t = [] if self.variables is None else [float(x) for d in self.variables for x in d.index]
    return icontract.ViolationError(f"Inv_S violated (accumulated time axis strictly increasing, one parameter map per segment): axis {_fmt(t, 12)}")


def attach_contract() -> None:
    if _ATTACHED["on"]:
        return
    import icontract

    from mxlpy.simulator import Simulator

    for name in _CONTRACT_METHODS:
        orig = getattr(Simulator, name)
        _ATTACHED["orig"][name] = orig
        setattr(Simulator, name, icontract.ensure(lambda self: inv_s(self), error=_inv_error)(orig))
    _ATTACHED["on"] = True


def detach_contract() -> None:
    if not _ATTACHED["on"]:
        return
    from mxlpy.simulator import Simulator

    for name, orig in _ATTACHED["orig"].items():
        setattr(Simulator, name, orig)
    _ATTACHED["orig"].clear()
    _ATTACHED["on"] = False


def quiet() -> None:
    logging.getLogger("mxlpy").setLevel(logging.CRITICAL)
    logging.getLogger("mxlpy.simulator").setLevel(logging.CRITICAL)
    warnings.simplefilter("ignore")


# ---------------------------------------------------------------------------
# oracle


class Oracle:
    """What the property says a simulator's history amounts to.  Independent of the
    simulator's code; only the time of a steady-state row is read from the simulator
    (the property does not fix it) and checked to be later than the time reached."""

    def __init__(self, y0, params):
        self.y0 = dict(y0)  # start state of a fresh simulator; None = unspecified (after clear_results)
        self.params = dict(params)
        self.reached = None
        self.segs: list[dict] = []
        self.pending: dict = {}  # overrides since the last simulation
        self.n_override_calls = 0
        self.shifted = False
        self.stale_ss = False
        self.par_since_sim = False
        self.peeked = False
        self.ever_restarted = False

    @property
    def r(self) -> float:
        return 0.0 if self.reached is None else self.reached

    def context(self) -> str:
        parts = ["fresh" if self.reached is None else "continued"]
        if self.shifted:
            parts.append("shifted")
        if self.stale_ss:
            parts.append("after-steady-state")
        if self.n_override_calls >= 2:
            parts.append("multi-override")
        if self.peeked:
            parts.append("peeked")
        return "+".join(parts)

    # -- non-simulating operations
    def update_parameters(self, d):
        self.params.update(d)
        self.par_since_sim = True

    def override(self, d):
        self.n_override_calls += 1
        if self.reached is None and self.y0 is not None:
            # before the first simulation an override changes the initial state itself
            # (it is still there after clear_results)
            self.y0.update(d)
            return
        self.pending.update(d)
        if self.reached is not None:
            self.shifted = True
            self.stale_ss = False
            self.ever_restarted = True

    def clear(self):
        self.reached = None
        self.segs = []
        if self.ever_restarted:
            # The property does not say which state a cleared simulator restarts from once
            # the simulator was restarted by an override / steady-state run (the library
            # restarts from the state it was last restarted from): unspecified.
            self.y0 = None
            self.pending = {}
        self.n_override_calls = 0
        self.shifted = False
        self.stale_ss = False

    def peek(self):
        if self.par_since_sim and self.segs:
            self.peeked = True

    # -- simulating operations: expected refusal and expected new segment
    def refuses(self, end: float) -> bool:
        return end <= self.r

    def _push(self, times, kind):
        first = not self.segs
        self.segs.append(
            {
                "times": np.asarray(times, dtype=float),
                "params": dict(self.params),
                "t_start": self.r,
                "first": first,
                "y0": None if not first else (None if self.y0 is None else dict(self.y0)),
                "overrides": dict(self.pending),
                "kind": kind,
            }
        )
        self.reached = float(times[-1])
        self.pending = {}
        self.n_override_calls = 0
        self.par_since_sim = False
        self.peeked = False

    def simulate(self, t_end, steps):
        n = 100 if steps is None else steps + 1
        t = np.linspace(self.r, t_end, n)
        self._push(t if not self.segs else t[1:], "simulate")

    def time_course(self, pts):
        pts = np.asarray(pts, dtype=float)
        later = pts[pts > self.r]
        self._push(np.concatenate([[self.r], later]) if not self.segs else later, "time_course")

    def steady_state(self, t_obs):
        self._push([t_obs], "steady_state")
        self.stale_ss = True
        self.ever_restarted = True


# ---------------------------------------------------------------------------
# comparing the real simulator with the oracle


class Stop(Exception):
    def __init__(self, clause, what, detail=None):
        super().__init__(what)
        self.clause, self.what, self.detail = clause, what, detail or {}


def _fmt(a, n=8):
    a = [float(x) for x in np.asarray(a, dtype=float).ravel()]
    if len(a) > n:
        return "[" + ", ".join(f"{x:.10g}" for x in a[: n // 2]) + ", ..., " + ", ".join(f"{x:.10g}" for x in a[-n // 2 :]) + f"] ({len(a)} points)"
    return "[" + ", ".join(f"{x:.10g}" for x in a) + "]"


def compare(sim, orc: Oracle, checked: int, stats: dict, tol_state: float = TOL_STATE) -> int:
    """Compare the real simulator with the oracle's segments [checked:].  Returns the new
    number of checked segments; raises Stop on the first violated clause.  How the
    simulator splits its rows into frames is an implementation detail: rows are matched
    to the oracle's segments by position on the accumulated time axis."""
    import pandas as pd

    v, pars = sim.variables, sim.simulation_parameters
    if not orc.segs:
        if v is not None and sum(len(d) for d in v) > 0:
            raise Stop("unexpected-time-point", f"{sum(len(d) for d in v)} result row(s) although nothing was simulated")
        return 0
    if len(getattr(sim, "_errors", [])) > 0:
        raise Stop("integration-failed", f"integration failed: {sim._errors[0]!r}")
    want_all = np.concatenate([s["times"] for s in orc.segs])
    if v is None:
        raise Stop("requested-point-missing", f"no results although {_fmt(want_all)} were simulated")
    t_all = np.concatenate([np.asarray(d.index, dtype=float) for d in v])
    if not np.all(np.diff(t_all) > 0):
        i = int(np.argmax(np.diff(t_all) <= 0))
        raise Stop("time-axis-not-increasing", f"accumulated time axis not strictly increasing: ... {t_all[i]:.10g}, {t_all[i + 1]:.10g} ...",
                   {"axis": _fmt(t_all, 12)})
    if pars is None or len(pars) != len(v):
        raise Stop("raw-parameters", "number of recorded parameter maps differs from number of result frames")
    offs = np.concatenate([[0], np.cumsum([len(s["times"]) for s in orc.segs])]).astype(int)

    def seg_of(t):
        for i, s_ in enumerate(orc.segs):
            if np.any(np.abs(s_["times"] - t) <= TOL_TIME):
                return i
        return None

    missing = [float(t) for t in want_all if not np.any(np.abs(t_all - t) <= TOL_TIME)]
    if missing:
        i = seg_of(missing[0])
        raise Stop("requested-point-missing",
                   f"segment {i}: requested time point(s) {_fmt(missing)} later than the time reached ({orc.segs[i]['t_start']:.10g}) are not in the result",
                   {"got": _fmt(t_all, 16), "want": _fmt(want_all, 16)})
    extra = [float(t) for t in t_all if not np.any(np.abs(want_all - t) <= TOL_TIME)]
    if extra or len(t_all) != len(want_all):
        raise Stop("unexpected-time-point", f"time points {_fmt(extra or t_all)} were not requested / occur more than once",
                   {"got": _fmt(t_all, 16), "want": _fmt(want_all, 16)})
    flat = pd.concat(v, axis=0)
    row_pars = [pars[j] for j, d in enumerate(v) for _ in range(len(d))]
    for i in range(checked, len(orc.segs)):
        seg = orc.segs[i]
        lo, hi = int(offs[i]), int(offs[i + 1])
        df = flat.iloc[lo:hi]
        got_t = t_all[lo:hi]
        want_t = seg["times"]
        # parameters
        for k in range(lo, hi):
            got_p = {n: float(x) for n, x in row_pars[k].items()}
            if got_p != seg["params"]:
                raise Stop("raw-parameters", f"segment {i}: parameters recorded for t={t_all[k]:.10g} are {got_p}, in force were {seg['params']}")
        # states
        start = None
        if not seg["first"]:
            start = {n: float(x) for n, x in flat.iloc[lo - 1].to_dict().items()} | seg["overrides"]
        elif seg["y0"] is not None:
            start = seg["y0"] | seg["overrides"]
        elif seg["kind"] != "steady_state":
            row0 = {n: float(x) for n, x in df.iloc[0].to_dict().items()}
            bad = {n: (row0[n], val) for n, val in seg["overrides"].items() if abs(row0[n] - val) > 1e-12}
            if bad:
                raise Stop("state-mismatch", f"segment {i}: override not applied to the start row: {bad}")
            start = row0
        if start is not None:
            want = exact(start, seg["params"], want_t - seg["t_start"])
            tol = TOL_SS if seg["kind"] == "steady_state" else tol_state
            for name in VARS:
                err = np.abs(df[name].to_numpy() - want[name]) / (1 + np.abs(want[name]))
                j = int(np.argmax(err))
                if err[j] > tol:
                    raise Stop("state-mismatch",
                               f"segment {i} ({seg['kind']}): {name}({got_t[j]:.10g}) = {df[name].to_numpy()[j]:.10g}, closed form from the previous final state"
                               f"{' with overrides ' + str(seg['overrides']) if seg['overrides'] else ''} under {seg['params']} gives {float(want[name][j]):.10g}",
                               {"start": start, "t_start": seg["t_start"], "rel_err": float(err[j])})
                key = "max_err_ss" if seg["kind"] == "steady_state" else "max_err"
                stats[key] = max(stats[key], float(err[j]))
            stats["segments_checked"] += 1
    return len(orc.segs)


# ---------------------------------------------------------------------------
# operations (json-able descriptors; times are `mul*reached + rel` or absolute)


def _t(op, key, r):
    if key + "_abs" in op:
        return op[key + "_abs"]
    rel = op[key + "_rel"]
    mul = op.get("mul", 1.0)
    if isinstance(rel, list):
        return [mul * r + x for x in rel]
    return mul * r + rel


def protocol_frame(steps):
    from mxlpy import make_protocol

    return make_protocol([(d, dict(p)) for d, p in steps])


def apply_op(sim, orc: Oracle, op: dict, calls: list[str]) -> None:
    """Concretise `op` at the oracle's reached time, call the real simulator, check the
    refusal clause and update the oracle."""
    kind = op["op"]
    r = orc.r

    def guarded(call, end, text):
        calls.append(text)
        want_refused = orc.refuses(end)
        try:
            call()
        except ValueError as e:
            if not want_refused:
                raise Stop("wrongly-refused", f"{text} refused ({e}) although its end {end:.10g} is later than the time reached {r:.10g}") from None
            return False
        if want_refused:
            raise Stop("not-refused", f"{text} accepted although its end {end:.10g} is not later than the time reached {r:.10g}")
        return True

    if kind == "simulate":
        t_end, steps = _t(op, "t", r), op.get("steps")
        if guarded(lambda: sim.simulate(t_end, steps=steps), t_end, f"simulate({t_end!r}, steps={steps})"):
            orc.simulate(t_end, steps)
    elif kind == "time_course":
        pts = _t(op, "pts", r)
        if guarded(lambda: sim.simulate_time_course(list(pts)), pts[-1], f"simulate_time_course({pts!r})"):
            orc.time_course(pts)
    elif kind == "update_parameter":
        calls.append(f"update_parameter({op['name']!r}, {op['value']!r})")
        sim.update_parameter(op["name"], op["value"])
        orc.update_parameters({op["name"]: op["value"]})
    elif kind == "update_variable":
        calls.append(f"update_variable({op['name']!r}, {op['value']!r})")
        sim.update_variable(op["name"], op["value"])
        orc.override({op["name"]: op["value"]})
    elif kind == "update_variables":
        calls.append(f"update_variables({op['values']!r})")
        sim.update_variables(dict(op["values"]))
        orc.override(dict(op["values"]))
    elif kind == "steady_state":
        calls.append("simulate_to_steady_state()")
        n_before = 0 if sim.variables is None else sum(len(d) for d in sim.variables)
        sim.simulate_to_steady_state()
        if sim.variables is None or sum(len(d) for d in sim.variables) != n_before + 1:
            raise Stop("no-steady-state", "simulate_to_steady_state() did not add exactly one result row on a model whose every trajectory converges",
                       {"errors": repr(getattr(sim, "_errors", None))})
        t_obs = float(sim.variables[-1].index[-1])
        if not t_obs > r:
            orc.steady_state(t_obs)
            raise Stop("time-axis-not-increasing", f"steady-state row is reported at t={t_obs:.10g}, not later than the time reached {r:.10g}")
        orc.steady_state(t_obs)
    elif kind == "clear_results":
        calls.append("clear_results()")
        sim.clear_results()
        orc.clear()
    elif kind == "peek":
        calls.append("get_result() -> .variables")
        res = sim.get_result()
        if not isinstance(res.value, Exception):
            _ = res.value.variables
        orc.peek()
    elif kind == "protocol":
        steps, tpps = op["steps"], op.get("tpps", 10)
        text = f"simulate_protocol(make_protocol({steps!r}), time_points_per_step={tpps})"
        if guarded(lambda: sim.simulate_protocol(protocol_frame(steps), time_points_per_step=tpps), r + sum(d for d, _ in steps), text):
            cum = r
            for d, p in steps:
                cum = cum + d
                orc.update_parameters(p)
                orc.simulate(cum, tpps)
    elif kind == "protocol_time_course":
        steps, relative = op["steps"], bool(op.get("relative", False))
        if relative:
            given = list(op["pts_given"])
            pts_abs = [r + x for x in given]
        else:
            given = _t(op, "pts", r)
            pts_abs = list(given)
        text = f"simulate_protocol_time_course(make_protocol({steps!r}), {given!r}, time_points_as_relative={relative})"
        if guarded(lambda: sim.simulate_protocol_time_course(protocol_frame(steps), list(given), time_points_as_relative=relative), pts_abs[-1], text):
            cum, lo = r, r
            bounds = []
            for d, _p in steps:
                cum = cum + d
                bounds.append(cum)
            grid = sorted(set(pts_abs) | set(bounds))
            for (d, p), hi in zip(steps, bounds):
                orc.update_parameters(p)
                orc.time_course([t for t in grid if lo < t <= hi])
                lo = hi
    else:  # pragma: no cover
        raise CheckerError(f"unknown op {kind}")


def run_history(ops: list[dict], y0=None, params=None, tol_state: float = TOL_STATE) -> dict:
    """Run one history on the real Simulator in lock-step with the oracle."""
    import icontract

    from mxlpy import Simulator

    y0 = dict(Y0 if y0 is None else y0)
    params = dict(P0 if params is None else params)
    evals0 = _EVALS["n"]
    sim = Simulator(build_model(params, y0))
    orc = Oracle(y0, params)
    calls: list[str] = []
    stats = {"max_err": 0.0, "max_err_ss": 0.0, "segments_checked": 0}
    checked = 0
    failure = None
    refused = 0
    for i, op in enumerate(ops):
        ctx_s = orc.context()
        n_calls = len(calls)
        try:
            n_seg = len(orc.segs)
            apply_op(sim, orc, op, calls)
            if len(orc.segs) == n_seg and op["op"] in ("simulate", "time_course", "protocol_time_course"):
                refused += 1
            if len(orc.segs) < checked:
                checked = 0
            checked = compare(sim, orc, checked, stats, tol_state)
        except Stop as e:
            failure = {"clause": e.clause, "what": e.what, "detail": e.detail}
        except icontract.ViolationError as e:
            failure = {"clause": "time-axis-not-increasing", "what": "run-time contract Inv_S violated: " + str(e).splitlines()[0], "detail": {}}
        except Exception as e:  # noqa: BLE001
            failure = {"clause": f"unexpected-{type(e).__name__}", "what": f"{type(e).__name__}: {e}", "detail": {}}
        if failure:
            if len(calls) == n_calls:
                calls.append(repr(op))
            failure.update(op_index=i, op=op["op"], context=ctx_s)
            break
    return {
        "failure": failure,
        "calls": calls,
        "segments": len(orc.segs),
        "refused": refused,
        "stats": stats,
        "evals": _EVALS["n"] - evals0,
    }


# ---------------------------------------------------------------------------
# the enumerated scope

_PROTO = [[1.0, {"k1": 2.0, "k2": 3.0}], [0.5, {"k1": 0.5, "k2": 3.0}]]

ALPHABET: list[dict] = [
    {"op": "simulate", "t_rel": 2.0, "steps": 4},
    {"op": "simulate", "t_rel": 0.5, "steps": None},
    {"op": "simulate", "t_rel": 0.0, "steps": 2},  # illegal: end == time reached
    {"op": "simulate", "t_rel": -0.5, "steps": 2},  # illegal: end earlier
    {"op": "simulate", "t_abs": 3.0, "steps": 3},  # legal or illegal depending on the history
    {"op": "time_course", "pts_rel": [2.0**-20, 0.5, 1.5]},  # first point barely later than reached
    {"op": "time_course", "pts_rel": [-1.0, 0.0, 1.0]},  # overlaps the past, contains the reached time
    {"op": "time_course", "pts_rel": [0.5, 1.0, 4.0]},
    {"op": "time_course", "pts_rel": [-0.5, 0.0]},  # illegal
    {"op": "time_course", "pts_abs": [1.0, 2.0, 4.0]},
    {"op": "update_parameter", "name": "k1", "value": 0.5},
    {"op": "update_parameter", "name": "k3", "value": 2.0},
    {"op": "update_variable", "name": "S", "value": 2.0},
    {"op": "update_variable", "name": "P", "value": 3.0},
    {"op": "update_variables", "values": {"S": 0.25, "Q": 1.0}},
    {"op": "steady_state"},
    {"op": "clear_results"},
    {"op": "peek"},
    {"op": "protocol", "steps": _PROTO, "tpps": 3},
    {"op": "protocol_time_course", "steps": _PROTO, "pts_rel": [0.25, 1.0, 1.25, 5.0], "relative": False},
    {"op": "protocol_time_course", "steps": _PROTO, "pts_given": [0.5, 1.75], "relative": True},
    {"op": "protocol_time_course", "steps": _PROTO, "pts_rel": [-1.0, 0.0], "relative": False},  # illegal
]


def _chains(k_values, rich: bool):
    """Longer structured histories X (O X)^k: repeated overrides between simulations,
    with ordinary (r + 1) and fast-growing (3 r + 1) end times."""
    xs = [
        {"op": "simulate", "t_rel": 1.0, "steps": 2},
        {"op": "simulate", "t_rel": 1.0, "mul": 3.0, "steps": 2},
        {"op": "time_course", "pts_rel": [0.25, 1.0]},
        {"op": "time_course", "pts_rel": [0.25, 1.0], "mul": 3.0},
    ]
    if rich:
        xs += [
            {"op": "protocol", "steps": _PROTO, "tpps": 2},
            {"op": "protocol_time_course", "steps": _PROTO, "pts_rel": [0.25, 1.25], "relative": False},
            {"op": "steady_state"},
        ]
    os_ = [
        [{"op": "update_variable", "name": "S", "value": 2.0}],
        [{"op": "update_parameter", "name": "k1", "value": 0.5}, {"op": "update_variables", "values": {"S": 0.25, "Q": 1.0}}],
        [{"op": "update_variable", "name": "S", "value": 2.0}, {"op": "update_variable", "name": "P", "value": 3.0}],
        [{"op": "update_parameter", "name": "k3", "value": 2.0}, {"op": "peek"}],
    ]
    out = []
    for k in k_values:
        for x_seq in itertools.product(range(len(xs)), repeat=k + 1):
            for o_seq in itertools.product(range(len(os_)), repeat=k):
                h = [xs[x_seq[0]]]
                for j in range(k):
                    h += os_[o_seq[j]] + [xs[x_seq[j + 1]]]
                out.append(h)
    return out


def histories(tier: str, rng: random.Random) -> tuple[list[list[dict]], str, bool]:
    a = ALPHABET
    hs: list[list[dict]] = []
    max_len = 3 if tier == "quick" else 4
    exhaustive = True
    for n in range(1, 4):
        hs += [list(h) for h in itertools.product(a, repeat=n)]
    note = f"all histories of length 1..3 over {len(a)} operations"
    if max_len == 4:
        cap = int(os.environ.get("VERIF_C04_LEN4", "120000"))
        idx = list(itertools.product(range(len(a)), repeat=4))
        if len(idx) > cap:
            rng.shuffle(idx)
            idx = idx[:cap]
            exhaustive = False
            note += f" + random sample of {cap} of the {len(a) ** 4} histories of length 4"
        else:
            note += " + all histories of length 4"
        hs += [[a[i] for i in t] for t in idx]
    ch = _chains((1, 2), rich=False) if tier == "quick" else _chains((1, 2), rich=True) + _chains((3,), rich=False)
    note += f" + {len(ch)} chains X (O X)^k, k=1..{2 if tier == 'quick' else 3}, O = override(s) / parameter+override / parameter+peek, ordinary and fast-growing end times"
    hs += ch
    return hs, note, exhaustive


# ---------------------------------------------------------------------------
# driver


def _work(chunk):
    quiet()
    out = []
    for hid, h in chunk:
        r = run_history(h)
        r["id"] = hid
        if r["failure"] is None:
            r["calls"] = None  # keep the pickles small
        out.append(r)
    return out


def run_pool(items, worker, n_workers=None):
    """Run `worker` over chunks of `items` in forked processes (mxlpy already imported,
    contract already attached); serial fallback."""
    n_workers = n_workers or min(16, os.cpu_count() or 1)
    if len(items) < 200 or n_workers <= 1:
        return worker(items)
    size = max(20, len(items) // (n_workers * 8))
    chunks = [items[i : i + size] for i in range(0, len(items), size)]
    try:
        mp = multiprocessing.get_context("fork")
        with ProcessPoolExecutor(max_workers=n_workers, mp_context=mp) as ex:
            return [r for part in ex.map(worker, chunks) for r in part]
    except (OSError, ValueError):  # pragma: no cover
        return worker(items)


def key_of(f: dict) -> str:
    return f"bounded:{f['clause']}:{f['op']}:{f['context']}"


def run(ctx: Ctx) -> None:
    import mxlpy  # noqa: F401  (import before forking)

    quiet()
    dev = selfcheck_oracle()
    attach_contract()
    try:
        rng = random.Random(seed())
        hs, note, exhaustive = histories(ctx.tier, rng)
        items = list(enumerate(hs))
        results = run_pool(items, _work)
    finally:
        detach_contract()

    cases = len(results)
    nontrivial = sum(1 for r in results if r["segments"] > 0 or r["refused"] > 0)
    evals = sum(r["evals"] for r in results)
    if evals < cases:
        raise CheckerError(f"C04: run-time contract evaluated {evals} times over {cases} histories: wrapper bypassed")
    max_err = max(r["stats"]["max_err"] for r in results)
    max_err_ss = max(r["stats"]["max_err_ss"] for r in results)
    seg_checked = sum(r["stats"]["segments_checked"] for r in results)

    # one failure per key; the shortest witness first
    seen: dict[str, dict] = {}
    n_fail = 0
    for r in sorted(results, key=lambda r: (len(hs[r["id"]]), r["id"])):
        f = r["failure"]
        if not f:
            continue
        n_fail += 1
        k = key_of(f)
        if k not in seen:
            seen[k] = r
    for k, r in seen.items():
        f = r["failure"]
        # replay natively once more (fresh model, same process) before reporting
        attach_contract()
        try:
            again = run_history(hs[r["id"]])
        finally:
            detach_contract()
        replayed = again["failure"] is not None and key_of(again["failure"]) == k
        ctx.fail(key=k, kind="bounded", what=f"{f['what']}  [history: {'; '.join(r['calls'])}]",
                 witness={"model": "S,P,Q chain (bounded/C04.py build_model)", "y0": Y0, "parameters": P0, "history": hs[r["id"]], "calls": r["calls"]},
                 replayed=replayed, detail=f["detail"] | {"failing_histories_total": n_fail})

    samples = []
    for r in results:
        if r["failure"] is None and r["segments"] >= 3 and len(samples) < 3:
            samples.append({"history": hs[r["id"]], "segments": r["segments"], "max_rel_err": r["stats"]["max_err"]})
    ctx.add_bounded(
        name="C04-histories",
        tool="small-scope enumeration; lock-step closed-form oracle + icontract post-condition on the real Simulator",
        bound=note + "; model S,P,Q (closed form), Scipy/LSODA integrator",
        cases=cases,
        distinct_nontrivial=nontrivial,
        rule="one case per distinct operation sequence (descriptor tuples; times relative to the reached time or absolute); "
             "non-trivial if at least one segment was simulated or one continuation was refused",
        exhaustive=exhaustive and ctx.tier == "quick",
        samples=samples,
    )
    ctx.extra["C04"] = {
        "segments_checked_against_closed_form": seg_checked,
        "contract_evaluations": evals,
        "max_rel_state_error_observed": max_err,
        "max_rel_state_error_observed_steady_state_rows": max_err_ss,
        "state_tolerance": TOL_STATE,
        "oracle_vs_expm_max_dev": dev,
        "failing_histories": n_fail,
    }
    ctx.trust(
        "scipy.integrate.solve_ivp(LSODA, rtol=atol=1e-8) returns the ODE solution at t_eval to tolerance",
        "numpy.exp/expm1, numpy.linspace, pandas index/iloc",
        "icontract.ensure evaluates the post-condition after every wrapped call",
    )
    ctx.assume(
        f"state tolerance {TOL_STATE:g}*(1+|y|) per segment = 50x the integrator's local tolerance (rtol=atol=1e-8); the largest deviation "
        f"observed on passing segments in this run was {max_err:.2e}; every segment is compared with the closed form restarted from the "
        "previous recorded final row, so errors do not accumulate over a history",
        f"steady-state rows: tolerance {TOL_SS:g} (spi.ode lsoda default rtol=1e-6), observed {max_err_ss:.2e}; the time of a steady-state row is "
        "not fixed by the property, only required to be later than the time reached",
        "requested time arrays are strictly increasing (unsorted/duplicated arrays are rejected by scipy and outside the scope); steps >= 1",
        "requested times are dyadic rationals so that shift arithmetic is exact; time match tolerance 1e-9",
        "the state a simulator restarts from after clear_results is not specified by the property: the first row after a clear is taken "
        "as given (overrides made after the clear must show in it)",
        "reading result views between operations ('peek') counts as an operation of a history",
    )


def replay(witness: dict) -> dict | None:
    """Re-run a recorded witness ({"history": [...]}) on the current tree; returns the
    failure (with its key) or None if the property holds for it."""
    import mxlpy  # noqa: F401

    quiet()
    attach_contract()
    try:
        r = run_history(witness["history"], y0=witness.get("y0"), params=witness.get("parameters"))
    finally:
        detach_contract()
    if r["failure"] is None:
        return None
    return r["failure"] | {"key": key_of(r["failure"]), "calls": r["calls"]}


if __name__ == "__main__":  # python -m bounded.C04 replays/C04-<hash>.json
    import json
    import sys

    w = json.load(open(sys.argv[1]))
    out = replay(w.get("witness", w))
    print(json.dumps(out, indent=1, default=str))
    sys.exit(1 if out else 0)
