"""Bounded stand-in for C06 (labelled bounded, never counted as proved).

Contract of DESIGN section 5 / C06, checked at run time on the REAL
`mxlpy.meta.source_tools.fn_to_sympy`:

    result is None (or the call raises: both are visible refusals), OR
    for every valuation sigma of the model names and args_i = sigma[model_name_i]:
        f(*args) defined (returns a finite real)  ==>  value(result, sigma) == f(*args)

for function bodies enumerated over a small grammar.  Every body is written as real
Python source into a module file of a per-run temporary package (so that
`inspect.getsource` is what the translator really uses), imported, translated by the
real translator and compared with *the Python function itself* (the oracle is CPython
executing the very same source) on a grid.

Parts
  E1  leaf level: every expression / condition of a fixed leaf set (==, !=, chains,
      IfExp, calls into helper functions of the same module, of imported modules and of
      a sub-package with positional and keyword arguments, table functions, named
      constants, names equal to module level floats, things just outside the subset)
      in a few statement contexts x ALL renamings of the model arguments.
  E2  statement level: EVERY statement skeleton up to a size bound (assign,
      reassign of a parameter, tuple assign, return, one statement just outside the
      subset, if/elif/else nested <= 2 with any of these in any branch, code after an
      if, chains without else) x a few seeded fillings of the expression slots
      x renamings.
  E3  the KNOWN_FNS / KNOWN_CONSTANTS tables entry by entry: `fn(<literals>)` and
      `fn(<arguments>)` through the real translator against the Python function, plus
      (informational only) the direct meaning of the table target.

Grid: a lattice of dyadic values per argument (all comparisons of sums/differences/
products of them are exact in binary floating point), every lattice point +/- eps in
every coordinate (eps = 2**-20, exact), and -- found by instrumenting a twin of the
function so that every `if`/`elif`/IfExp test reports its outcome -- the two sides of
every change of branch path between neighbouring lattice points (bisection).  Python is
evaluated on the whole grid; the sympy expression is evaluated *symbolically*
(xreplace by Floats + evalf) on a core lattice, on every point whose path or value
jumps against a neighbour and on the bisected sides, and through `lambdify` on the whole
grid; a point nominated by lambdify is only reported after the symbolic evaluation
confirmed it.
"""
from __future__ import annotations

import ast
import hashlib
import importlib
import itertools
import json
import math
import multiprocessing as mp
import os
import random
import shutil
import sys
import tempfile
import time
from concurrent.futures import ProcessPoolExecutor

from vlib.core import CheckerError, Ctx, seed

EPS = 2.0**-20
RTOL = 1e-9

# ---------------------------------------------------------------------------
# the temporary package: helper modules + generated modules

HELPER_SRC = '''\
"""helper module of the C06 stand-in (imported by the generated modules)"""
import math

K2 = 4.0


def sub(x, y):
    return x - y


def ba(b, a):
    return a - 2.0 * b


def pick(x, y):
    if x > y:
        return x
    return y * 2.0


def scaled(x):
    return x * K2


def chain(x, y):
    return sub(y, x) * 0.5


def dflt(x, y=2.0):
    return x * y


def asg(x, y):
    z = x - y
    w = z * y
    return w - x
'''

PKG_INIT_SRC = '''\
from . import sub

P0 = 1.25
'''

PKG_SUB_SRC = '''\
C3 = 0.75


def twice(x):
    return 2.0 * x


def ratio(x, y):
    return x / y
'''

HEADER_SRC = '''\
import math
from math import exp, pi

import numpy as np

import c06h
import c06pkg.sub
from c06h import K2
from c06h import sub as hsub
from c06pkg import sub as sb

K = 2.5
t = 3.25
N = 3


def loc(x, y):
    return x - y * K


def locab(b, a):
    return a / b


def locbr(x, y):
    if x >= y:
        z = x - y
    else:
        z = y
    return z


def loc3(c, a, b):
    return a - b * 2.0 + c * 4.0

'''


def make_package() -> str:
    d = tempfile.mkdtemp(prefix="c06_")
    with open(os.path.join(d, "c06h.py"), "w") as f:
        f.write(HELPER_SRC)
    os.mkdir(os.path.join(d, "c06pkg"))
    with open(os.path.join(d, "c06pkg", "__init__.py"), "w") as f:
        f.write(PKG_INIT_SRC)
    with open(os.path.join(d, "c06pkg", "sub.py"), "w") as f:
        f.write(PKG_SUB_SRC)
    return d


def fn_source(name: str, params: tuple, body: list[str]) -> str:
    return f"def {name}({', '.join(params)}):\n" + "".join(f"    {ln}\n" for ln in body) + "\n\n"


def load_module(pkgdir: str, modname: str, fns: list[tuple]):
    """fns: [(name, params, body_lines)].  Writes a real file and imports it."""
    if pkgdir not in sys.path:
        sys.path.insert(0, pkgdir)
    path = os.path.join(pkgdir, modname + ".py")
    with open(path, "w") as f:
        f.write(HEADER_SRC)
        for name, params, body in fns:
            f.write(fn_source(name, params, body))
    importlib.invalidate_caches()
    sys.modules.pop(modname, None)
    return importlib.import_module(modname)


# ---------------------------------------------------------------------------
# evaluation of both sides


def py_eval(fn, args):
    """The value of the Python function where it is defined (finite real), else None."""
    import numpy as np

    try:
        v = fn(*args)
    except Exception:  # noqa: BLE001   (ZeroDivisionError, ValueError, UnboundLocalError, OverflowError, TypeError ...)
        return None
    if isinstance(v, (bool, np.bool_)):
        return float(bool(v))
    if isinstance(v, (int, float, np.floating, np.integer)):
        v = float(v)
        return v if math.isfinite(v) else None
    return None


class _Undef(Exception):
    pass


def _ev(e, rep):
    """value of a sympy expression under a numeric valuation; Piecewise is evaluated lazily
    (conditions first, only the selected piece), everything else by rebuilding the node on
    evaluated arguments (sympy's constructors evaluate on Floats)."""
    import sympy

    if isinstance(e, sympy.Piecewise):
        for x, c in e.args:
            cv = _ev(c, rep)
            if cv is sympy.true:
                return _ev(x, rep)
            if cv is not sympy.false:
                raise _Undef(f"condition {cv} is not decided")
        return sympy.nan
    if isinstance(e, sympy.Symbol):
        return rep.get(e, e)
    if not e.args:
        return e
    return e.func(*[_ev(x, rep) for x in e.args])


def sym_eval(expr, sigma: dict):
    """('num', float) | ('undef', text) | ('free', [names]) | ('notexpr', text)."""
    import sympy

    if isinstance(expr, (bool, int, float)):
        return ("num", float(expr))
    if not isinstance(expr, sympy.Basic):
        return ("notexpr", repr(expr)[:80])
    rep = {sympy.Symbol(n): sympy.Float(v) for n, v in sigma.items()}
    free = sorted(str(x) for x in expr.free_symbols if x not in rep)
    if free:
        return ("free", free)
    try:
        r = _ev(expr, rep)
        if r is sympy.true or r is sympy.false:
            return ("num", 1.0 if r is sympy.true else 0.0)
        if not isinstance(r, sympy.Float):
            r = r.evalf()
        if r.is_real and r.is_finite:
            return ("num", float(r))
        return ("undef", str(r)[:60])
    except Exception as e:  # noqa: BLE001
        return ("undef", f"{type(e).__name__}: {e}"[:80])


def close(p: float, s: float) -> bool:
    return abs(p - s) <= RTOL * max(1.0, abs(p), abs(s))


# ---------------------------------------------------------------------------
# grids

BV2 = (-1.5, 0.0, 0.5, 1.0, 2.0, 2.5, 3.0)
BV3 = (-1.5, 0.5, 1.0, 2.0)
CORE2 = (-1.5, 1.0, 2.0)


class _Rec(ast.NodeTransformer):
    """wrap every branch test of the function in __c06rec__(k, test)"""

    def __init__(self):
        self.k = 0

    def _wrap(self, test):
        self.k += 1
        return ast.Call(func=ast.Name(id="__c06rec__", ctx=ast.Load()), args=[ast.Constant(self.k), test], keywords=[])

    def visit_If(self, node):
        self.generic_visit(node)
        node.test = self._wrap(node.test)
        return node

    def visit_IfExp(self, node):
        self.generic_visit(node)
        node.test = self._wrap(node.test)
        return node


def path_twin(mod, name: str, src: str):
    """a twin of the function that also returns the outcomes of its branch tests"""
    tree = ast.parse(src)
    tree = ast.fix_missing_locations(_Rec().visit(tree))
    trace: list = []

    def rec(k, v):
        trace.append((k, bool(v)))
        return v

    g = dict(vars(mod))
    g["__c06rec__"] = rec
    exec(compile(tree, f"<twin {name}>", "exec"), g)  # noqa: S102
    twin = g[name]

    def run(args):
        trace.clear()
        try:
            twin(*args)
        except Exception:  # noqa: BLE001
            return (*trace, "raise")
        return tuple(trace)

    return run


def make_grid(fn, twin, n: int):
    """returns (all_points, selected_points): Python runs on all, sympy symbolically on selected"""
    bv = BV2 if n <= 2 else BV3
    lattice = list(itertools.product(bv, repeat=n))
    core = {p for p in lattice if all(v in CORE2 for v in p)} if n <= 2 else set(lattice[:: 5])
    allp = list(lattice)
    sel = set(core)
    val = {}
    pth = {}

    def look(p):
        if p not in val:
            val[p] = py_eval(fn, p)
            pth[p] = twin(p)
        return val[p], pth[p]

    def differ(p, q):
        vp, sp = look(p)
        vq, sq = look(q)
        if sp != sq or (vp is None) != (vq is None):
            return True
        return vp is not None and abs(vp - vq) > 1e-3 * max(1.0, abs(vp))

    for p in lattice:
        for i in range(n):
            for d in (-EPS, EPS):
                q = (*p[:i], p[i] + d, *p[i + 1 :])
                allp.append(q)
                if differ(p, q):
                    sel.add(p)
                    sel.add(q)
    # two sides of every change of path between axis neighbours of the lattice (bisection)
    for p in lattice:
        for i in range(n):
            j = bv.index(p[i])
            if j + 1 >= len(bv):
                continue
            q = (*p[:i], bv[j + 1], *p[i + 1 :])
            if look(p)[1] == look(q)[1]:
                continue
            lo, hi, sig = p, q, look(p)[1]
            for _ in range(44):
                mid = (*lo[:i], (lo[i] + hi[i]) / 2.0, *lo[i + 1 :])
                if mid in (lo, hi):
                    break
                if twin(mid) == sig:
                    lo = mid
                else:
                    hi = mid
            for r in (lo, hi):
                if r not in val:
                    allp.append(r)
                sel.add(r)
    for p in allp:
        if p not in val:
            val[p] = py_eval(fn, p)
    selected = sorted(sel)
    if len(selected) > 60:  # deterministic thinning, keeps the core
        keep = sorted(core)
        rest = [p for p in selected if p not in core]
        step = max(1, len(rest) // (60 - len(keep)))
        selected = sorted(set(keep) | set(rest[::step]))
    return allp, selected, val


# ---------------------------------------------------------------------------
# renamings of the model arguments

REN2 = (
    ("a", "b"), ("b", "a"), ("p", "q"), ("b", "p"), ("p", "a"), ("a", "a"), ("b", "b"), ("p", "p"),
    ("x", "y"), ("y", "x"), ("t", "u"), ("K", "t"), ("b", "x"),
)
REN2_FEW = (("b", "a"), ("p", "q"), ("b", "p"), ("a", "a"))
REN3 = (
    *itertools.permutations(("a", "b", "c")),
    ("p", "q", "r"), ("b", "c", "p"), ("c", "p", "a"), ("p", "a", "b"), ("a", "a", "b"), ("b", "b", "b"), ("c", "x", "a"), ("x", "y", "t"),
)
REN3_FEW = (("b", "c", "a"), ("c", "a", "b"), ("b", "a", "c"), ("p", "q", "r"), ("b", "c", "p"))
REN1 = (("a",), ("p",), ("x",), ("t",))


def renamings(n: int, full: bool):
    if n == 1:
        return REN1 if full else REN1[1:2]
    if n == 2:
        return REN2 if full else REN2_FEW
    return REN3 if full else REN3_FEW


# ---------------------------------------------------------------------------
# the contract on one function


def translate(st, fn, model_names):
    """real fn_to_sympy; returns ('expr', e) | ('refused', None) | ('raised', 'Exc')"""
    import sympy

    args = None if model_names is None else [sympy.Symbol(r) for r in model_names]
    try:
        e = st.fn_to_sympy(fn, origin="c06", model_args=args)
    except Exception as ex:  # noqa: BLE001
        return ("raised", type(ex).__name__)
    if e is None:
        return ("refused", None)
    return ("expr", e)


def lambdified(expr, names):
    import sympy

    try:
        return sympy.lambdify([sympy.Symbol(n) for n in names], expr, modules="math")
    except Exception:  # noqa: BLE001
        return None


def compare_on(fn, expr, names, points, selected, val):
    """names: model name per parameter position.  Returns first mismatch per symptom
    [(symptom, point(args), python, sympy-text)] and the number of defined points compared."""
    first = {}
    ncmp = 0

    def sigma_of(args):
        s = {}
        for nme, v in zip(names, args):
            s.setdefault(nme, v)
        return s

    def consistent(args):
        s = sigma_of(args)
        return all(s[nme] == v for nme, v in zip(names, args))

    def sym_at(args):
        return sym_eval(expr, sigma_of(args))

    for args in selected:
        if not consistent(args):
            continue
        pv = val.get(args)
        if pv is None and args not in val:
            pv = val[args] = py_eval(fn, args)
        if pv is None:
            continue
        ncmp += 1
        kind, sv = sym_at(args)
        if kind == "num" and close(pv, sv):
            continue
        symptom = {"num": "value-differs", "undef": "undefined-where-python-is-defined", "free": "free-symbols-left", "notexpr": "not-an-expression"}[kind]
        first.setdefault(symptom, (symptom, list(args), pv, sv if kind != "num" else repr(sv)))
    # whole grid through lambdify, nominations confirmed symbolically
    lam = lambdified(expr, list(dict.fromkeys(names))) if not first else None
    if lam is not None:
        uniq = list(dict.fromkeys(names))
        selset = set(selected)
        for args in points:
            if args in selset or not consistent(args):
                continue
            pv = val.get(args)
            if pv is None and args not in val:
                pv = val[args] = py_eval(fn, args)
            if pv is None:
                continue
            s = sigma_of(args)
            try:
                lv = lam(*[s[u] for u in uniq])
                lv = float(lv) if lv is not None else None
            except Exception:  # noqa: BLE001
                lv = None
            ncmp += 1
            if lv is not None and math.isfinite(lv) and close(pv, lv):
                continue
            kind, sv = sym_at(args)
            if kind == "num" and close(pv, sv):
                continue  # lambdify and symbolic evaluation disagree: the symbolic value counts
            symptom = {"num": "value-differs", "undef": "undefined-where-python-is-defined", "free": "free-symbols-left", "notexpr": "not-an-expression"}[kind]
            first.setdefault(symptom, (symptom, list(args), pv, sv if kind != "num" else repr(sv)))
            break
    return list(first.values()), ncmp


def check_function(st, mod, name, params, src, full_renamings: bool):
    """The contract on one generated function.  Returns a dict with outcome + failures."""
    import sympy

    fn = getattr(mod, name)
    n = len(params)
    out = {"outcome": None, "failures": [], "compared": 0, "translations": 0, "ren_struct": 0, "ren_numeric": 0, "ren_refused": 0}
    kind, e0 = translate(st, fn, None)
    out["translations"] += 1
    if kind != "expr":
        out["outcome"] = kind if kind == "refused" else f"raised:{e0}"
        # a renaming must not turn a refusal into an expression that is wrong: checked below as well
    twin = path_twin(mod, name, src)
    points, selected, val = make_grid(fn, twin, n)
    defined = sum(1 for p in points if val[p] is not None)
    out["defined_points"] = defined
    base_bad = False
    if kind == "expr":
        out["outcome"] = "translated"
        out["expr"] = str(e0)[:160]
        fails, ncmp = compare_on(fn, e0, params, points, selected, val)
        out["compared"] += ncmp
        for symptom, args, pv, sv in fails:
            base_bad = True
            out["failures"].append({"symptom": symptom, "renaming": None, "args": args, "python": pv, "sympy": sv, "expr": str(e0)[:200]})
    if base_bad:
        return out  # the same defect would show under every renaming
    for ren in renamings(n, full_renamings):
        k2, er = translate(st, fn, ren)
        out["translations"] += 1
        if k2 != "expr":
            out["ren_refused"] += 1
            continue
        if kind == "expr" and isinstance(e0, sympy.Basic) and isinstance(er, sympy.Basic) and len(set(ren)) == n:
            expected = e0.xreplace({sympy.Symbol(p): sympy.Symbol(r) for p, r in zip(params, ren)})
            if expected == er:
                out["ren_struct"] += 1
                continue
        out["ren_numeric"] += 1
        fails, ncmp = compare_on(fn, er, ren, points, selected, val)
        out["compared"] += ncmp
        for symptom, args, pv, sv in fails:
            out["failures"].append({"symptom": symptom, "renaming": list(ren), "args": args, "python": pv, "sympy": sv, "expr": str(er)[:200],
                                    "expr_unrenamed": str(e0)[:200] if kind == "expr" else None})
            break
        if out["failures"]:
            break  # one renaming witness per function is enough
    return out


# ---------------------------------------------------------------------------
# E1: the leaf set

VALUE_LEAVES = [
    # (tag, expression) -- arithmetic
    ("sub", "a - b"), ("div", "a / b"), ("pow", "a ** b"), ("mod", "a % b"), ("floordiv", "a // b"), ("neg", "-a + b"), ("pos", "+a - b"),
    ("mixed", "a * b - a / 2"), ("intlit", "2 * a - 1"), ("sq", "a ** 2 - b"), ("recip", "1 / a - b"), ("assoc", "a - (b - a)"),
    ("boollit", "True * a - b"), ("three", "a - b * c"), ("three-div", "(a - b) / c"), ("precedence", "-a ** 2 + b"),
    # conditional expressions
    ("ifexp", "a if a > b else b * 2.0"), ("ifexp-ge", "a - b if a >= b else b"), ("ifexp-eq", "a if a == b else b * 2.0"),
    ("ifexp-ne", "a if a != b else b * 2.0"), ("ifexp-eq-const", "a if a == 1.0 else b * 2.0"), ("ifexp-ne-const", "b if 2.0 != a else a + 5.0"),
    ("ifexp-chain", "a if 0.0 < a < b else b * 2.0"), ("ifexp-chain3", "a if 0.0 < a <= b < 3.0 else -b"),
    ("ifexp-chain-mixed", "a - b if a >= b > 0.0 else 7.0"), ("ifexp-chain-eq", "a if 0.0 < a == b else b - 1.0"),
    ("ifexp-nested-test", "(a if a > 1.0 else b) if b > 0.0 else 3.0"), ("ifexp-nested-else", "a if a < b else (b if b < 1.0 else 1.0 - a)"),
    ("ifexp-in-arith", "(a if a > b else b) * 2.0 - (b if a > 1.0 else a)"), ("ifexp-three", "a if b < c else c - a"),
    ("ifexp-eq-three", "a if b == c else c - a"),
    # just outside the subset
    ("ifexp-and", "a if (a > 0.0 and b > 0.0) else b"), ("ifexp-or", "a if (a > 1.0 or b > 1.0) else -b"), ("ifexp-not", "a if not a > b else b * 2.0"),
    ("ifexp-truthy", "a if a else b"), ("ifexp-is", "a if a is b else b * 2.0"), ("bitand", "a if (a > 0.0) & (b > 0.0) else b"),
    ("subscript", "[a, b][0]"), ("lambda", "(lambda z: z - b)(a)"), ("walrus", "(z := a - b) * z"), ("str", "'a'"), ("matmul", "a @ b"),
    ("cmp-value", "(a > b) * a + b"), ("float-call", "float(a) - b"), ("int-call", "int(a) - b"), ("round-call", "round(a) - b"),
    # calls into helpers: same module, imported module, sub-package, alias, from-import
    ("call-local", "loc(a, b)"), ("call-local-swapped", "loc(b, a)"), ("call-local-expr", "loc(a - b, a * 2.0)"), ("call-local-nested", "loc(loc(a, b), b)"),
    ("call-local-const", "loc(1.0, b) - a"), ("call-params-reordered", "locab(a, b)"), ("call-params-reordered-swapped", "locab(b, a)"),
    ("call-params-reordered-expr", "locab(a + b, a - b)"), ("call-branch", "locbr(a, b)"), ("call-branch-swapped", "locbr(b, a) - a"),
    ("call-three-rotated", "loc3(a, b, c)"), ("call-three-rotated2", "loc3(b, c, a)"), ("call-three-two-args", "loc3(a, b, a)"),
    ("call-module", "c06h.sub(a, b)"), ("call-module-reordered", "c06h.ba(a, b)"), ("call-module-reordered-swapped", "c06h.ba(b, a)"),
    ("call-module-branch", "c06h.pick(a, b)"), ("call-module-branch-swapped", "c06h.pick(b, a) - a"), ("call-module-const", "c06h.scaled(a) - b"),
    ("call-module-chain", "c06h.chain(a, b)"), ("call-module-locals", "c06h.asg(a, b)"), ("call-module-locals-swapped", "c06h.asg(b, a)"),
    ("call-subpackage", "c06pkg.sub.twice(a) - b"), ("call-subpackage-2", "c06pkg.sub.ratio(a, b)"), ("call-alias-module", "sb.ratio(b, a)"),
    ("call-alias-fn", "hsub(b, a)"), ("call-in-test", "a if loc(a, b) > 0.0 else b"),
    # keyword arguments, defaults, stars
    ("call-kw-last", "loc(a, y=b)"), ("call-kw-all", "loc(x=a, y=b)"), ("call-kw-all-reordered", "loc(y=a, x=b)"), ("call-kw-module", "c06h.sub(y=a, x=b)"),
    ("call-kw-one-param", "c06h.scaled(x=a) - b"), ("call-kw-callee-uses-caller-names", "locab(a=a, b=b)"), ("call-kw-callee-uses-caller-names-2", "locab(b=a, a=b)"),
    ("call-default-omitted", "c06h.dflt(a) - b"), ("call-default-given", "c06h.dflt(a, b)"), ("call-star", "loc(*[a, b])"), ("call-unknown", "nosuchfn(a, b)"),
    ("call-unknown-attr", "c06h.nosuchfn(a, b)"),
    # table functions on arguments and on literals
    ("fn-exp", "math.exp(a) - b"), ("fn-exp-from", "exp(a) - b"), ("fn-sqrt-np", "np.sqrt(a) - b"), ("fn-abs", "abs(a - b)"), ("fn-min", "min(a, b)"),
    ("fn-max", "max(a, b) - a"), ("fn-pow", "pow(a, 2) - b"), ("fn-log", "math.log(a) - b"), ("fn-sin", "np.sin(a) * b"), ("fn-floor", "math.floor(a) - b"),
    ("fn-lit-exp", "math.exp(0.0) * a - b"), ("fn-lit-floor", "math.floor(2.5) * a - b"), ("fn-lit-sqrt", "math.sqrt(4.0) * a - b"),
    ("fn-lit-min", "min(1.0, 2.0) * a - b"), ("fn-lit-max-const", "max(K, 1.0) * a - b"), ("fn-lit-log-e", "math.log(math.e) * a - b"),
    ("fn-lit-abs", "abs(-1.5) * a - b"), ("fn-lit-np", "np.exp(0.0) + a - b"),
    # named constants and module level floats
    ("const-pi", "math.pi * a - b"), ("const-e", "math.e * a - b"), ("const-tau", "math.tau * a - b"), ("const-np-pi", "np.pi * a - b"),
    ("const-np-e", "np.e * a - b"), ("const-from-import", "pi * a - b"), ("const-module-float", "K * a - b"), ("const-module-float-named-like-a-local", "t * a - b"),
    ("const-imported-float", "K2 * a - b"), ("const-other-module", "c06h.K2 * a - b"), ("const-subpackage", "c06pkg.sub.C3 * a - b"),
    ("const-alias-module", "sb.C3 * a - b"), ("const-package", "c06pkg.P0 * a - b"), ("const-module-int", "N * a - b"), ("const-unknown-attr", "math.nosuch * a"),
    ("const-unknown-name", "nosuch * a - b"), ("const-inf", "a - b if a < math.inf else 0.0"),
]

COND_LEAVES = [
    ("gt", "a > b"), ("ge", "a >= b"), ("lt", "a < b"), ("le", "a <= b"), ("le-const", "a <= 1.0"), ("gt-int", "a > 1"), ("const-left", "2.0 >= a"),
    ("eq", "a == b"), ("ne", "a != b"), ("eq-const", "a == 1.0"), ("ne-const", "a != 2.0"), ("eq-expr", "a - b == 1.0"), ("eq-self", "a == a"),
    ("chain", "0.0 < a < b"), ("chain-le", "0.0 <= a <= b"), ("chain3", "0.0 < a <= b < 3.0"), ("chain-desc", "a > b > 0.0"), ("chain-mixed", "a < b >= 1.0"),
    ("chain-eq", "a == b == 1.0"), ("chain-ne", "0.0 < a != b"), ("expr-gt", "a - b > 1.0"), ("prod-gt", "a * b > 1.0"), ("call-gt", "loc(a, b) > 0.0"),
    ("module-float", "K > a"), ("const-const", "1.0 < 2.0"), ("const-const-false", "2.0 < 1.0"), ("three", "a < b <= c"), ("three-eq", "a == c"),
    ("and", "a > 0.0 and b > 0.0"), ("or", "a > 1.0 or b > 1.0"), ("not", "not a > b"), ("truthy", "a"), ("true-lit", "True"), ("in", "a in (1.0, 2.0)"),
]

VALUE_CONTEXTS = {
    "return": lambda e: [f"return {e}"],
    "assign": lambda e: [f"z = {e}", "return z * 2.0 - a"],
    "branch": lambda e: ["if a > 1.0:", f"    return {e}", "return a - 3.0 * b"],
}
COND_CONTEXTS = {
    "if-return": lambda c: [f"if {c}:", "    return a - b", "return b * 2.0"],
    "ifexp": lambda c: [f"return a - b if {c} else b * 2.0"],
    "if-else-assign": lambda c: [f"if {c}:", "    z = a - b", "else:", "    z = b * 2.0", "return z"],
    "elif": lambda c: ["if a > 2.0:", "    return 7.0", f"elif {c}:", "    return a - b", "else:", "    return b * 2.0"],
}


def _nparams(text: str) -> tuple:
    names = {n.id for n in ast.walk(ast.parse(text)) if isinstance(n, ast.Name)}
    return ("a", "b", "c") if "c" in names else ("a", "b")


def e1_cases():
    """[(class_tag, params, body_lines)]"""
    out = []
    for tag, e in VALUE_LEAVES:
        for cname, mk in VALUE_CONTEXTS.items():
            body = mk(e)
            out.append((f"value:{tag}:{cname}", _nparams("\n".join(["def f():"] + [" " + b for b in body])), body))
    for tag, c in COND_LEAVES:
        for cname, mk in COND_CONTEXTS.items():
            body = mk(c)
            out.append((f"test:{tag}:{cname}", _nparams("\n".join(["def f():"] + [" " + b for b in body])), body))
    return out


def run_cases(pkgdir, modname, cases, full_renamings):
    """cases: [(class_tag, params, body)] -> list of result dicts (with tag, source)"""
    import mxlpy.meta.source_tools as st

    fns = [(f"f{i}", params, body) for i, (_, params, body) in enumerate(cases)]
    mod = load_module(pkgdir, modname, fns)
    res = []
    for (name, params, body), (tag, _, _) in zip(fns, cases):
        src = fn_source(name, params, body)
        r = check_function(st, mod, name, params, src, full_renamings)
        r["tag"] = tag
        r["source"] = src.strip()
        r["params"] = list(params)
        res.append(r)
    return res
