"""Bounded stand-in for C06 (labelled bounded, never counted as proved).

Contract of DESIGN section 5 / C06, checked at run time on the REAL
`mxlpy.meta.source_tools.fn_to_sympy`:

    result is None (or the call raises: both are visible refusals), OR
    for every valuation sigma of the model names and args_i = sigma[model_name_i]:
        f(*args) defined (returns a finite real)  ==>  value(result, sigma) == f(*args)

for function bodies enumerated over a small grammar.  Every body is written as real
Python source into a module file of a per-run temporary package (so that
`inspect.getsource` is what the translator really uses), imported, translated by the
real translator and compared with *the Python function itself* (the oracle is CPython
executing the very same source) on a grid.

Parts
  E1  leaf level: every expression / test of a fixed leaf set (==, !=, chains, IfExp,
      calls into helper functions of the same module, of an imported module and of a
      sub-package with positional and keyword arguments, defaults, table functions,
      named constants, names equal to module level floats, things just outside the
      subset) in a few statement contexts; every statement form (assign, tuple assign,
      swap, chained, augmented, annotated, loops, try, local imports, ...) in a
      straight-line body and inside a branch; parameters / locals named like module
      level floats; x ALL renamings of the model arguments.
  E2  statement level: EVERY control skeleton up to a size bound (leaves: binding
      statement / return; if with 1-3 tests and optional else, nesting <= 2, i.e.
      reassign in a branch, return or assign in any branch, code after if/else, chains
      without else) x seeded fillings of the statement forms, expressions and tests
      x rotating renamings.
  E3  the KNOWN_FNS / KNOWN_CONSTANTS tables entry by entry: `fn(<literals>)` and
      `fn(<arguments>)` through the real translator against the Python function, plus
      (informational only) the direct meaning of the table target.

Failure keys: `bounded:<symptom>:<part>:<class>`; the class is the leaf / statement form /
table entry, for E2 the first syntactic feature of the body in CLASS_ORDER (computed from
the body's own AST), for renamings the class of the renaming.

Grid: a lattice of dyadic values per argument (all comparisons of sums/differences/
products of them are exact in binary floating point), every lattice point +/- eps in
every coordinate (eps = 2**-20, exact), and -- found by instrumenting a twin of the
function so that every `if`/`elif`/IfExp test reports its outcome -- the two sides of
every change of branch path between neighbouring lattice points (bisection).  Python is
evaluated on the whole grid; the sympy expression is evaluated *symbolically*
(xreplace by Floats + evalf) on a core lattice, on every point whose path or value
jumps against a neighbour and on the bisected sides, and through `lambdify` on the whole
grid; a point nominated by lambdify is only reported after the symbolic evaluation
confirmed it.
"""
from __future__ import annotations

import ast
import hashlib
import importlib
import itertools
import math
import multiprocessing as mp
import os
import random
import shutil
import sys
import tempfile
import time
from concurrent.futures import ProcessPoolExecutor

from vlib.core import CheckerError, Ctx, seed

EPS = 2.0**-20
RTOL = 1e-9

# ---------------------------------------------------------------------------
# the temporary package: helper modules + generated modules

HELPER_SRC = '''\
"""helper module of the C06 stand-in (imported by the generated modules)"""
import math

K2 = 4.0


def sub(x, y):
    return x - y


def ba(b, a):
    return a - 2.0 * b


def pick(x, y):
    if x > y:
        return x
    return y * 2.0


def scaled(x):
    return x * K2


def chain(x, y):
    return sub(y, x) * 0.5


def dflt(x, y=2.0):
    return x * y


def alldef(x=3.0):
    return x * 2.0


def asg(x, y):
    z = x - y
    w = z * y
    return w - x
'''

PKG_INIT_SRC = '''\
from . import sub

P0 = 1.25
'''

PKG_SUB_SRC = '''\
C3 = 0.75


def twice(x):
    return 2.0 * x


def ratio(x, y):
    return x / y
'''

HEADER_SRC = '''\
import math
from math import exp, pi

import numpy as np

import c06h
import c06pkg.sub
from c06h import K2
from c06h import sub as hsub
from c06pkg import sub as sb

K = 2.5
t = 3.25
N = 3


def loc(x, y):
    return x - y * K


def locab(b, a):
    return a / b


def locbr(x, y):
    if x >= y:
        z = x - y
    else:
        z = y
    return z


def loc3(c, a, b):
    return a - b * 2.0 + c * 4.0

'''


def make_package() -> str:
    import linecache

    for m in [m for m in sys.modules if m == "c06h" or m.startswith(("c06pkg", "c06gen_", "c06rep_"))]:
        del sys.modules[m]  # helpers of an earlier (removed) package must not be reused
    sys.path[:] = [p for p in sys.path if not os.path.basename(p).startswith("c06_")]
    linecache.clearcache()
    d = tempfile.mkdtemp(prefix="c06_")
    with open(os.path.join(d, "c06h.py"), "w") as f:
        f.write(HELPER_SRC)
    os.mkdir(os.path.join(d, "c06pkg"))
    with open(os.path.join(d, "c06pkg", "__init__.py"), "w") as f:
        f.write(PKG_INIT_SRC)
    with open(os.path.join(d, "c06pkg", "sub.py"), "w") as f:
        f.write(PKG_SUB_SRC)
    return d


def fn_source(name: str, params: tuple, body: list[str]) -> str:
    return f"def {name}({', '.join(params)}):\n" + "".join(f"    {ln}\n" for ln in body) + "\n\n"


def load_module(pkgdir: str, modname: str, fns: list[tuple]):
    """fns: [(name, params, body_lines)].  Writes a real file and imports it."""
    if pkgdir not in sys.path:
        sys.path.insert(0, pkgdir)
    path = os.path.join(pkgdir, modname + ".py")
    with open(path, "w") as f:
        f.write(HEADER_SRC)
        for name, params, body in fns:
            f.write(fn_source(name, params, body))
    importlib.invalidate_caches()
    sys.modules.pop(modname, None)
    return importlib.import_module(modname)


# ---------------------------------------------------------------------------
# evaluation of both sides


def py_eval(fn, args):
    """The value of the Python function where it is defined (finite real), else None."""
    import numpy as np

    try:
        v = fn(*args)
    except Exception:  # noqa: BLE001   (ZeroDivisionError, ValueError, UnboundLocalError, OverflowError, TypeError ...)
        return None
    if isinstance(v, (bool, np.bool_)):
        return float(bool(v))
    if isinstance(v, (int, float, np.floating, np.integer)):
        v = float(v)
        return v if math.isfinite(v) else None
    return None


class _Undef(Exception):
    pass


def _ev(e, rep):
    """value of a sympy expression under a numeric valuation; Piecewise is evaluated lazily
    (conditions first, only the selected piece), everything else by rebuilding the node on
    evaluated arguments (sympy's constructors evaluate on Floats)."""
    import sympy

    if isinstance(e, sympy.Piecewise):
        for x, c in e.args:
            cv = _ev(c, rep)
            if cv is sympy.true:
                return _ev(x, rep)
            if cv is not sympy.false:
                raise _Undef(f"condition {cv} is not decided")
        return sympy.nan
    if isinstance(e, sympy.Symbol):
        return rep.get(e, e)
    if not e.args:
        return e
    return e.func(*[_ev(x, rep) for x in e.args])


def sym_eval(expr, sigma: dict):
    """('num', float) | ('undef', text) | ('free', [names]) | ('notexpr', text)."""
    import sympy

    if isinstance(expr, (bool, int, float)):
        return ("num", float(expr))
    if not isinstance(expr, sympy.Basic):
        return ("notexpr", repr(expr)[:80])
    rep = {sympy.Symbol(n): sympy.Float(v) for n, v in sigma.items()}
    free = sorted(str(x) for x in expr.free_symbols if x not in rep)
    if free:
        return ("free", free)
    try:
        r = _ev(expr, rep)
        if r is sympy.true or r is sympy.false:
            return ("num", 1.0 if r is sympy.true else 0.0)
        if not isinstance(r, sympy.Float):
            r = r.evalf()
        if r.is_real and r.is_finite:
            return ("num", float(r))
        return ("undef", str(r)[:60])
    except Exception as e:  # noqa: BLE001
        return ("undef", f"{type(e).__name__}: {e}"[:80])


def close(p: float, s: float) -> bool:
    return abs(p - s) <= RTOL * max(1.0, abs(p), abs(s))


# ---------------------------------------------------------------------------
# grids

BV2 = (-1.5, 0.0, 0.5, 1.0, 2.0, 2.5, 3.0)
BV3 = (-1.5, 0.5, 1.0, 2.0)
CORE2 = (-1.5, 1.0, 2.0)


class _Rec(ast.NodeTransformer):
    """wrap every branch test of the function in __c06rec__(k, test)"""

    def __init__(self):
        self.k = 0

    def _wrap(self, test):
        self.k += 1
        return ast.Call(func=ast.Name(id="__c06rec__", ctx=ast.Load()), args=[ast.Constant(self.k), test], keywords=[])

    def visit_If(self, node):
        self.generic_visit(node)
        node.test = self._wrap(node.test)
        return node

    def visit_IfExp(self, node):
        self.generic_visit(node)
        node.test = self._wrap(node.test)
        return node


def path_twin(mod, name: str, src: str):
    """a twin of the function that also returns the outcomes of its branch tests"""
    tree = ast.parse(src)
    tree = ast.fix_missing_locations(_Rec().visit(tree))
    trace: list = []

    def rec(k, v):
        trace.append((k, bool(v)))
        return v

    g = dict(vars(mod))
    g["__c06rec__"] = rec
    exec(compile(tree, f"<twin {name}>", "exec"), g)  # noqa: S102
    twin = g[name]

    def run(args):
        trace.clear()
        try:
            twin(*args)
        except Exception:  # noqa: BLE001
            return (*trace, "raise")
        return tuple(trace)

    return run


def make_grid(fn, twin, n: int):
    """returns (all_points, selected_points): Python runs on all, sympy symbolically on selected"""
    bv = BV2 if n <= 2 else BV3
    lattice = list(itertools.product(bv, repeat=n))
    core = {p for p in lattice if all(v in CORE2 for v in p)} if n <= 2 else set(lattice[:: 5])
    allp = list(lattice)
    sel = set(core)
    val = {}
    pth = {}

    def look(p):
        if p not in val:
            val[p] = py_eval(fn, p)
            pth[p] = twin(p)
        return val[p], pth[p]

    def differ(p, q):
        vp, sp = look(p)
        vq, sq = look(q)
        if sp != sq or (vp is None) != (vq is None):
            return True
        return vp is not None and abs(vp - vq) > 1e-3 * max(1.0, abs(vp))

    for p in lattice:
        for i in range(n):
            for d in (-EPS, EPS):
                q = (*p[:i], p[i] + d, *p[i + 1 :])
                allp.append(q)
                if differ(p, q):
                    sel.add(p)
                    sel.add(q)
    # two sides of every change of path between axis neighbours of the lattice (bisection)
    for p in lattice:
        for i in range(n):
            j = bv.index(p[i])
            if j + 1 >= len(bv):
                continue
            q = (*p[:i], bv[j + 1], *p[i + 1 :])
            if look(p)[1] == look(q)[1]:
                continue
            lo, hi, sig = p, q, look(p)[1]
            for _ in range(44):
                mid = (*lo[:i], (lo[i] + hi[i]) / 2.0, *lo[i + 1 :])
                if mid in (lo, hi):
                    break
                if twin(mid) == sig:
                    lo = mid
                else:
                    hi = mid
            for r in (lo, hi):
                if r not in val:
                    allp.append(r)
                sel.add(r)
    for p in allp:
        if p not in val:
            val[p] = py_eval(fn, p)
    selected = sorted(sel)
    if len(selected) > 60:  # deterministic thinning, keeps the core
        keep = sorted(core)
        rest = [p for p in selected if p not in core]
        step = max(1, len(rest) // (60 - len(keep)))
        selected = sorted(set(keep) | set(rest[::step]))
    return allp, selected, val


# ---------------------------------------------------------------------------
# renamings of the model arguments

REN2 = (
    ("a", "b"), ("b", "a"), ("p", "q"), ("b", "p"), ("p", "a"), ("a", "a"), ("b", "b"), ("p", "p"),
    ("x", "y"), ("y", "x"), ("t", "u"), ("K", "t"), ("b", "x"),
)
REN2_FEW = (("b", "a"), ("p", "q"), ("b", "p"), ("a", "a"))
REN3 = (
    *itertools.permutations(("a", "b", "c")),
    ("p", "q", "r"), ("b", "c", "p"), ("c", "p", "a"), ("p", "a", "b"), ("a", "a", "b"), ("b", "b", "b"), ("c", "x", "a"), ("x", "y", "t"),
)
REN3_FEW = (("b", "c", "a"), ("c", "a", "b"), ("b", "a", "c"), ("p", "q", "r"), ("b", "c", "p"))
REN1 = (("a",), ("p",), ("x",), ("t",))


def renamings(n: int, full: bool):
    if n == 1:
        return REN1 if full else REN1[1:2]
    if n == 2:
        return REN2 if full else REN2_FEW
    return REN3 if full else REN3_FEW


# ---------------------------------------------------------------------------
# the contract on one function


def translate(st, fn, model_names):
    """real fn_to_sympy; returns ('expr', e) | ('refused', None) | ('raised', 'Exc')"""
    import sympy

    args = None if model_names is None else [sympy.Symbol(r) for r in model_names]
    try:
        e = st.fn_to_sympy(fn, origin="c06", model_args=args)
    except Exception as ex:  # noqa: BLE001
        return ("raised", type(ex).__name__)
    if e is None:
        return ("refused", None)
    return ("expr", e)


def lambdified(expr, names):
    import sympy

    try:
        return sympy.lambdify([sympy.Symbol(n) for n in names], expr, modules="math")
    except Exception:  # noqa: BLE001
        return None


def compare_on(fn, expr, names, points, selected, val):
    """names: model name per parameter position.  Returns first mismatch per symptom
    [(symptom, point(args), python, sympy-text)] and the number of defined points compared."""
    first = {}
    ncmp = 0

    def sigma_of(args):
        s = {}
        for nme, v in zip(names, args):
            s.setdefault(nme, v)
        return s

    def consistent(args):
        s = sigma_of(args)
        return all(s[nme] == v for nme, v in zip(names, args))

    def sym_at(args):
        return sym_eval(expr, sigma_of(args))

    for args in selected:
        if not consistent(args):
            continue
        pv = val.get(args)
        if pv is None and args not in val:
            pv = val[args] = py_eval(fn, args)
        if pv is None:
            continue
        ncmp += 1
        kind, sv = sym_at(args)
        if kind == "num" and close(pv, sv):
            continue
        symptom = {"num": "value-differs", "undef": "undefined-where-python-is-defined", "free": "free-symbols-left", "notexpr": "not-an-expression"}[kind]
        first.setdefault(symptom, (symptom, list(args), pv, sv if kind != "num" else repr(sv)))
    # whole grid through lambdify, nominations confirmed symbolically
    lam = lambdified(expr, list(dict.fromkeys(names))) if not first else None
    if lam is not None:
        uniq = list(dict.fromkeys(names))
        selset = set(selected)
        for args in points:
            if args in selset or not consistent(args):
                continue
            pv = val.get(args)
            if pv is None and args not in val:
                pv = val[args] = py_eval(fn, args)
            if pv is None:
                continue
            s = sigma_of(args)
            try:
                lv = lam(*[s[u] for u in uniq])
                lv = float(lv) if lv is not None else None
            except Exception:  # noqa: BLE001
                lv = None
            ncmp += 1
            if lv is not None and math.isfinite(lv) and close(pv, lv):
                continue
            kind, sv = sym_at(args)
            if kind == "num" and close(pv, sv):
                continue  # lambdify and symbolic evaluation disagree: the symbolic value counts
            symptom = {"num": "value-differs", "undef": "undefined-where-python-is-defined", "free": "free-symbols-left", "notexpr": "not-an-expression"}[kind]
            first.setdefault(symptom, (symptom, list(args), pv, sv if kind != "num" else repr(sv)))
            break
    return list(first.values()), ncmp


def check_function(st, mod, name, params, src, rens):
    """The contract on one generated function.  Returns a dict with outcome + failures."""
    import sympy

    fn = getattr(mod, name)
    n = len(params)
    out = {"outcome": None, "failures": [], "compared": 0, "translations": 0, "ren_struct": 0, "ren_numeric": 0, "ren_refused": 0}
    kind, e0 = translate(st, fn, None)
    out["translations"] += 1
    if kind != "expr":
        out["outcome"] = kind if kind == "refused" else f"raised:{e0}"
        # a renaming must not turn a refusal into an expression that is wrong: checked below as well
    twin = path_twin(mod, name, src)
    points, selected, val = make_grid(fn, twin, n)
    defined = sum(1 for p in points if val[p] is not None)
    out["defined_points"] = defined
    if defined == 0:
        out["outcome"] = "vacuous"  # Python defines no value anywhere on the grid: nothing is claimed
        return out
    base_bad = False
    if kind == "expr":
        out["outcome"] = "translated"
        out["expr"] = str(e0)[:160]
        fails, ncmp = compare_on(fn, e0, params, points, selected, val)
        out["compared"] += ncmp
        for symptom, args, pv, sv in fails:
            base_bad = True
            out["failures"].append({"symptom": symptom, "renaming": None, "args": args, "python": pv, "sympy": sv, "expr": str(e0)[:200]})
    if base_bad:
        return out  # the same defect would show under every renaming
    for ren in rens:
        k2, er = translate(st, fn, ren)
        out["translations"] += 1
        if k2 != "expr":
            out["ren_refused"] += 1
            continue
        if kind == "expr" and isinstance(e0, sympy.Basic) and isinstance(er, sympy.Basic) and len(set(ren)) == n:
            expected = e0.xreplace({sympy.Symbol(p): sympy.Symbol(r) for p, r in zip(params, ren)})
            if expected == er:
                out["ren_struct"] += 1
                continue
        out["ren_numeric"] += 1
        fails, ncmp = compare_on(fn, er, ren, points, selected, val)
        out["compared"] += ncmp
        for symptom, args, pv, sv in fails:
            out["failures"].append({"symptom": symptom, "renaming": list(ren), "args": args, "python": pv, "sympy": sv, "expr": str(er)[:200],
                                    "expr_unrenamed": str(e0)[:200] if kind == "expr" else None})
            break
        if out["failures"]:
            break  # one renaming witness per function is enough
    return out


# ---------------------------------------------------------------------------
# E1: the leaf set

VALUE_LEAVES = [
    # (tag, expression) -- arithmetic
    ("sub", "a - b"), ("div", "a / b"), ("pow", "a ** b"), ("mod", "a % b"), ("floordiv", "a // b"), ("neg", "-a + b"), ("pos", "+a - b"),
    ("mixed", "a * b - a / 2"), ("intlit", "2 * a - 1"), ("sq", "a ** 2 - b"), ("recip", "1 / a - b"), ("assoc", "a - (b - a)"),
    ("boollit", "True * a - b"), ("three", "a - b * c"), ("three-div", "(a - b) / c"), ("precedence", "-a ** 2 + b"),
    # conditional expressions
    ("ifexp", "a if a > b else b * 2.0"), ("ifexp-ge", "a - b if a >= b else b"), ("ifexp-eq", "a if a == b else b * 2.0"),
    ("ifexp-ne", "a if a != b else b * 2.0"), ("ifexp-eq-const", "a if a == 1.0 else b * 2.0"), ("ifexp-ne-const", "b if 2.0 != a else a + 5.0"),
    ("ifexp-chain", "a if 0.0 < a < b else b * 2.0"), ("ifexp-chain3", "a if 0.0 < a <= b < 3.0 else -b"),
    ("ifexp-chain-mixed", "a - b if a >= b > 0.0 else 7.0"), ("ifexp-chain-eq", "a if 0.0 < a == b else b - 1.0"),
    ("ifexp-nested-test", "(a if a > 1.0 else b) if b > 0.0 else 3.0"), ("ifexp-nested-else", "a if a < b else (b if b < 1.0 else 1.0 - a)"),
    ("ifexp-in-arith", "(a if a > b else b) * 2.0 - (b if a > 1.0 else a)"), ("ifexp-three", "a if b < c else c - a"),
    ("ifexp-eq-three", "a if b == c else c - a"),
    # just outside the subset
    ("ifexp-and", "a if (a > 0.0 and b > 0.0) else b"), ("ifexp-or", "a if (a > 1.0 or b > 1.0) else -b"), ("ifexp-not", "a if not a > b else b * 2.0"),
    ("ifexp-truthy", "a if a else b"), ("ifexp-is", "a if a is b else b * 2.0"), ("bitand", "a if (a > 0.0) & (b > 0.0) else b"),
    ("subscript", "[a, b][0]"), ("lambda", "(lambda z: z - b)(a)"), ("walrus", "(z := a - b) * z"), ("str", "'a'"), ("matmul", "a @ b"),
    ("cmp-value", "(a > b) * a + b"), ("float-call", "float(a) - b"), ("int-call", "int(a) - b"), ("round-call", "round(a) - b"),
    # calls into helpers: same module, imported module, sub-package, alias, from-import
    ("call-local", "loc(a, b)"), ("call-local-swapped", "loc(b, a)"), ("call-local-expr", "loc(a - b, a * 2.0)"), ("call-local-nested", "loc(loc(a, b), b)"),
    ("call-local-const", "loc(1.0, b) - a"), ("call-params-reordered", "locab(a, b)"), ("call-params-reordered-swapped", "locab(b, a)"),
    ("call-params-reordered-expr", "locab(a + b, a - b)"), ("call-branch", "locbr(a, b)"), ("call-branch-swapped", "locbr(b, a) - a"),
    ("call-three-rotated", "loc3(a, b, c)"), ("call-three-rotated2", "loc3(b, c, a)"), ("call-three-two-args", "loc3(a, b, a)"),
    ("call-module", "c06h.sub(a, b)"), ("call-module-reordered", "c06h.ba(a, b)"), ("call-module-reordered-swapped", "c06h.ba(b, a)"),
    ("call-module-branch", "c06h.pick(a, b)"), ("call-module-branch-swapped", "c06h.pick(b, a) - a"), ("call-module-const", "c06h.scaled(a) - b"),
    ("call-module-chain", "c06h.chain(a, b)"), ("call-module-locals", "c06h.asg(a, b)"), ("call-module-locals-swapped", "c06h.asg(b, a)"),
    ("call-subpackage", "c06pkg.sub.twice(a) - b"), ("call-subpackage-2", "c06pkg.sub.ratio(a, b)"), ("call-alias-module", "sb.ratio(b, a)"),
    ("call-alias-fn", "hsub(b, a)"), ("call-in-test", "a if loc(a, b) > 0.0 else b"),
    # keyword arguments, defaults, stars
    ("call-kw-last", "loc(a, y=b)"), ("call-kw-all", "loc(x=a, y=b)"), ("call-kw-all-reordered", "loc(y=a, x=b)"), ("call-kw-module", "c06h.sub(y=a, x=b)"),
    ("call-kw-one-param", "c06h.scaled(x=a) - b"), ("call-kw-callee-uses-caller-names", "locab(a=a, b=b)"), ("call-kw-callee-uses-caller-names-2", "locab(b=a, a=b)"),
    ("call-default-omitted", "c06h.dflt(a) - b"), ("call-default-given", "c06h.dflt(a, b)"), ("call-all-defaults", "c06h.alldef() * a - b"), ("call-star", "loc(*[a, b])"), ("call-starstar", "loc(**{'x': a, 'y': b})"), ("call-unknown", "nosuchfn(a, b)"),
    ("call-unknown-attr", "c06h.nosuchfn(a, b)"),
    # table functions on arguments and on literals
    ("fn-exp", "math.exp(a) - b"), ("fn-exp-from", "exp(a) - b"), ("fn-sqrt-np", "np.sqrt(a) - b"), ("fn-abs", "abs(a - b)"), ("fn-min", "min(a, b)"),
    ("fn-max", "max(a, b) - a"), ("fn-pow", "pow(a, 2) - b"), ("fn-log", "math.log(a) - b"), ("fn-sin", "np.sin(a) * b"), ("fn-floor", "math.floor(a) - b"),
    ("fn-lit-exp", "math.exp(0.0) * a - b"), ("fn-lit-floor", "math.floor(2.5) * a - b"), ("fn-lit-sqrt", "math.sqrt(4.0) * a - b"),
    ("fn-lit-min", "min(1.0, 2.0) * a - b"), ("fn-lit-max-const", "max(K, 1.0) * a - b"), ("fn-lit-log-e", "math.log(math.e) * a - b"),
    ("fn-lit-abs", "abs(-1.5) * a - b"), ("fn-lit-np", "np.exp(0.0) + a - b"),
    # named constants and module level floats
    ("const-pi", "math.pi * a - b"), ("const-e", "math.e * a - b"), ("const-tau", "math.tau * a - b"), ("const-np-pi", "np.pi * a - b"),
    ("const-np-e", "np.e * a - b"), ("const-from-import", "pi * a - b"), ("const-module-float", "K * a - b"), ("const-module-float-named-like-a-local", "t * a - b"),
    ("const-imported-float", "K2 * a - b"), ("const-other-module", "c06h.K2 * a - b"), ("const-subpackage", "c06pkg.sub.C3 * a - b"),
    ("const-alias-module", "sb.C3 * a - b"), ("const-package", "c06pkg.P0 * a - b"), ("const-module-int", "N * a - b"), ("const-unknown-attr", "math.nosuch * a"),
    ("const-unknown-name", "nosuch * a - b"), ("const-inf", "a - b if a < math.inf else 0.0"),
]

COND_LEAVES = [
    ("gt", "a > b"), ("ge", "a >= b"), ("lt", "a < b"), ("le", "a <= b"), ("le-const", "a <= 1.0"), ("gt-int", "a > 1"), ("const-left", "2.0 >= a"),
    ("eq", "a == b"), ("ne", "a != b"), ("eq-const", "a == 1.0"), ("ne-const", "a != 2.0"), ("eq-expr", "a - b == 1.0"), ("eq-self", "a == a"),
    ("chain", "0.0 < a < b"), ("chain-le", "0.0 <= a <= b"), ("chain3", "0.0 < a <= b < 3.0"), ("chain-desc", "a > b > 0.0"), ("chain-mixed", "a < b >= 1.0"),
    ("chain-eq", "a == b == 1.0"), ("chain-ne", "0.0 < a != b"), ("expr-gt", "a - b > 1.0"), ("prod-gt", "a * b > 1.0"), ("call-gt", "loc(a, b) > 0.0"),
    ("module-float", "K > a"), ("const-const", "1.0 < 2.0"), ("const-const-false", "2.0 < 1.0"), ("three", "a < b <= c"), ("three-eq", "a == c"),
    ("and", "a > 0.0 and b > 0.0"), ("or", "a > 1.0 or b > 1.0"), ("not", "not a > b"), ("truthy", "a"), ("true-lit", "True"), ("in", "a in (1.0, 2.0)"),
]

VALUE_CONTEXTS = {
    "return": lambda e: [f"return {e}"],
    "assign": lambda e: [f"z = {e}", "return z * 2.0 - a"],
    "branch": lambda e: ["if a > 1.0:", f"    return {e}", "return a - 3.0 * b"],
}
COND_CONTEXTS = {
    "if-return": lambda c: [f"if {c}:", "    return a - b", "return b * 2.0"],
    "ifexp": lambda c: [f"return a - b if {c} else b * 2.0"],
    "if-else-assign": lambda c: [f"if {c}:", "    z = a - b", "else:", "    z = b * 2.0", "return z"],
    "elif": lambda c: ["if a > 2.0:", "    return 7.0", f"elif {c}:", "    return a - b", "else:", "    return b * 2.0"],
}


# parameters (and a local) named like a module level float of the defining module: the local binding wins
SHADOW_CASES = [
    ("return", ("a", "K"), ["return a - K * 2.0"]),
    ("assign", ("a", "K"), ["z = K * 2.0", "return z - a"]),
    ("branch", ("a", "K"), ["if K > a:", "    return K", "return a - K"]),
    ("call", ("a", "K"), ["return loc(K, a)"]),
    ("first", ("t", "b"), ["return t - b * 2.0"]),
    ("both", ("t", "K"), ["return t - K * 2.0"]),
    ("local", ("a", "b"), ["K = a - b", "return K * 2.0"]),
    ("local-in-branch", ("a", "b"), ["if a > b:", "    K = a", "else:", "    K = b * 2.0", "return K"]),
]


# every statement form in a straight-line body (the skeleton enumeration meets them mostly inside branches)
STMT_CASES = [
    ("assign", ["z = a - b", "return z * 2.0"]), ("assign-twice", ["z = a - b", "z = z * b", "return z - a"]), ("reassign-parameter", ["a = a - b", "return a * b"]),
    ("reassign-parameter-both", ["a = a - b", "b = a * 2.0", "return a - b"]), ("tuple", ["z, w = a - b, b * 2.0", "return z - w"]),
    ("tuple-swap", ["a, b = b, a", "return a - 2.0 * b"]), ("tuple-rotate", ["z = a + b", "z, w = b, z", "return w - 2.0 * z"]),
    ("tuple-parameter-and-local", ["z, a = a, b", "return z - 2.0 * a"]), ("tuple-parenthesised", ["(z, w) = (a - b, a)", "return z * w"]),
    ("tuple-from-call", ["z, w = divmod(a, b)", "return z - w"]), ("tuple-starred", ["z, *w = a, b", "return z - b"]), ("list-target", ["[z, w] = [a, b]", "return z - 2.0 * w"]),
    ("chained", ["z = w = b * 2.0", "return w - z + a"]), ("chained-rebinds", ["w = a", "z = w = b * 2.0", "return w - z + a"]),
    ("augmented-add", ["z = a", "z += b", "return z * 2.0"]), ("augmented-mul-parameter", ["a *= b", "return a - b"]), ("annotated", ["z: float = a - b", "return z * 2.0"]),
    ("annotated-rebinds", ["z = a", "z: float = b * 2.0", "return z - a"]), ("annotation-only", ["z: float", "z = a - b", "return z"]),
    ("for", ["z = a", "for _k in range(2):", "    z = z + b", "return z"]), ("while", ["z = a", "while z < b:", "    z = z + 1.0", "return z"]),
    ("try", ["try:", "    return a / b", "except ZeroDivisionError:", "    return 0.0"]), ("with", ["with np.errstate(all='ignore'):", "    z = a - b", "return z"]),
    ("pass", ["pass", "return a - b"]), ("docstring", ["'rate law'", "return a - b"]), ("assert", ["assert a > b", "return a - b"]), ("expression-statement", ["a - b", "return a * b"]),
    ("del", ["z = a - b", "w = z", "del w", "return z"]), ("global", ["global K", "return K * a - b"]), ("subscript-target", ["z = [a, b]", "z[0] = b", "return z[0] - a"]),
    ("local-import", ["import math", "return math.pi * a - b"]), ("local-from-import-float", ["from math import tau", "return tau * a - b"]),
    ("local-from-import-fn", ["from c06h import ba", "return ba(a, b)"]), ("local-from-import-module", ["from c06pkg import sub", "return sub.ratio(a, b)"]),
    ("local-import-shadows-parameter-name", ["from c06pkg.sub import C3", "C3 = a - b", "return C3 * 2.0"]),
    ("return-none", ["if a > b:", "    return a", "return"]), ("nested-def", ["def inner(q):", "    return q - b", "return inner(a)"]),
    ("match", ["match a > b:", "    case True:", "        return a", "    case _:", "        return b"]),
]


def _nparams(text: str) -> tuple:
    names = {n.id for n in ast.walk(ast.parse(text)) if isinstance(n, ast.Name)}
    return ("a", "b", "c") if "c" in names else ("a", "b")


def e1_cases():
    """[(class_tag, params, body_lines)]"""
    out = []
    for tag, e in VALUE_LEAVES:
        for cname, mk in VALUE_CONTEXTS.items():
            body = mk(e)
            params = _nparams("\n".join(["def f():"] + [" " + b for b in body]))
            out.append((f"value:{tag}:{cname}", params, body, renamings(len(params), cname == "return")))
    for tag, body in STMT_CASES:
        out.append((f"stmt:{tag}:straight", ("a", "b"), body, renamings(2, False)))
        out.append((f"stmt:{tag}:in-branch", ("a", "b"), ["if a > 1.0:", *["    " + ln for ln in body], "return b - a * 2.0"], renamings(2, False)))
    for cname, params, body in SHADOW_CASES:
        out.append((f"value:name-equal-to-module-float:{cname}", params, body, renamings(2, True)))
    for tag, c in COND_LEAVES:
        for cname, mk in COND_CONTEXTS.items():
            body = mk(c)
            params = _nparams("\n".join(["def f():"] + [" " + b for b in body]))
            out.append((f"test:{tag}:{cname}", params, body, renamings(len(params), cname == "if-return")))
    return out


def run_cases(pkgdir, modname, cases):
    """cases: [(class_tag, params, body, renamings)] -> list of result dicts (with tag, source)"""
    import mxlpy.meta.source_tools as st

    fns = [(f"f{i}", c[1], c[2]) for i, c in enumerate(cases)]
    mod = load_module(pkgdir, modname, fns)
    res = []
    for (name, params, body), case in zip(fns, cases):
        src = fn_source(name, params, body)
        r = check_function(st, mod, name, params, src, case[3])
        r["tag"] = case[0]
        r["source"] = src.strip()
        r["params"] = list(params)
        res.append(r)
    sys.modules.pop(modname, None)
    return res


# ---------------------------------------------------------------------------
# E2: statement skeletons.  A skeleton is the control structure of a body: leaves are
# "B" (a binding statement: assignment, reassignment of a parameter, tuple assignment or
# one of the statements just outside the subset) and "R" (return); an if statement is
# ("I", (branch_block, ...), else_block | None) with one block per if/elif test.

_SK_CACHE: dict = {}


def sk_blocks(n: int, d: int, maxlen: int):
    """all blocks (tuples of statements) with exactly n leaves, nesting <= d, <= maxlen statements"""
    key = ("b", n, d, maxlen)
    if key in _SK_CACHE:
        return _SK_CACHE[key]
    out = []
    if n == 0:
        out.append(())
    elif maxlen > 0:
        for k in range(1, n + 1):
            for s in sk_stmts(k, d):
                if s == "R":
                    if n == k:
                        out.append((s,))
                    continue  # nothing after a return in the same block
                out.extend((s, *rest) for rest in sk_blocks(n - k, d, maxlen - 1))
    _SK_CACHE[key] = out
    return out


def sk_stmts(n: int, d: int):
    key = ("s", n, d)
    if key in _SK_CACHE:
        return _SK_CACHE[key]
    out = []
    if n == 1:
        out += ["B", "R"]
    if d > 0:
        for nb in (1, 2, 3):
            for has_else in (False, True):
                parts = nb + (1 if has_else else 0)
                if parts > n:
                    continue
                for sizes in itertools.product(range(1, n + 1), repeat=parts):
                    if sum(sizes) != n:
                        continue
                    for combo in itertools.product(*[sk_blocks(s, d - 1, 2) for s in sizes]):
                        out.append(("I", tuple(combo[:nb]), combo[nb] if has_else else None))
    _SK_CACHE[key] = out
    return out


def sk_str(block) -> str:
    def st(s):
        if isinstance(s, str):
            return s
        _, brs, els = s
        txt = "if{" + "}elif{".join(sk_str(b) for b in brs) + "}"
        if els is not None:
            txt += "else{" + sk_str(els) + "}"
        return txt

    return ";".join(st(s) for s in block)


# (template, names it needs bound, names it binds)
BIND_PLAIN = (
    ("t = {e}", (), ("t",)), ("t = {e}", (), ("t",)), ("u = {e}", (), ("u",)), ("a = {e}", (), ()), ("b = {e}", (), ()),
    ("t, u = {e}, {f}", (), ("t", "u")), ("t, b = {e}, {f}", (), ("t",)),
)
BIND_TUPLE = (("a, b = b, a", (), ()), ("u, t = t, {e}", ("t",), ("t", "u")), ("t, a = a, t", ("t",), ()), ("t, u = u, t", ("t", "u"), ()), ("t = u = {e}", (), ("t", "u")))
BIND_OUTSIDE = (
    ("t += {e}", ("t",), ()), ("t: float = {e}", (), ("t",)), ("for _k in range(2): t = t + {e}", ("t",), ()), ("while t < 1.0: t = t + 1.0", ("t",), ()),
    ("pass", (), ()), ("'a docstring'", (), ()), ("a -= {e}", (), ()), ("t *= 2.0", ("t",), ()),
)
EXPRS = (
    ("a - b", ()), ("b * 2.0", ()), ("a * b", ()), ("K - a", ()), ("a + 1.0", ()), ("loc(b, a)", ()), ("a", ()), ("1.5", ()),
    ("t + a", ("t",)), ("t * b - 1.0", ("t",)), ("t", ("t",)), ("b - t", ("t",)), ("loc(t, b)", ("t",)), ("t * 2.0", ("t",)),
    ("u - t", ("t", "u")), ("t - u * 2.0", ("t", "u")), ("u + a", ("u",)),
)
TESTS = (
    ("a > b", ()), ("a <= 1.0", ()), ("0.0 < b < a", ()), ("b >= 2.0", ()), ("a < b", ()), ("a - b > 0.5", ()), ("a >= 0.5", ()),
    ("t > 1.0", ("t",)), ("t >= a", ("t",)), ("t < b <= 2.5", ("t",)), ("u > t", ("t", "u")),
)
TESTS_EQ = (("a == b", ()), ("a != b", ()), ("a == 1.0", ()), ("t != 1.0", ("t",)), ("t == a", ("t",)))


def _pick(rng, pool, bound):
    ok = [x for x in pool if all(n in bound for n in x[1])]
    if rng.random() < 0.93:
        pref = [x for x in ok if x[1]]  # prefer reading a local when one is bound
        return rng.choice(pref if pref and rng.random() < 0.6 else ok)
    return rng.choice(pool)


def fill(block, rng, flavour: str):
    """instantiate a skeleton with statements / expressions / tests; flavour in plain | eq | outside | tuple.
    `bound` tracks the locals that are certainly bound, so that most bodies are defined somewhere."""

    def bind(bound):
        pool = BIND_OUTSIDE if flavour == "outside" and rng.random() < 0.45 else BIND_TUPLE if flavour == "tuple" and rng.random() < 0.5 else BIND_PLAIN
        tpl, _, binds = _pick(rng, pool, bound)
        if "t" not in bound and "t" not in binds and rng.random() < 0.6:
            tpl, binds = "t = {e}", ("t",)
        line = tpl.format(e=_pick(rng, EXPRS, bound)[0], f=_pick(rng, EXPRS, bound)[0])
        return line, bound | set(binds)

    def blk(b, ind, bound):
        """returns (lines, bound afterwards | None if the block always returns)"""
        lines = []
        for s in b:
            if s == "B":
                line, bound = bind(bound)
                lines.append(ind + line)
            elif s == "R":
                lines.append(ind + "return " + _pick(rng, EXPRS, bound)[0])
                return lines, None
            else:
                _, brs, els = s
                after = []
                for i, br in enumerate(brs):
                    pool = TESTS_EQ if flavour == "eq" and rng.random() < 0.5 else TESTS
                    lines.append(f"{ind}{'if' if i == 0 else 'elif'} {_pick(rng, pool, bound)[0]}:")
                    ls, bd = blk(br, ind + "    ", set(bound))
                    lines.extend(ls)
                    after.append(bd)
                if els is not None:
                    lines.append(f"{ind}else:")
                    ls, bd = blk(els, ind + "    ", set(bound))
                    lines.extend(ls)
                    after.append(bd)
                else:
                    after.append(set(bound))
                live = [x for x in after if x is not None]
                bound = set.intersection(*live) if live else bound  # every branch returns: what follows is dead code, still generated
        return lines, bound

    return blk(block, "", set())[0]


def sk_has_return(block) -> bool:
    return any(s == "R" or (not isinstance(s, str) and (any(sk_has_return(b) for b in s[1]) or (s[2] is not None and sk_has_return(s[2])))) for s in block)


EXPRS3 = (("a - c", ()), ("c * b", ()), ("c - t", ("t",)), ("loc3(c, a, b)", ()), ("c", ()))
TESTS3 = (("b < c", ()), ("a < b <= c", ()), ("c >= 1.0", ()), ("t > c", ("t",)))


def fill3(block, rng):
    """a filling over three parameters (a, b, c)"""
    global EXPRS, TESTS
    saved = EXPRS, TESTS
    EXPRS, TESTS = (*EXPRS3, *EXPRS3, *saved[0]), (*TESTS3, *TESTS3, *saved[1])
    try:
        return fill(block, rng, "plain")
    finally:
        EXPRS, TESTS = saved


def e2_cases(tier: str):
    """EVERY skeleton with a return up to the size bound x seeded fillings.  Returns (cases, bound text)."""
    base = seed()
    cases = []
    idx = 0

    def add(sk, flavours):
        nonlocal idx
        for k, fl in enumerate(flavours):
            rng = random.Random(base * 1000003 + idx * 131 + k)
            if fl == "three":
                body, params = fill3(sk, rng), ("a", "b", "c")
                if not any("c" in ln.replace("loc(", "") for ln in body):
                    params = ("a", "b")
            else:
                body, params = fill(sk, rng, fl), ("a", "b")
            pool = renamings(len(params), True)
            nren = 2 if tier == "quick" else 4
            rens = tuple(dict.fromkeys(pool[(idx * 5 + k * 3 + j * 7) % len(pool)] for j in range(nren)))
            cases.append((f"body:{sk_str(sk)}", params, body, rens))
        idx += 1

    small = [b for n in (1, 2, 3) for b in sk_blocks(n, 2, 3) if sk_has_return(b)]
    four1 = [b for b in sk_blocks(4, 1, 3) if sk_has_return(b)]
    four2 = [b for b in sk_blocks(4, 2, 3) if sk_has_return(b) and b not in set(four1)]
    if tier == "quick":
        for i, sk in enumerate(small):
            add(sk, (("plain", "eq"), ("plain", "outside"), ("plain", "tuple"))[i % 3])
        for i, sk in enumerate(four1):
            add(sk, ("plain",) if i % 2 == 0 else ("three",))
        rng = random.Random(base + 17)
        for sk in rng.sample(four2, 800):
            add(sk, ("plain",))
        bound = (f"all {len(small)} statement skeletons with <= 3 leaf statements (nesting <= 2, blocks <= 3 statements, <= 2 elif, with a return) x 2 fillings; "
                 f"all {len(four1)} skeletons with 4 leaves and nesting <= 1 x 1 filling; 800 of the {len(four2)} skeletons with 4 leaves and nesting 2 x 1 filling; 2 renamings each")
    else:
        for sk in small:
            add(sk, ("plain", "eq", "outside", "three", "tuple", "plain") * 2)
        for sk in four1:
            add(sk, ("plain", "eq", "outside", "three", "tuple"))
        for i, sk in enumerate(four2):
            add(sk, (("plain", "outside", "plain", "eq", "plain", "tuple")[i % 6],))
        five1 = [b for b in sk_blocks(5, 1, 3) if sk_has_return(b)]
        for sk in five1:
            add(sk, ("plain", "three"))
        bound = (f"all {len(small)} statement skeletons with <= 3 leaf statements (nesting <= 2, blocks <= 3 statements, <= 2 elif, with a return) x 12 fillings; "
                 f"all {len(four1) + len(four2)} skeletons with 4 leaves x 1 filling ({len(four1)} with nesting <= 1 x 5); all {len(five1)} skeletons with 5 leaves and nesting <= 1 x 2 fillings; 4 renamings each")
    return cases, bound


# ---------------------------------------------------------------------------
# E3: the tables


def table_entries():
    """[(source_name, py_fn, sympy_target)] for every KNOWN_FNS entry that can be named in source"""
    import numpy as np

    import mxlpy.meta.source_tools as st

    out, unnamed = [], []
    for fn, target in st.KNOWN_FNS.items():
        name = None
        cands = []
        nm = getattr(fn, "__name__", None)
        if nm:
            cands = [nm, f"math.{nm}", f"np.{nm}"]
        for c in cands:
            try:
                if eval(c, {"math": math, "np": np}) is fn:  # noqa: S307
                    name = c
                    break
            except Exception:  # noqa: BLE001
                continue
        if name is None:
            unnamed.append(repr(fn))
        else:
            out.append((name, fn, target))
    return out, unnamed


T_UN = (-2.5, -1.0, -0.5, 0.0, 0.5, 1.0, 2.0, 2.5)
T_BIN_Q = (-2.5, 0.0, 0.5, 2.0)
T_BIN_T = (-2.5, -1.0, 0.0, 0.5, 2.0, 3.0)
T_INT_UN = (0, 1, 3, 5)
T_INT_BIN = ((4, 6), (3, 5), (0, 4), (2, 10), (-4, 6))


def _lit(v) -> str:
    return repr(v)


def e3_cases(tier: str):
    """for every table entry: fn(<literals>) for every literal tuple on which Python defines a value, and fn(<arguments>)"""
    entries, unnamed = table_entries()
    tb = T_BIN_Q if tier == "quick" else T_BIN_T
    tuples = [(v,) for v in T_UN] + [(v,) for v in T_INT_UN] + list(itertools.product(tb, repeat=2)) + list(T_INT_BIN)
    cases, info = [], {"unnamed": unnamed, "not_checkable_on_scalars": [], "direct_meaning_differs": {}}
    import sympy

    for name, fn, target in entries:
        kept = []
        for tup in tuples:
            pv = py_eval(fn, tup)
            if pv is None:
                continue
            kept.append(tup)
            # informational: the meaning of the table target itself
            try:
                sv = target(*[sympy.Float(v) if isinstance(v, float) else sympy.Integer(v) for v in tup])
                kind, val = sym_eval(sv if isinstance(sv, sympy.Basic) else sympy.sympify(sv), {})
            except Exception as e:  # noqa: BLE001
                kind, val = "undef", type(e).__name__
            if not (kind == "num" and close(pv, val)):
                info["direct_meaning_differs"].setdefault(name, {"target": getattr(target, "__name__", str(target)), "example": [list(tup), pv, val if kind == "num" else str(val)]})
        if not kept:
            info["not_checkable_on_scalars"].append(name)
            continue
        for tup in kept:
            cases.append((f"table:{name}:literal", ("a",), [f"return a + {name}({', '.join(_lit(v) for v in tup)})"], ()))
        arities = sorted({len(tup) for tup in kept})
        for ar in arities:
            params = ("a", "b")[:ar]
            cases.append((f"table:{name}:arguments", ("a", "b"), [f"return {name}({', '.join(params)}) + b"], (("b", "a"), ("p", "q"))))
    return cases, info, len(entries)


def check_constants():
    """KNOWN_CONSTANTS entry by entry: the sympy constant must evaluate to the float it stands for"""
    import sympy

    import mxlpy.meta.source_tools as st

    bad, n = [], 0
    for k, v in st.KNOWN_CONSTANTS.items():
        n += 1
        if math.isnan(k):
            ok = v is sympy.nan
        elif math.isinf(k):
            ok = v is (sympy.oo if k > 0 else -sympy.oo)
        else:
            ok = close(k, float(sympy.sympify(v).evalf()))
        if not ok:
            bad.append((repr(k), str(v)))
    return bad, n


# ---------------------------------------------------------------------------
# failure classes (keys)

_UNSUPPORTED = (ast.AugAssign, ast.AnnAssign, ast.For, ast.While, ast.With, ast.Try, ast.Delete, ast.Global, ast.Nonlocal)


def body_features(src: str) -> list[str]:
    """syntactic features of a generated body, from its own AST (independent of the translator)"""
    fn = ast.parse(src).body[0]
    feats = set()

    def binds(stmts):
        return any(isinstance(n, (ast.Assign, ast.AugAssign, ast.AnnAssign)) for s in stmts for n in ast.walk(s))

    def walk(stmts, inside_if):
        for i, s in enumerate(stmts):
            if isinstance(s, _UNSUPPORTED):
                feats.add("statement-outside-subset")
            if isinstance(s, ast.Assign):
                if len(s.targets) > 1:
                    feats.add("chained-assignment")
                tg = s.targets[0]
                if isinstance(tg, ast.Tuple):
                    names = {e.id for e in tg.elts if isinstance(e, ast.Name)}
                    if names & {n.id for n in ast.walk(s.value) if isinstance(n, ast.Name)}:
                        feats.add("tuple-assignment-reads-its-own-targets")
            if isinstance(s, ast.If):
                branches = [s.body, s.orelse] if s.orelse else [s.body]
                if any(binds(b) for b in branches):
                    feats.add("binding-inside-branch")
                if i + 1 < len(stmts):
                    feats.add("code-after-if-else" if _has_else(s) else "code-after-if-without-else")
                if inside_if:
                    feats.add("nested-if")
                walk(s.body, True)
                walk(s.orelse, inside_if if len(s.orelse) == 1 and isinstance(s.orelse[0], ast.If) else True)
        if stmts and isinstance(stmts[-1], ast.If) and not _has_else(stmts[-1]) and inside_if:
            feats.add("nested-if-without-else")

    def _has_else(node):
        while node.orelse:
            if len(node.orelse) == 1 and isinstance(node.orelse[0], ast.If):
                node = node.orelse[0]
            else:
                return True
        return False

    walk(fn.body, False)
    feats.discard("nested-if")
    for n in ast.walk(fn):
        if isinstance(n, ast.Compare) and any(isinstance(o, (ast.Eq, ast.NotEq)) for o in n.ops):
            feats.add("equality-test")
    return sorted(feats)


# one class per body: the first feature present, control structure before statement forms; a chain
# without else followed by code (translated correctly by the original translator when its branches
# return) comes last so that it is a class of its own
CLASS_ORDER = ("binding-inside-branch", "nested-if-without-else", "code-after-if-else", "statement-outside-subset", "chained-assignment",
               "tuple-assignment-reads-its-own-targets", "equality-test", "code-after-if-without-else")


def body_class(feats) -> str | None:
    return next((c for c in CLASS_ORDER if c in feats), None)


def renaming_class(params, ren) -> str:
    if len(set(ren)) < len(ren):
        return "one-model-name-for-two-arguments"
    own = set(params)
    if set(ren) == own:
        return "own-parameter-names-permuted"
    if own & set(ren) and any(r in own and r != p for p, r in zip(params, ren)):
        return "own-parameter-name-used-for-another-argument"
    return "other-names"


def failure_key(tag: str, src: str, params, f: dict) -> str:
    part = tag.split(":")
    if f["renaming"] is not None:
        return f"bounded:renamed-arguments-change-the-value:{renaming_class(params, f['renaming'])}"
    sym = f["symptom"]
    if part[0] in ("value", "test", "stmt"):
        return f"bounded:{sym}:{part[0]}:{part[1]}"
    if part[0] == "table":
        return f"bounded:{sym}:table:{part[1]}:{part[2]}"
    return f"bounded:{sym}:body:{body_class(body_features(src)) or 'plain:' + part[1]}"


# ---------------------------------------------------------------------------
# run-time contract around the real fn_to_sympy (also sees the recursive calls for nested functions)

_CONTRACT = {"top": 0, "nested": 0, "violations": []}


def install_contract(st):
    import sympy

    if getattr(st.fn_to_sympy, "__c06_wrapped__", None):
        return
    orig = st.fn_to_sympy

    def contracted(fn, origin, model_args=None):
        res = orig(fn, origin, model_args)
        if origin == "c06":
            _CONTRACT["top" if model_args is None or all(isinstance(m, sympy.Symbol) and len(str(m)) == 1 for m in model_args) else "nested"] += 1
            # post: the expression speaks only about the model arguments (or the function's own parameters)
            if isinstance(res, sympy.Basic):
                try:
                    own = {sympy.Symbol(p) for p in fn.__code__.co_varnames[: fn.__code__.co_argcount]}
                    allowed = set().union(*[m.free_symbols for m in model_args]) if model_args else own
                    extra = res.free_symbols - allowed
                    if extra:
                        _CONTRACT["violations"].append((fn.__name__, sorted(map(str, extra))))
                except Exception:  # noqa: BLE001
                    pass
        return res

    contracted.__c06_wrapped__ = orig
    st.fn_to_sympy = contracted


# ---------------------------------------------------------------------------
# workers, replay, run


def _work(task):
    import logging

    logging.disable(logging.WARNING)
    import mxlpy.meta.source_tools as st

    pkgdir, modname, cases = task
    install_contract(st)
    _CONTRACT.update(top=0, nested=0, violations=[])
    res = run_cases(pkgdir, modname, cases)
    out = {"n": len(res), "outcomes": {}, "failures": [], "compared": 0, "translations": 0, "nontrivial": 0, "ren": [0, 0, 0], "samples": [],
           "contract": (_CONTRACT["top"], _CONTRACT["nested"], len(_CONTRACT["violations"])), "raised": {}}
    for r in res:
        oc = r["outcome"]
        out["outcomes"][oc] = out["outcomes"].get(oc, 0) + 1
        out["compared"] += r["compared"]
        out["translations"] += r["translations"]
        out["ren"][0] += r["ren_struct"]
        out["ren"][1] += r["ren_numeric"]
        out["ren"][2] += r["ren_refused"]
        if oc == "translated" and r["compared"] > 0:
            out["nontrivial"] += 1
            if len(out["samples"]) < 1 and not r["failures"]:
                out["samples"].append({"source": r["source"], "expression": r.get("expr"), "points_compared": r["compared"]})
        if oc.startswith("raised"):
            out["raised"].setdefault(oc + ":" + r["tag"].split(":")[0] + ":" + r["tag"].split(":")[1], r["source"])
        for f in r["failures"]:
            out["failures"].append({"key": failure_key(r["tag"], r["source"], r["params"], f), "tag": r["tag"], "source": r["source"], "params": r["params"], **f})
    return out


def replay(w: dict):
    """re-run one witness on the real code in a fresh package; returns the failure dict or None"""
    import mxlpy.meta.source_tools as st

    d = make_package()
    try:
        src = w["source"]
        name = src.split("(")[0].split()[1]
        body = [ln[4:] for ln in src.splitlines()[1:]]
        modname = "c06rep_" + hashlib.sha256(src.encode()).hexdigest()[:10]
        mod = load_module(d, modname, [(name, tuple(w["params"]), body)])
        fn = getattr(mod, name)
        ren = w.get("renaming")
        kind, e = translate(st, fn, ren)
        sys.modules.pop(modname, None)
        if kind != "expr":
            return None
        args = tuple(w["args"])
        pv = py_eval(fn, args)
        names = ren if ren is not None else w["params"]
        sigma = {}
        for nme, v in zip(names, args):
            sigma.setdefault(nme, v)
        k2, sv = sym_eval(e, sigma)
        if pv is None or (k2 == "num" and close(pv, sv)):
            return None
        return {"python": pv, "sympy": sv, "expr": str(e)[:200]}
    finally:
        shutil.rmtree(d, ignore_errors=True)


def _chunks(xs, size):
    return [xs[i : i + size] for i in range(0, len(xs), size)]


def run(ctx: Ctx) -> None:
    import logging

    logging.disable(logging.WARNING)
    t0 = time.time()
    import mxlpy.meta.source_tools as st  # import before forking so that the workers inherit it

    tier = ctx.tier
    pkgdir = make_package()
    try:
        e1 = e1_cases()
        e2, e2_bound = e2_cases(tier)
        e3, e3_info, n_entries = e3_cases(tier)
        const_bad, n_const = check_constants()
        tasks = []
        for part, cases, size in (("e1", e1, 40), ("e2", e2, 60), ("e3", e3, 80)):
            for i, ch in enumerate(_chunks(cases, size)):
                tasks.append((part, (pkgdir, f"c06gen_{part}_{i}", ch)))
        workers = max(1, min(14, (os.cpu_count() or 2) - 2))
        try:
            pool = ProcessPoolExecutor(max_workers=workers, mp_context=mp.get_context("fork"))
        except Exception:  # noqa: BLE001
            pool = None
        if pool is not None:
            with pool:
                results = list(pool.map(_work, [t[1] for t in tasks], chunksize=1))
        else:
            results = [_work(t[1]) for t in tasks]
    finally:
        shutil.rmtree(pkgdir, ignore_errors=True)

    seen = set()
    for part in ("e1", "e2", "e3"):
        rs = [r for (p, _), r in zip(tasks, results) if p == part]
        n = sum(r["n"] for r in rs)
        outcomes: dict = {}
        for r in rs:
            for k, v in r["outcomes"].items():
                outcomes[k.split(":")[0]] = outcomes.get(k.split(":")[0], 0) + v
        nontrivial = sum(r["nontrivial"] for r in rs)
        top = sum(r["contract"][0] for r in rs)
        nested = sum(r["contract"][1] for r in rs)
        if top == 0 or (part == "e1" and nested == 0):
            raise CheckerError(f"{part}: the contract wrapper around fn_to_sympy was never evaluated (top={top}, nested={nested})")
        if nontrivial == 0:
            raise CheckerError(f"{part}: no body was translated and compared")
        for r in rs:
            for f in r["failures"]:
                if f["key"] in seen:
                    continue
                seen.add(f["key"])
                w = {k: f[k] for k in ("source", "params", "renaming", "args")}
                try:
                    again = replay(w)
                except Exception:  # noqa: BLE001
                    again = None
                what = (f"{f['symptom']}: python={f['python']} sympy={f['sympy']} at {dict(zip(f['renaming'] or f['params'], f['args']))}"
                        f"{' after renaming to ' + str(f['renaming']) if f['renaming'] else ''}; expr={f['expr']}; " + " / ".join(f["source"].splitlines()[1:]))[:400]
                ctx.fail(key=f["key"], kind="bounded", what=what, witness=w, replayed=again is not None,
                         detail={"tag": f["tag"], "python": f["python"], "sympy": f["sympy"], "expression": f["expr"], "replay": again,
                                 "features": body_features(f["source"])})
        raised: dict = {}
        for r in rs:
            for k, v in r["raised"].items():
                raised.setdefault(k, v)
        ctx.extra.setdefault("translator_raised_instead_of_returning_None", {}).update({k: v for k, v in sorted(raised.items())[:8]})
        names = {"e1": "C06-leaves", "e2": "C06-statement-skeletons", "e3": "C06-tables"}
        bounds = {
            "e1": (f"{len(VALUE_LEAVES)} value expressions x {len(VALUE_CONTEXTS)} statement contexts + {len(COND_LEAVES)} tests x {len(COND_CONTEXTS)} contexts + {len(STMT_CASES)} statement forms x 2 contexts + {len(SHADOW_CASES)} bodies whose parameters/locals are named like module level floats "
                   f"x all renamings of the model arguments in the first context ({len(REN2)} for two parameters, {len(REN3)} for three), {len(REN2_FEW)}-{len(REN3_FEW)} renamings in the other contexts"),
            "e2": e2_bound,
            "e3": (f"{n_entries} KNOWN_FNS entries x literal argument tuples on which Python defines a value ({len(T_UN)} floats, {len(T_INT_UN)} ints, "
                   f"{len(T_BIN_Q if tier == 'quick' else T_BIN_T)}^2 float pairs, {len(T_INT_BIN)} int pairs) + each entry applied to arguments; {n_const} KNOWN_CONSTANTS entries"),
        }
        ctx.add_bounded(
            name=names[part], tool="generated source modules + real fn_to_sympy; oracle = CPython running the same source; symbolic evaluation (Floats, lazy Piecewise) + lambdify nomination",
            bound=bounds[part] + f"; outcomes {outcomes}; {sum(r['translations'] for r in rs)} translations, {sum(r['compared'] for r in rs)} point comparisons; "
                  f"renamings: {sum(r['ren'][0] for r in rs)} equal to the simultaneous renaming structurally, {sum(r['ren'][1] for r in rs)} compared numerically, {sum(r['ren'][2] for r in rs)} refused; "
                  f"fn_to_sympy contract evaluated {top} times at top level, {nested} times for nested calls",
            cases=n - outcomes.get("vacuous", 0), distinct_nontrivial=nontrivial,
            rule="one case = one generated function (distinct source text) put through the contract under its renamings; vacuous bodies (Python defines no value on the grid) are not counted; "
                 "non-trivial = translated to an expression (not refused) and compared with Python on >= 1 defined grid point",
            exhaustive=part != "e2" or tier == "thorough", samples=[x for r in rs for x in r["samples"]][:3],
        )
    for k, v in const_bad:
        ctx.fail(key=f"bounded:value-differs:constant:{k}", kind="bounded", what=f"KNOWN_CONSTANTS maps {k} to {v}", witness={"constant": k}, replayed=True, detail={})
    ctx.extra["table"] = e3_info
    ctx.extra["wall_bounded_s"] = round(time.time() - t0, 1)
    ctx.trust(
        "CPython executing the generated source is the meaning of the function (the oracle)",
        "sympy: constructors evaluate on Float arguments; xreplace is simultaneous (used as a shortcut to skip numeric comparison of a renaming, never to report)",
        "sympy.lambdify(modules='math') only nominates points, every reported mismatch is confirmed by symbolic evaluation",
        "importlib/inspect.getsource on real files in a per-run temporary package",
    )
    ctx.assume(
        f"values agree when |python - sympy| <= {RTOL} * max(1, |values|): sympy Floats carry 53-bit mantissas and may re-associate; grid values are dyadic so branch tests on sums/differences/products are exact",
        "a point where Python raises, returns None, a complex number, nan or inf is a point where the function is not defined: nothing is claimed there",
        "an exception escaping fn_to_sympy is a visible refusal (no expression), recorded under translator_raised_instead_of_returning_None, not a violation",
    )
    logging.disable(logging.NOTSET)
