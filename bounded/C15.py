"""Bounded stand-in for C15 (labelled bounded, never counted as proved).

Contract (taken from the property statement), checked at run time on the REAL
``Simulator.simulate_to_steady_state(...).get_result()`` and ``scan.steady_state`` (default
Scipy / lsoda integrator) over enumerated small reaction networks:

  stable linear networks  dy/dt = A y + b  (chains, branches, converging branches, reversible
  steps, a cycle, leaky chains, closed reversible networks with a conserved total; rate constants
  from slow 0.05 .. 0.15 to fast 25; slowest relaxation rate >= 0.04, i.e. relaxation time <= 25
  = a quarter of the search step 100)
    x  initial values (model default zero / non-zero, user-supplied all-zero / non-zero / the
       steady state itself)
    x  tolerances (default, 1e-4, 1e-6, 1e-8; thorough also 1e-3, 1e-5, 1e-7)
    x  absolute / relative norm
    x  entry point (fresh Simulator; Simulator after an earlier simulate(); scan.steady_state
       sequential / parallel over values of a rate constant or of an initial value):

  (S)  success  =>  || y_reported - y* ||_2  <=  F (tol_eff + d) + d, where y* is the analytic
       steady state (for closed networks the one with the initial total), F = ||M (M - I)^-1||_2,
       M = exp(100 A) restricted to the non-conserved subspace (computed with scipy.linalg.expm,
       no mxlpy involved): the search accepts y2 when ||y2 - y1|| < tol for two states 100 apart,
       y2 - y1 = (M - I) e1 and e2 = M e1, hence e2 = M (M - I)^-1 (y2 - y1).  With relaxation
       time <= 25, F <= e^-4 / (1 - e^-4) ~ 0.02 for normal A.  tol_eff = tol (absolute norm) or
       tol * ||y1||_inf (relative norm); d = assumed accuracy of lsoda over one step (NOISE).
  (B)  success  =>  reported fluxes balance: || N v_reported ||_2 <= ||A||_2 * bound(S)  (N from
       the network spec, not from the model) and every flux is within k * bound(S) of the analytic
       steady-state flux;
  (I)  run-time contract attached (icontract.ensure, monkey-patched) to the real
       ``Scipy.integrate_to_steady_state``: a state returned as steady does not move by more
       than 2 tol_eff + noise when an independent solver (scipy solve_ivp Radau, rtol 1e-9) advances it
       by another 100 time units.  It covers the calls nested in scan workers; evaluations counted.
  (F)  networks WITHOUT a steady state (constant accumulation dx/dt = c, accumulation behind a
       steady intermediate, constant depletion, exponential growth, growth feeding a second
       species, finite-time blow-up 2X -> 3X) must give a failure value: ``get_result().value`` is an
       exception / the scan row's variables are all NaN - never a state;
  (F2) the same when a successful simulate() preceded the failing search on the same Simulator.

  A stable network reported as *failure* is not a violation of the property as stated (counted and
  reported only); zero successes is a checker error (vacuity).
"""
from __future__ import annotations

import itertools
import logging
import math
import multiprocessing
import os
import random
import warnings
from concurrent.futures import ProcessPoolExecutor

import numpy as np

from vlib.core import CheckerError, Ctx, seed

STEP = 100.0  # Scipy.integrate_to_steady_state(step_size=100)
MIN_RATE = 0.04  # slowest admitted relaxation rate (bounded relaxation time 25 = STEP / 4)
DEFAULT_TOL = 1e-6  # Simulator.simulate_to_steady_state(tolerance=1e-6)
# assumed accuracy of spi.ode('lsoda') (its default rtol = 1e-6, atol = 1e-12) over one search
# step near the steady state, relative to the size of the state:  d = NOISE * max(|y*|, |y0|)
NOISE = 5e-6
VARS3 = ("x0", "x1", "x2")


# ---------------------------------------------------------------------------
# rate laws (module level: picklable for the parallel scan)


def r_const(c):
    return c


def r_ma(k, s):
    return k * s


def r_sq(k, s):
    return k * s * s


# ---------------------------------------------------------------------------
# network specs (JSON-able)
#
# {"family": str, "n": int, "influx": [[i, c]], "conv": [[i, j, k]], "out": [[i, k]]}
# reaction / parameter names: in<i> (c_in<i>), c<idx> (k_c<idx>), o<idx> (k_o<idx>)


def _spec(family, n, influx=(), conv=(), out=()):
    return {
        "family": family,
        "n": n,
        "influx": [[int(i), float(c)] for i, c in influx],
        "conv": [[int(i), int(j), float(k)] for i, j, k in conv],
        "out": [[int(i), float(k)] for i, k in out],
    }


# topology -> (number of rate constants, builder(ks, c))
TOPOLOGIES = {
    "chain1": (1, lambda k, c: _spec("chain1", 1, [(0, c)], [], [(0, k[0])])),
    "chain2": (2, lambda k, c: _spec("chain2", 2, [(0, c)], [(0, 1, k[0])], [(1, k[1])])),
    "chain3": (3, lambda k, c: _spec("chain3", 3, [(0, c)], [(0, 1, k[0]), (1, 2, k[1])], [(2, k[2])])),
    "branch": (4, lambda k, c: _spec("branch", 3, [(0, c)], [(0, 1, k[0]), (0, 2, k[1])], [(1, k[2]), (2, k[3])])),
    "converge": (3, lambda k, c: _spec("converge", 3, [(0, c), (1, 0.5 * c)], [(0, 2, k[0]), (1, 2, k[1])], [(2, k[2])])),
    "rev2": (3, lambda k, c: _spec("rev2", 2, [(0, c)], [(0, 1, k[0]), (1, 0, k[1])], [(1, k[2])])),
    "rev3": (5, lambda k, c: _spec("rev3", 3, [(0, c)], [(0, 1, k[0]), (1, 0, k[1]), (1, 2, k[2]), (2, 1, k[3])], [(2, k[4])])),
    "cycle3": (4, lambda k, c: _spec("cycle3", 3, [(0, c)], [(0, 1, k[0]), (1, 2, k[1]), (2, 0, k[2])], [(2, k[3])])),
    "leaky2": (3, lambda k, c: _spec("leaky2", 2, [(0, c)], [(0, 1, k[0])], [(0, k[1]), (1, k[2])])),
    "closed2": (2, lambda k, c: _spec("closed2", 2, [], [(0, 1, k[0]), (1, 0, k[1])], [])),
    "closed3": (4, lambda k, c: _spec("closed3", 3, [], [(0, 1, k[0]), (1, 0, k[1]), (1, 2, k[2]), (2, 1, k[3])], [])),
}

K_QUICK = (0.05, 0.12, 1.0, 25.0)
K_FULL = (0.05, 0.08, 0.15, 0.4, 1.0, 3.0, 25.0)
INFLUX = (0.3, 2.0)

INIT_A = (2.0, 0.5, 1.25)  # non-zero model default
INIT_B = (0.7, 3.0, 0.2)  # non-zero user-supplied
Y0_KINDS = ("default-zero", "default-nonzero", "user-zero", "user-nonzero", "user-steady")


def matrices(spec):
    """A, b of dy/dt = A y + b; stoichiometric matrix N; reaction names; parameter values;
    per reaction (kind, species index or None, parameter name)."""
    n = spec["n"]
    a = np.zeros((n, n))
    b = np.zeros(n)
    names, cols, pars, laws = [], [], {}, []
    for i, c in spec["influx"]:
        b[i] += c
        col = np.zeros(n)
        col[i] = 1
        names.append(f"in{i}")
        pars[f"c_in{i}"] = c
        laws.append(("const", None, f"c_in{i}"))
        cols.append(col)
    for idx, (i, j, k) in enumerate(spec["conv"]):
        a[i, i] -= k
        a[j, i] += k
        col = np.zeros(n)
        col[i] = -1
        col[j] = 1
        names.append(f"c{idx}")
        pars[f"k_c{idx}"] = k
        laws.append(("ma", i, f"k_c{idx}"))
        cols.append(col)
    for idx, (i, k) in enumerate(spec["out"]):
        a[i, i] -= k
        col = np.zeros(n)
        col[i] = -1
        names.append(f"o{idx}")
        pars[f"k_o{idx}"] = k
        laws.append(("ma", i, f"k_o{idx}"))
        cols.append(col)
    return a, b, np.array(cols).T, names, pars, laws


def build_model(spec, init):
    from mxlpy import Model

    _a, _b, nmat, names, pars, laws = matrices(spec)
    m = Model()
    m.add_parameters(dict(pars))
    m.add_variables({f"x{i}": float(init[i]) for i in range(spec["n"])})
    for r, (name, (kind, i, p)) in enumerate(zip(names, laws)):
        st = {f"x{s}": float(nmat[s, r]) for s in range(spec["n"]) if nmat[s, r] != 0}
        if kind == "const":
            m.add_reaction(name, r_const, args=[p], stoichiometry=st)
        else:
            m.add_reaction(name, r_ma, args=[p, f"x{i}"], stoichiometry=st)
    return m


def analyse(spec, y0):
    """Independent oracle for a linear network started at y0.  Returns None if the network is
    outside the scope (not stable / relaxation too slow), else a dict with the analytic steady
    state, the amplification factors and the analytic fluxes."""
    from scipy.linalg import expm, null_space

    a, b, nmat, names, pars, laws = matrices(spec)
    n = spec["n"]
    y0 = np.asarray(y0, dtype=float)
    left = null_space(a.T)  # conserved totals
    q = np.eye(n) if left.shape[1] == 0 else null_space(left.T)
    ar = q.T @ a @ q
    lam = np.linalg.eigvals(ar) if ar.size else np.array([])
    if lam.size and float(np.max(lam.real)) > -MIN_RATE:
        return None
    if left.shape[1]:
        lhs = np.vstack([a, left.T])
        rhs = np.concatenate([-b, left.T @ y0])
    else:
        lhs, rhs = a, -b
    ystar, *_ = np.linalg.lstsq(lhs, rhs, rcond=None)
    if float(np.linalg.norm(a @ ystar + b)) > 1e-10 * (1 + float(np.linalg.norm(b))):
        # b has a component along a conserved direction: no steady state (not used by the stable set)
        return None
    if ar.size:
        mr = expm(STEP * ar)
        inv = np.linalg.inv(mr - np.eye(len(mr)))
        f = float(np.linalg.norm(mr @ inv, 2))
        g = float(np.linalg.norm(inv, 2))
        mnorm = float(np.linalg.norm(mr, 2))
    else:
        f, g, mnorm = 0.0, 0.0, 0.0
    vstar = []
    kmax = 0.0
    for kind, i, p in laws:
        vstar.append(pars[p] if kind == "const" else pars[p] * ystar[i])
        if kind != "const":
            kmax = max(kmax, abs(pars[p]))
    return {
        "ystar": ystar,
        "F": f,
        "G": g,
        "Mnorm": mnorm,
        "Anorm": float(np.linalg.norm(a, 2)),
        "N": nmat,
        "names": names,
        "vstar": np.array(vstar),
        "kmax": kmax,
        "slowest": float(-np.max(lam.real)) if lam.size else math.inf,
    }


def state_bound(orc, y0, tol, rel):
    """Right-hand side of clause (S)."""
    scale = max(float(np.max(np.abs(orc["ystar"]))), float(np.max(np.abs(y0))), 1e-12)
    d = NOISE * scale
    if rel:
        y1 = (float(np.max(np.abs(orc["ystar"]))) + orc["G"] * d) / (1 - orc["G"] * tol)
        tol_eff = tol * y1
    else:
        tol_eff = tol
    return orc["F"] * (tol_eff + d) + d, tol_eff, d


# ---------------------------------------------------------------------------
# networks without a steady state

NOSTEADY = {
    # family: (n, needs non-zero start, builder(model))
    "accumulation": 1,
    "depletion": 1,
    "sink-accumulation": 2,
    "exponential-growth": 1,
    "growth-coupled": 2,
    "blow-up": 1,
}
NOSTEADY_RATES = {
    "accumulation": (2.0, 0.01),
    "depletion": (0.5,),
    "sink-accumulation": (1.0, 0.05),
    "exponential-growth": (0.01, 0.1, 1.0),
    "growth-coupled": (0.02, 0.3),
    "blow-up": (1.0,),
}
NEEDS_NONZERO = ("exponential-growth", "growth-coupled", "blow-up")


def build_nosteady(family, rate, init):
    from mxlpy import Model

    m = Model()
    n = NOSTEADY[family]
    m.add_variables({f"x{i}": float(init[i]) for i in range(n)})
    if family == "accumulation":  # dx/dt = c
        m.add_parameters({"c": rate})
        m.add_reaction("v", r_const, args=["c"], stoichiometry={"x0": 1.0})
    elif family == "depletion":  # dx/dt = -c
        m.add_parameters({"c": rate})
        m.add_reaction("v", r_const, args=["c"], stoichiometry={"x0": -1.0})
    elif family == "sink-accumulation":  # -> x0 -> x1, x1 never leaves
        m.add_parameters({"c": 1.0, "k": rate})
        m.add_reaction("vin", r_const, args=["c"], stoichiometry={"x0": 1.0})
        m.add_reaction("v", r_ma, args=["k", "x0"], stoichiometry={"x0": -1.0, "x1": 1.0})
    elif family == "exponential-growth":  # X -> 2X
        m.add_parameters({"g": rate})
        m.add_reaction("v", r_ma, args=["g", "x0"], stoichiometry={"x0": 1.0})
    elif family == "growth-coupled":  # X -> 2X, X -> X + Y, Y ->
        m.add_parameters({"g": rate, "k": 1.0})
        m.add_reaction("v", r_ma, args=["g", "x0"], stoichiometry={"x0": 1.0})
        m.add_reaction("w", r_ma, args=["k", "x0"], stoichiometry={"x1": 1.0})
        m.add_reaction("u", r_ma, args=["k", "x1"], stoichiometry={"x1": -1.0})
    elif family == "blow-up":  # 2X -> 3X, x(t) = x0 / (1 - g x0 t)
        m.add_parameters({"g": rate})
        m.add_reaction("v", r_sq, args=["g", "x0"], stoichiometry={"x0": 1.0})
    else:  # pragma: no cover
        raise CheckerError(f"unknown family {family}")
    return m


# ---------------------------------------------------------------------------
# (I) run-time contract on the real integrator

_EVALS = {"n": 0, "success": 0}
_ATTACHED = {"on": False, "orig": None}
_LAST = {}


class _Budget(Exception):
    pass


def _steady_post(self, tolerance, rel_norm, result) -> bool:
    """A state returned as steady does not move when an independent solver advances it."""
    from scipy.integrate import solve_ivp

    _EVALS["n"] += 1
    tc = result.value
    if isinstance(tc, Exception):
        return True
    _EVALS["success"] += 1
    y = np.asarray(tc.values[-1], dtype=float)
    if not np.all(np.isfinite(y)):
        _LAST.update(state=[float(v) for v in y], moved=math.inf, limit=0.0)
        return False
    scale = float(np.max(np.abs(y)))
    tol_eff = tolerance * (scale if rel_norm else 1.0)
    limit = 2 * tol_eff + 3 * NOISE * max(scale, 1e-12)
    budget = {"n": 0}

    def rhs(t, x):  # bounded work: a state that needs > 4000 evaluations for one step is not steady
        budget["n"] += 1
        if budget["n"] > 4000:
            raise _Budget
        out = np.asarray(self.rhs(t, x), dtype=float)
        if not np.all(np.isfinite(out)):
            raise _Budget
        return out

    try:
        with warnings.catch_warnings():
            warnings.simplefilter("ignore")
            sol = solve_ivp(rhs, (0.0, STEP), y, method="Radau", rtol=1e-9, atol=1e-12, t_eval=[STEP])
        moved = float(np.linalg.norm(sol.y[:, -1] - y)) if sol.success and sol.y.shape[1] else math.inf
    except (_Budget, ArithmeticError, ValueError):  # Radau refuses non-finite Jacobians with ValueError
        moved = math.inf
    _LAST.update(state=[float(v) for v in y], moved=moved, limit=limit, t=float(tc.time[-1]))
    return moved <= limit


def _steady_error(self, tolerance, rel_norm, result):
    import icontract

    return icontract.ViolationError(
        f"state {_LAST.get('state')} returned as steady at t={_LAST.get('t')} moves by {_LAST.get('moved'):.3g} "
        f"(> {_LAST.get('limit'):.3g}) when integrated for another {STEP:g} time units (tolerance={tolerance}, rel_norm={rel_norm})"
    )


def attach_contract() -> None:
    if _ATTACHED["on"]:
        return
    import icontract

    from mxlpy.integrators.int_scipy import Scipy

    orig = Scipy.integrate_to_steady_state
    _ATTACHED["orig"] = orig
    Scipy.integrate_to_steady_state = icontract.ensure(_steady_post, error=_steady_error)(orig)
    _ATTACHED["on"] = True


def detach_contract() -> None:
    if not _ATTACHED["on"]:
        return
    from mxlpy.integrators.int_scipy import Scipy

    Scipy.integrate_to_steady_state = _ATTACHED["orig"]
    _ATTACHED["on"] = False


# ---------------------------------------------------------------------------
# running one case on the real code


def quiet() -> None:
    warnings.filterwarnings("ignore")
    logging.disable(logging.CRITICAL)
    os.environ.setdefault("TQDM_DISABLE", "1")
    np.seterr(all="ignore")


def _y0_setup(kind, n, ystar_of=None):
    """-> (model initial values, user-supplied y0 or None, effective start)."""
    zero = [0.0] * n
    a, b = list(INIT_A[:n]), list(INIT_B[:n])
    if kind == "default-zero":
        return zero, None, zero
    if kind == "default-nonzero":
        return a, None, a
    if kind == "user-zero":
        return a, zero, zero
    if kind == "user-nonzero":
        return zero, b, b
    if kind == "user-steady":
        return zero, None, None  # filled by the caller (needs the analytic steady state)
    raise CheckerError(f"unknown y0 kind {kind}")


def _norm_name(rel):
    return "rel-norm" if rel else "abs-norm"


def _sim_kwargs(tol, rel):
    kw = {}
    if tol is not None:
        kw["tolerance"] = tol
    if rel is not None:
        kw["rel_norm"] = rel
    return kw


def _call_simulator(model, user_y0, tol, rel, pre_simulate):
    from mxlpy import Simulator

    sim = Simulator(model, y0=None if user_y0 is None else {f"x{i}": float(v) for i, v in enumerate(user_y0)})
    if pre_simulate is not None:
        sim.simulate(pre_simulate)
        if sim.variables is None:
            return "pre-simulate-failed", None
    sim.simulate_to_steady_state(**_sim_kwargs(tol, rel))
    res = sim.get_result()
    if isinstance(res.value, Exception):
        return "failure", type(res.value).__name__
    return "success", res.value


def _with_contract(fn):
    """Run fn with the integrator contract attached; on a violation record it and run again
    without the contract so that the other clauses are still evaluated."""
    import icontract

    violation = None
    attach_contract()
    try:
        try:
            out = fn()
        except icontract.ViolationError as e:
            violation = str(e).splitlines()[0]
            out = None
    finally:
        detach_contract()
    if violation is not None:
        out = fn()
    return out, violation


def run_case(case: dict) -> dict:
    """One case on the real code.  Returns {"failures": [{clause, cls, what, detail}], "outcome": ...}."""
    quiet()
    try:
        if case["kind"] == "stable":
            return _run_stable(case)
        if case["kind"] == "nosteady":
            return _run_nosteady(case)
        if case["kind"] == "scan":
            return _run_scan(case)
    except CheckerError:
        raise
    except Exception as e:  # noqa: BLE001
        return {
            "outcome": "raised",
            "failures": [
                {
                    "clause": f"unexpected-{type(e).__name__}",
                    "cls": f"{case['kind']}:{case.get('entry', '')}",
                    "what": f"{type(e).__name__}: {e}",
                    "detail": {},
                }
            ],
            "stats": {},
        }
    raise CheckerError(f"unknown case kind {case['kind']}")


def _check_success(orc, start, tol, rel, state, fluxes, cls, time_reported):
    """Clauses (S) and (B) for one reported steady state."""
    fails = []
    tol_v = DEFAULT_TOL if tol is None else tol
    rel_v = bool(rel)
    bound, tol_eff, d = state_bound(orc, start, tol_v, rel_v)
    err = float(np.linalg.norm(state - orc["ystar"]))
    stats = {"err_over_bound": err / bound if bound > 0 else (0.0 if err == 0 else math.inf), "err": err, "bound": bound}
    if not err <= bound:
        fails.append(
            {
                "clause": "reported-steady-state-differs-from-analytic",
                "cls": cls,
                "what": f"reported as steady at t={time_reported:g}: {[float(v) for v in state]}, analytic steady state "
                f"{[float(v) for v in orc['ystar']]}: distance {err:.3g} > bound {bound:.3g} "
                f"(tolerance {tol_v:g}, {_norm_name(rel_v)}, F={orc['F']:.3g}, slowest rate {orc['slowest']:.3g})",
                "detail": {"error": err, "bound": bound, "tol_eff": tol_eff, "noise": d, "F": orc["F"], "t": time_reported},
            }
        )
    # statistic only (not a clause): distance in units of 10 effective tolerances.  For tolerances below the
    # accuracy the solver is run with, no search of this design can stay within a few tolerances.
    stats["err_over_10tol"] = err / (10 * tol_eff) if tol_eff > 0 else (0.0 if err == 0 else math.inf)
    if fluxes is not None:
        v = np.array([float(fluxes[nm]) for nm in orc["names"]])
        imb = float(np.linalg.norm(orc["N"] @ v))
        lim = orc["Anorm"] * bound + 1e-12 * (1 + float(np.sum(np.abs(v))))
        dv = float(np.max(np.abs(v - orc["vstar"]))) if len(v) else 0.0
        limv = orc["kmax"] * bound + 1e-12 * (1 + float(np.max(np.abs(orc["vstar"]), initial=0.0)))
        stats["imbalance_over_bound"] = imb / lim if lim > 0 else 0.0
        if not imb <= lim or not dv <= limv:
            fails.append(
                {
                    "clause": "reported-fluxes-do-not-balance",
                    "cls": cls,
                    "what": f"reported fluxes {dict(zip(orc['names'], [float(x) for x in v]))} at t={time_reported:g}: "
                    f"|N v| = {imb:.3g} (limit {lim:.3g}), max deviation from analytic steady-state fluxes {dv:.3g} (limit {limv:.3g})",
                    "detail": {"imbalance": imb, "limit": lim, "flux_error": dv, "flux_limit": limv},
                }
            )
    return fails, stats


def _run_stable(case):
    spec, kind, tol, rel, entry = case["spec"], case["y0"], case["tol"], case["rel"], case["entry"]
    n = spec["n"]
    init, user, start = _y0_setup(kind, n)
    if kind == "user-steady":
        pre = analyse(spec, INIT_B[:n])
        if pre is None:
            return {"outcome": "out-of-scope", "failures": [], "stats": {}}
        user = [float(v) for v in pre["ystar"]]
        start = user
    orc = analyse(spec, start)
    if orc is None:
        return {"outcome": "out-of-scope", "failures": [], "stats": {}}
    cls = f"{entry}:{kind}:{_norm_name(bool(rel))}"
    pre_sim = 3.0 if entry == "simulator-after-simulate" else None

    def go():
        return _call_simulator(build_model(spec, init), user, tol, rel, pre_sim)

    (status, val), violation = _with_contract(go)
    fails = []
    if violation:
        fails.append({"clause": "state-returned-as-steady-moves-on", "cls": cls, "what": violation, "detail": dict(_LAST)})
    if status == "pre-simulate-failed":
        return {"outcome": "pre-simulate-failed", "failures": fails, "stats": {}}
    if status == "failure":
        return {"outcome": "stable-reported-as-failure", "failures": fails, "stats": {"failure": val}}
    sim = val
    vars_ = sim.variables
    state = vars_.iloc[-1][[f"x{i}" for i in range(n)]].to_numpy(dtype=float)
    t_rep = float(vars_.index[-1])
    flux = sim.fluxes.iloc[-1]
    f2, stats = _check_success(orc, start, tol, rel, state, flux, cls, t_rep)
    stats["t"] = t_rep
    stats["F"] = orc["F"]
    return {"outcome": "success", "failures": fails + f2, "stats": stats}


def _nosteady_start(family, kind):
    n = NOSTEADY[family]
    init, user, start = _y0_setup(kind, n)
    if family == "blow-up":  # small start so that an earlier simulate(3) succeeds: blow-up at t = 1/(g x0)
        sc = 0.01
        init = [v * sc for v in init]
        user = None if user is None else [v * sc for v in user]
        start = [v * sc for v in start]
    return init, user, start


def _run_nosteady(case):
    family, rate, kind, tol, rel, entry = case["family"], case["rate"], case["y0"], case["tol"], case["rel"], case["entry"]
    init, user, start = _nosteady_start(family, kind)
    cls = f"{entry}:{family}:{_norm_name(bool(rel))}"
    pre_sim = 3.0 if entry == "simulator-after-simulate" else None

    def go():
        return _call_simulator(build_nosteady(family, rate, init), user, tol, rel, pre_sim)

    (status, val), violation = _with_contract(go)
    fails = []
    if violation:
        fails.append({"clause": "state-returned-as-steady-moves-on", "cls": cls, "what": violation, "detail": dict(_LAST)})
    if status == "pre-simulate-failed":
        return {"outcome": "pre-simulate-failed", "failures": fails, "stats": {}}
    if status == "success":
        last = val.variables.iloc[-1]
        fails.append(
            {
                "clause": "no-steady-state-reported-as-steady" if pre_sim is None else "failed-search-after-simulate-reported-as-success",
                "cls": cls,
                "what": f"{family} (rate {rate:g}, start {start}) has no steady state, but get_result() is a success whose last row is "
                f"t={float(val.variables.index[-1]):g}: {last.to_dict()}",
                "detail": {"rows": int(len(val.variables))},
            }
        )
        return {"outcome": "nosteady-reported-as-state", "failures": fails, "stats": {}}
    return {"outcome": "nosteady-failure", "failures": fails, "stats": {"failure": val}}


def _scan_shim(max_workers):
    """scan.steady_state has no max_workers argument: limit the pool it creates."""
    import functools

    from mxlpy import scan as scan_mod

    orig = scan_mod.parallelise
    scan_mod.parallelise = functools.partial(orig, max_workers=max_workers, disable_tqdm=True)
    return orig


def _run_scan(case):
    """scan.steady_state over values of one rate constant / one initial value of a stable network.
    Rows: value making the network stable (analytic check), or removing its steady state
    (k = 0 on the only exit: accumulation; k < 0: growth) -> NaN row required."""
    import pandas as pd

    from mxlpy import scan as scan_mod

    spec, kind, rel, parallel = case["spec"], case["y0"], case["rel"], case["parallel"]
    target, values = case["target"], case["values"]
    n = spec["n"]
    init, user, start = _y0_setup(kind, n)
    entry = "scan-parallel" if parallel else "scan-sequential"
    cls = f"{entry}:{kind}:{_norm_name(bool(rel))}"

    def spec_with(value):
        s = {**spec, "conv": [list(c) for c in spec["conv"]], "out": [list(o) for o in spec["out"]]}
        st = list(start)
        kind_t, idx = target
        if kind_t == "out":
            s["out"][idx][1] = value
        elif kind_t == "conv":
            s["conv"][idx][2] = value
        elif kind_t == "init":
            st[idx] = value
        return s, st

    pname = {"out": f"k_o{target[1]}", "conv": f"k_c{target[1]}", "init": f"x{target[1]}"}[target[0]]
    frame = pd.DataFrame({pname: [float(v) for v in values]})

    def go():
        model = build_model(spec, init)
        y0 = None if user is None else {f"x{i}": float(v) for i, v in enumerate(user)}
        orig = _scan_shim(4)
        try:
            res = scan_mod.steady_state(model, to_scan=frame, y0=y0, rel_norm=rel, parallel=parallel)
        finally:
            scan_mod.parallelise = orig
        return res.variables, res.fluxes

    (variables, fluxes), violation = _with_contract(go)
    fails, stats = [], {"rows_success": 0, "rows_nan_required": 0, "rows_skipped": 0, "rows_stable_failed": 0, "err_over_bound": 0.0}
    if violation:
        fails.append({"clause": "state-returned-as-steady-moves-on", "cls": cls, "what": violation, "detail": dict(_LAST)})
    if len(variables) != len(values):
        fails.append({"clause": "scan-row-count", "cls": cls, "what": f"{len(variables)} rows for {len(values)} scanned values", "detail": {}})
        return {"outcome": "scan", "failures": fails, "stats": stats}
    for row, value in enumerate(values):
        s, st = spec_with(value)
        state = variables.iloc[row][[f"x{i}" for i in range(n)]].to_numpy(dtype=float)
        is_nan = bool(np.all(np.isnan(state)))
        no_ss = target[0] in ("out", "conv") and value <= 0
        if no_ss:
            stats["rows_nan_required"] += 1
            if not is_nan:
                fails.append(
                    {
                        "clause": "no-steady-state-row-is-not-NaN",
                        "cls": cls + (":accumulation" if value == 0 else ":growth"),
                        "what": f"row {row} ({pname}={value:g}) has no steady state ({'accumulation' if value == 0 else 'exponential growth'}) "
                        f"but the scan reports {[float(v) for v in state]}",
                        "detail": {"row": row},
                    }
                )
            continue
        orc = analyse(s, st)
        if orc is None:
            stats["rows_skipped"] += 1
            continue
        if is_nan:
            stats["rows_stable_failed"] += 1
            continue
        if not np.all(np.isfinite(state)):
            fails.append({"clause": "scan-row-partly-NaN", "cls": cls, "what": f"row {row} ({pname}={value:g}): {[float(v) for v in state]}", "detail": {}})
            continue
        stats["rows_success"] += 1
        f2, st2 = _check_success(orc, st, None, rel, state, fluxes.iloc[row], cls, float("nan"))
        for f in f2:
            f["what"] = f"row {row} ({pname}={value:g}): " + f["what"]
        fails += f2
        stats["err_over_bound"] = max(stats["err_over_bound"], st2["err_over_bound"])
    return {"outcome": "scan", "failures": fails, "stats": stats}


# ---------------------------------------------------------------------------
# the enumerated scope


def _tols(tier):
    return (None, 1e-4, 1e-6, 1e-8) if tier == "quick" else (None, 1e-3, 1e-4, 1e-5, 1e-6, 1e-7, 1e-8)


def stable_specs(tier: str, rng: random.Random):
    """All rate-constant assignments for the small topologies, a sample for the larger ones;
    every spec has at least one slow (<= 0.15) constant or is all-fast."""
    pool = K_QUICK if tier == "quick" else K_FULL
    cap = 12 if tier == "quick" else 64
    specs = []
    for name, (r, mk) in TOPOLOGIES.items():
        combos = list(itertools.product(pool, repeat=r))
        if len(combos) > cap:
            rng.shuffle(combos)
            # keep the all-slow and the stiffest assignment in any sample
            keep = [tuple([pool[0]] * r), tuple([pool[0]] + [pool[-1]] * (r - 1)), tuple([pool[-1]] * (r - 1) + [pool[0]])]
            combos = keep + [c for c in combos if c not in keep][: cap - len(keep)]
        i = 0
        for ks in combos:
            spec = mk(list(ks), INFLUX[i % len(INFLUX)])
            if analyse(spec, INIT_A[: spec["n"]]) is None:
                continue  # relaxation slower than the admitted bound (reversible steps): outside the scope
            specs.append(spec)
            i += 1
    return specs


def make_cases(tier: str, rng: random.Random):
    cases = []
    specs = stable_specs(tier, rng)
    tols = _tols(tier)
    for si, spec in enumerate(specs):
        closed = spec["family"].startswith("closed")
        kinds = [k for k in Y0_KINDS if not (closed and k == "user-steady")]
        combos = list(itertools.product(kinds, tols, (False, True)))
        if tier == "quick":
            rng.shuffle(combos)
            combos = combos[:8]
        for kind, tol, rel in combos:
            cases.append({"kind": "stable", "entry": "simulator", "spec": spec, "y0": kind, "tol": tol, "rel": rel if tol is not None or rel else None})
        # after an earlier simulate(): fewer combinations
        sub = list(itertools.product(kinds, (None, 1e-6), (False, True)))
        rng.shuffle(sub)
        for kind, tol, rel in sub[: (2 if tier == "quick" else 6)]:
            cases.append({"kind": "stable", "entry": "simulator-after-simulate", "spec": spec, "y0": kind, "tol": tol, "rel": rel})
    # networks without a steady state
    for family, rates in NOSTEADY_RATES.items():
        for rate in rates:
            for kind in Y0_KINDS[:4]:
                if family in NEEDS_NONZERO and kind in ("default-zero", "user-zero"):
                    continue  # x = 0 is a (unstable) steady state of pure growth
                for tol in tols:
                    for rel in (False, True):
                        if rel and tol is not None and tol > 1e-4 and family in ("accumulation", "depletion", "sink-accumulation"):
                            continue  # constant drift: relative change per step falls to 1e-3 at the end of the budget
                        for entry in ("simulator", "simulator-after-simulate"):
                            if entry == "simulator-after-simulate" and tol not in (None, 1e-6):
                                continue
                            cases.append({"kind": "nosteady", "entry": entry, "family": family, "rate": rate, "y0": kind, "tol": tol, "rel": rel})
    # scans
    scan_targets = [
        ("chain1", [0.08], ("out", 0), [0.05, 1.0, 0.0, 25.0, -0.05, 0.12]),
        ("chain2", [1.0, 0.05], ("out", 0), [0.05, 0.0, 0.15, -0.02, 3.0]),
        ("chain2", [0.08, 1.0], ("conv", 0), [0.05, 25.0, 0.12]),
        ("chain3", [25.0, 0.4, 0.05], ("out", 0), [0.08, 0.0, 1.0]),
        ("branch", [0.05, 0.4, 1.0, 0.12], ("out", 1), [0.05, 0.0, 3.0, -0.1]),
        ("rev2", [1.0, 0.4, 0.15], ("out", 0), [0.08, 0.15, 0.0, 25.0]),
        ("closed2", [0.05, 0.08], ("init", 0), [0.0, 1.0, 4.0]),
        ("closed3", [0.4, 0.05, 0.08, 1.0], ("init", 2), [0.5, 2.0]),
        ("leaky2", [0.05, 0.05, 0.08], ("conv", 0), [0.05, 1.0, 25.0]),
    ]
    for name, ks, target, values in scan_targets:
        spec = TOPOLOGIES[name][1](ks, 0.3)
        closed = name.startswith("closed")
        for kind in Y0_KINDS[:4]:
            if closed and kind in ("default-zero", "user-zero") and target[0] != "init":
                continue
            for rel in (False, True):
                cases.append({"kind": "scan", "spec": spec, "y0": kind, "rel": rel, "parallel": False, "target": list(target), "values": values})
    n_par = 4 if tier == "quick" else 12
    par = [c for c in cases if c["kind"] == "scan"]
    rng.shuffle(par)
    for c in par[:n_par]:
        cases.append({**c, "parallel": True})
    for i, c in enumerate(cases):
        c["id"] = i
    return cases, len(specs)


# ---------------------------------------------------------------------------
# driver


def _work(chunk):
    quiet()
    out = []
    for c in chunk:
        e0, s0 = _EVALS["n"], _EVALS["success"]
        r = run_case(c)
        r["id"] = c["id"]
        r["evals"] = _EVALS["n"] - e0
        r["evals_success"] = _EVALS["success"] - s0
        out.append(r)
    return out


def run_pool(items, worker, n_workers=None):
    n_workers = n_workers or min(16, os.cpu_count() or 1)
    if len(items) < 64 or n_workers <= 1:
        return worker(items)
    size = max(8, len(items) // (n_workers * 6))
    chunks = [items[i : i + size] for i in range(0, len(items), size)]
    try:
        mp = multiprocessing.get_context("fork")
        with ProcessPoolExecutor(max_workers=n_workers, mp_context=mp) as ex:
            return [r for part in ex.map(worker, chunks) for r in part]
    except (OSError, ValueError):  # pragma: no cover
        return worker(items)


def key_of(f: dict) -> str:
    return f"bounded:{f['clause']}:{f['cls']}"


def selfcheck_oracle() -> None:
    """The oracle against closed forms written out by hand (no mxlpy, no shared code path)."""
    s = TOPOLOGIES["chain2"][1]([0.4, 0.08], 0.3)
    o = analyse(s, [0.0, 0.0])
    if o is None or not np.allclose(o["ystar"], [0.3 / 0.4, 0.3 / 0.08], rtol=1e-12):
        raise CheckerError("C15 oracle self-check failed: chain2 steady state")
    e = math.exp(-0.08 * STEP)
    if not 0.5 * e / (1 - e) <= o["F"] <= 4 * e / (1 - e):
        raise CheckerError(f"C15 oracle self-check failed: chain2 amplification factor {o['F']}")
    s = TOPOLOGIES["closed2"][1]([0.05, 0.08], 0.0)
    o = analyse(s, [1.0, 3.0])
    if o is None or not np.allclose(o["ystar"], [4 * 0.08 / 0.13, 4 * 0.05 / 0.13], rtol=1e-12):
        raise CheckerError("C15 oracle self-check failed: closed2 steady state")
    s = TOPOLOGIES["rev2"][1]([1.0, 0.4, 0.15], 2.0)
    o = analyse(s, [0.0, 0.0])
    # x1* = c/k_out, x0* = (c + k_back x1*) / k_fwd
    if o is None or not np.allclose(o["ystar"], [(2.0 + 0.4 * 2.0 / 0.15) / 1.0, 2.0 / 0.15], rtol=1e-12):
        raise CheckerError("C15 oracle self-check failed: rev2 steady state")
    if analyse(TOPOLOGIES["chain1"][1]([0.01], 1.0), [0.0]) is not None:
        raise CheckerError("C15 oracle self-check failed: slow network admitted")


def run(ctx: Ctx) -> None:
    import mxlpy  # noqa: F401  (import before forking)

    quiet()
    selfcheck_oracle()
    rng = random.Random(seed())
    cases, n_specs = make_cases(ctx.tier, rng)
    seq = [c for c in cases if not (c["kind"] == "scan" and c["parallel"])]
    par = [c for c in cases if c["kind"] == "scan" and c["parallel"]]
    results = run_pool(seq, _work) + _work(par)  # parallel scans create their own pools: main process
    by_id = {c["id"]: c for c in cases}

    outcomes: dict[str, int] = {}
    for r in results:
        outcomes[r["outcome"]] = outcomes.get(r["outcome"], 0) + 1
    succ = outcomes.get("success", 0)
    scan_rows_ok = sum(r["stats"].get("rows_success", 0) for r in results if r["outcome"] == "scan")
    scan_rows_nan = sum(r["stats"].get("rows_nan_required", 0) for r in results if r["outcome"] == "scan")
    evals = sum(r["evals"] for r in results)
    evals_success = sum(r["evals_success"] for r in results)
    in_scope = [r for r in results if r["outcome"] not in ("out-of-scope",)]
    if succ == 0 or scan_rows_ok == 0:
        raise CheckerError(f"C15: no stable network was reported steady (outcomes {outcomes}): the stand-in checked nothing")
    if evals < len(in_scope) - outcomes.get("pre-simulate-failed", 0) - outcomes.get("raised", 0):
        raise CheckerError(f"C15: integrator contract evaluated {evals} times over {len(in_scope)} cases: wrapper bypassed")

    seen: dict[str, tuple[dict, dict]] = {}
    n_fail = 0
    for r in sorted(results, key=lambda r: r["id"]):
        for f in r["failures"]:
            n_fail += 1
            k = key_of(f)
            if k not in seen:
                seen[k] = (r, f)
    for k, (r, f) in seen.items():
        case = by_id[r["id"]]
        again = run_case(case)
        replayed = any(key_of(g) == k for g in again["failures"])
        ctx.fail(key=k, kind="bounded", what=f["what"], witness=_witness(case), replayed=replayed,
                 detail=f["detail"] | {"failing_clause_instances_total": n_fail})

    worst_r = max(results, key=lambda r: r["stats"].get("err_over_bound", 0.0))
    worst = worst_r["stats"].get("err_over_bound", 0.0)
    worst_imb = max((r["stats"].get("imbalance_over_bound", 0.0) for r in results), default=0.0)
    fmax = max((r["stats"].get("F", 0.0) for r in results), default=0.0)
    late = sum(1 for r in results if r["outcome"] == "success" and r["stats"].get("t", 0) > 2 * STEP)
    nontrivial = succ + scan_rows_ok + scan_rows_nan + outcomes.get("nosteady-failure", 0) + outcomes.get("nosteady-reported-as-state", 0)
    samples = [_witness(by_id[r["id"]]) | {"outcome": r["outcome"], "stats": r["stats"]} for r in results if r["outcome"] == "success"][:2]
    samples += [_witness(by_id[r["id"]]) | {"outcome": r["outcome"]} for r in results if r["outcome"].startswith("nosteady")][:1]
    ctx.add_bounded(
        name="C15-steady-state",
        tool="small-scope enumeration; analytic steady state + matrix-exponential error bound as oracle; icontract post-condition on the real Scipy.integrate_to_steady_state",
        bound=f"{n_specs} stable linear networks ({len(TOPOLOGIES)} topologies, 1-3 species, rate constants {K_QUICK if ctx.tier == 'quick' else K_FULL}, "
        f"slowest relaxation rate >= {MIN_RATE}) x {len(Y0_KINDS)} kinds of initial values x tolerances {_tols(ctx.tier)} x abs/rel norm "
        f"(sampled combinations in the quick tier) on Simulator / Simulator after simulate(3) / scan.steady_state (sequential, {len(par)} parallel); "
        f"{sum(len(v) for v in NOSTEADY_RATES.values())} networks without a steady state ({', '.join(NOSTEADY)})",
        cases=len(in_scope),
        distinct_nontrivial=nontrivial,
        rule="one case per (network spec, entry point, kind of initial values, tolerance, norm); a scan case has one row per scanned value; "
        "non-trivial = a stable network reported steady and compared with the analytic steady state, or a network without steady state run to its verdict",
        exhaustive=False,
        samples=samples,
    )
    ctx.extra["C15"] = {
        "outcomes": outcomes,
        "stable_reported_steady": succ,
        "stable_reported_steady_later_than_t200": late,
        "stable_reported_as_failure (allowed by the property, not a violation)": outcomes.get("stable-reported-as-failure", 0)
        + sum(r["stats"].get("rows_stable_failed", 0) for r in results if r["outcome"] == "scan"),
        "scan_rows_compared_with_analytic": scan_rows_ok,
        "scan_rows_required_NaN": scan_rows_nan,
        "integrator_contract_evaluations": evals,
        "integrator_contract_evaluations_on_success": evals_success,
        "max_error_over_bound_on_passing_and_failing_cases": worst,
        "max_error_over_bound_case": _witness(by_id[worst_r["id"]]) | {"stats": worst_r["stats"]},
        "max_error_over_10_effective_tolerances (statistic, not a clause)": max((r["stats"].get("err_over_10tol", 0.0) for r in results), default=0.0),
        "max_flux_imbalance_over_bound": worst_imb,
        "max_amplification_factor_F": fmax,
        "failing_clause_instances": n_fail,
    }
    ctx.trust(
        "numpy.linalg (lstsq, eigvals, norm, inv), scipy.linalg.expm / null_space for the oracle",
        "scipy.integrate.solve_ivp(Radau, rtol=1e-9, atol=1e-12) advances a state by 100 time units to its tolerance (contract (I))",
        "icontract.ensure evaluates the post-condition after every wrapped call (evaluations counted)",
    )
    ctx.assume(
        f"A-C15 (analysis, not code): for dy/dt = A y + b with all relaxation rates >= {MIN_RATE}, two exact states one step (100) apart with "
        "||y2 - y1|| < tol give ||y2 - y*|| <= ||M (M-I)^-1||_2 tol, M = exp(100 A) on the non-conserved subspace; the factor is computed per network "
        f"(largest in this run {fmax:.3g})",
        f"solver accuracy: spi.ode('lsoda') with its default rtol=1e-6 / atol=1e-12 returns each state of the search within d = {NOISE:g} * max(|y*|, |y0|) "
        f"of the exact flow (bound used: F (tol_eff + d) + d; largest error/bound observed in this run {worst:.3g}); for tolerances below ~1e-6 the bound "
        "is dominated by d, i.e. the comparison is on the scale of the solver's accuracy rather than of the requested tolerance",
        "relative norm: ||(y2-y1)/y1||_2 < tol implies ||y2-y1||_2 < tol ||y1||_inf, ||y1||_inf <= (||y*||_inf + G d)/(1 - G tol)",
        "fluxes: N v = A (y - y*), so ||N v||_2 <= ||A||_2 * state bound; each first-order flux deviates by at most k * state bound",
        "networks without a steady state: constant drift >= 0.01 per time unit (>= 1 per search step, far above every tolerance used; under the relative "
        "norm the drift per step relative to the state falls to 1e-3 at the end of the budget, above every tolerance used), growth rates >= 0.01; "
        "pure growth is started away from its unstable steady state 0",
        "a stable network reported as failure (e.g. relative norm with a species at exactly 0: 0/0) does not contradict the property as stated and is only counted",
        "the time at which a steady state is reported is not specified by the property",
    )


def _witness(case: dict) -> dict:
    w = {k: v for k, v in case.items() if k != "id"}
    if case["kind"] in ("stable", "scan"):
        n = case["spec"]["n"]
        init, user, start = _y0_setup(case["y0"], n)
        w["model_initial_values"] = init
        w["user_y0"] = user
    else:
        init, user, start = _nosteady_start(case["family"], case["y0"])
        w["model_initial_values"] = init
        w["user_y0"] = user
    return w


def replay(witness: dict) -> list[dict]:
    """Re-run a recorded witness on the current tree; returns its failures (with keys)."""
    import mxlpy  # noqa: F401

    quiet()
    case = {k: v for k, v in witness.items() if k not in ("model_initial_values", "user_y0")}
    case.setdefault("id", 0)
    r = run_case(case)
    return [f | {"key": key_of(f)} for f in r["failures"]]


if __name__ == "__main__":  # python -m bounded.C15 replays/C15-<hash>.json
    import json
    import sys

    w = json.load(open(sys.argv[1]))
    out = replay(w.get("witness", w))
    print(json.dumps(out, indent=1, default=str))
    sys.exit(1 if out else 0)
