"""Bounded stand-in for C05 (labelled bounded, never counted as proved).

The contract of the property, checked at run time on the REAL
`LabelMapper.build_model` over an enumerated small scope:

  for small base networks (uni/bi-molecular, influx/efflux, unlabelled
  bystanders, derived quantities, unmapped reactions) x label counts 0..3 x
  ALL maps of that size (every function positions -> source positions, i.e.
  permutations, duplicating maps, external positions):

  (a) a mapped reaction has exactly one isotopomer reaction per labelling
      pattern of its substrates,
  (b) each consumes / produces one isotopomer per unit of base stoichiometry
      and product position i carries the label of source position map[i]
      (positions beyond the substrates are labelled),
  (c) the initial amount of every compound is preserved and sits on the
      isotopomer labelled exactly at the requested positions,
  (d) for mass-action laws the summed derivatives of a compound's isotopomers
      equal the base derivative at the isotopomer totals (random states),
  (e) a map shorter than the substrates' atoms is rejected with an error.

The oracle is a re-computation from the property's definition (`_ref_expand`)
and the base model itself (clause d); it shares no code with label_map.py.

Function-level run-time contracts (deal) are wrapped around the helpers of
label_map.py by monkey-patching for the duration of the run; their evaluations
are counted, a wrapper that is never reached is a checker error.
"""
from __future__ import annotations

import functools
import itertools
import logging
import random
import re
from collections import Counter

from vlib.core import CheckerError, Ctx, seed

TOL = 1e-9  # relative; sums of <= 2^5 products of O(1) numbers, double rounding is ~1e-15

# ---------------------------------------------------------------------------
# rate laws (module level, fixed arity)


def _c0(k):
    return k


def _ma1(k, a):
    return k * a


def _ma2(k, a, b):
    return k * a * b


def _ma3(k, a, b, c):
    return k * a * b * c


def _sq(k, a):
    return k * a * a


def _rev(kf, kr, a, b):
    return kf * a - kr * b


def _twice(x):
    return 2.0 * x


def _add(a, b):
    return a + b


_MA = {0: _c0, 1: _ma1, 2: _ma2, 3: _ma3}

# ---------------------------------------------------------------------------
# base network templates.  A reaction is (name, stoichiometry, law) with law in
#   "ma"      irreversible mass action, every substrate occurrence its own argument
#   "ma-pow"  irreversible mass action written k*A*A with a single argument A (2A -> ..)
#   "rev"     reversible mass action kf*A - kr*B
#   "ma+X"    unmapped mass action with an extra (modifier) argument X
# `mapped` lists the reactions that get a label map; `labelable` the compounds that may
# carry label.  Everything is plain data so a witness can be replayed from its json.

TEMPLATES: dict[str, dict] = {
    "uni": {
        "compounds": ["A", "B"],
        "reactions": [("vin", {"A": 1}, "ma"), ("v1", {"A": -1, "B": 1}, "ma"), ("vout", {"B": -1}, "ma")],
        "mapped": ["vin", "v1", "vout"], "focus": ["vin", "v1", "vout"], "labelable": ["A", "B"],
    },
    "merge": {
        "compounds": ["A", "B", "C"],
        "reactions": [("vinA", {"A": 1}, "ma"), ("vinB", {"B": 1}, "ma"),
                      ("v1", {"A": -1, "B": -1, "C": 1}, "ma"), ("vout", {"C": -1}, "ma")],
        "mapped": ["vinA", "vinB", "v1", "vout"], "focus": ["v1"], "labelable": ["A", "B", "C"],
    },
    "split": {
        "compounds": ["C", "A", "B"],
        "reactions": [("vin", {"C": 1}, "ma"), ("v1", {"C": -1, "A": 1, "B": 1}, "ma"),
                      ("voutA", {"A": -1}, "ma"), ("voutB", {"B": -1}, "ma")],
        "mapped": ["vin", "v1", "voutA", "voutB"], "focus": ["v1"], "labelable": ["A", "B", "C"],
    },
    "bibi": {
        "compounds": ["A", "B", "C", "D"],
        "reactions": [("vinA", {"A": 1}, "ma"), ("vinB", {"B": 1}, "ma"),
                      ("v1", {"A": -1, "B": -1, "C": 1, "D": 1}, "ma"),
                      ("voutC", {"C": -1}, "ma"), ("voutD", {"D": -1}, "ma")],
        "mapped": ["vinA", "vinB", "v1", "voutC", "voutD"], "focus": ["v1"], "labelable": ["A", "B", "C", "D"],
    },
    # X, Y never carry label; vyx / vxy are NOT mapped and read a labelled compound resp. a
    # derived variable over labelled compounds; the rate constant of v1 is a derived parameter
    "bystander": {
        "compounds": ["A", "X", "B", "Y"],
        "derived_parameters": [("kd", _twice, ["k_v1_base"])],
        "derived_variables": [("dAB", _add, ["A", "B"])],
        "reactions": [("vin", {"A": 1}, "ma"), ("v1", {"A": -1, "X": -1, "B": 1, "Y": 1}, "ma:kd"),
                      ("vout", {"B": -1}, "ma"),
                      ("vyx", {"Y": -1, "X": 1}, "ma+A"), ("vxy", {"X": -1, "Y": 1}, "ma+dAB")],
        "mapped": ["vin", "v1", "vout"], "focus": ["v1"], "labelable": ["A", "B"],
    },
    "product-twice": {
        "compounds": ["A", "B"],
        "reactions": [("vin", {"A": 1}, "ma"), ("v1", {"A": -1, "B": 2}, "ma"), ("vout", {"B": -1}, "ma")],
        "mapped": ["vin", "v1", "vout"], "focus": ["v1"], "labelable": ["A", "B"],
    },
    "substrate-twice:repeated-argument": {
        "compounds": ["A", "B"],
        "reactions": [("vin", {"A": 1}, "ma"), ("v1", {"A": -2, "B": 1}, "ma"), ("vout", {"B": -1}, "ma")],
        "mapped": ["vin", "v1", "vout"], "focus": ["v1"], "labelable": ["A", "B"],
    },
    "substrate-twice:single-argument": {
        "compounds": ["A", "B"],
        "reactions": [("vin", {"A": 1}, "ma"), ("v1", {"A": -2, "B": 1}, "ma-pow"), ("vout", {"B": -1}, "ma")],
        "mapped": ["vin", "v1", "vout"], "focus": ["v1"], "labelable": ["A", "B"],
    },
    # reversible mass action: the identity can only hold when substrate patterns map
    # one-to-one onto product patterns, so this template is used with permutation maps and
    # equal label counts only
    "reversible": {
        "compounds": ["A", "B"],
        "reactions": [("vin", {"A": 1}, "ma"), ("v1", {"A": -1, "B": 1}, "rev"), ("vout", {"B": -1}, "ma")],
        "mapped": ["vin", "v1", "vout"], "focus": ["v1"], "labelable": ["A", "B"], "perm_only": True,
    },
}


def _subs_prods(stoich: dict[str, int]) -> tuple[list[str], list[str]]:
    subs = [c for c, v in stoich.items() if v < 0 for _ in range(-v)]
    prods = [c for c, v in stoich.items() if v > 0 for _ in range(v)]
    return subs, prods


def _sp(stoich, nlab) -> tuple[int, int]:
    subs, prods = _subs_prods(stoich)
    return sum(nlab.get(c, 0) for c in subs), sum(nlab.get(c, 0) for c in prods)


def build_base(tname: str, rng: random.Random):
    """The base mxlpy Model of a template with random initial amounts / constants."""
    from mxlpy import Model

    t = TEMPLATES[tname]
    m = Model()
    m.add_variables({c: round(rng.uniform(0.5, 3.0), 3) for c in t["compounds"]})
    for name, fn, args in t.get("derived_parameters", []):
        m.add_parameter(args[0], round(rng.uniform(0.5, 2.0), 3))
        m.add_derived(name, fn=fn, args=args)
    for name, fn, args in t.get("derived_variables", []):
        m.add_derived(name, fn=fn, args=args)
    for name, stoich, law in t["reactions"]:
        subs, _ = _subs_prods(stoich)
        k = f"k_{name}"
        if law.startswith("ma:"):
            k = law.split(":")[1]
        else:
            m.add_parameter(k, round(rng.uniform(0.5, 2.0), 3))
        if law == "ma" or law.startswith("ma:"):
            m.add_reaction(name, _MA[len(subs)], args=[k, *subs], stoichiometry=stoich)
        elif law == "ma-pow":
            assert len(set(subs)) == 1 and len(subs) == 2
            m.add_reaction(name, _sq, args=[k, subs[0]], stoichiometry=stoich)
        elif law == "rev":
            _, prods = _subs_prods(stoich)
            m.add_parameter(k + "r", round(rng.uniform(0.5, 2.0), 3))
            m.add_reaction(name, _rev, args=[k, k + "r", subs[0], prods[0]], stoichiometry=stoich)
        elif law.startswith("ma+"):
            m.add_reaction(name, _MA[len(subs) + 1], args=[k, *subs, law[3:]], stoichiometry=stoich)
        else:  # pragma: no cover
            raise CheckerError(f"unknown law {law}")
    return m


# ---------------------------------------------------------------------------
# reference semantics, written from the property statement


def iso_name(c: str, bits) -> str:
    bits = "".join(bits)
    return c if bits == "" else f"{c}__{bits}"


def all_isos(c: str, n: int) -> list[str]:
    return [iso_name(c, b) for b in itertools.product("01", repeat=n)]


def _ref_expand(stoich: dict[str, int], nlab: dict[str, int], lmap: list[int]) -> list[dict[str, int]]:
    """One net stoichiometry per labelling pattern of the substrates."""
    subs, prods = _subs_prods(stoich)
    S, P = _sp(stoich, nlab)
    out = []
    for bits in itertools.product("01", repeat=S):
        src = list(bits) + ["1"] * max(0, P - S)  # positions beyond the substrates enter labelled
        net: Counter = Counter()
        off = 0
        for c in subs:
            n = nlab.get(c, 0)
            net[iso_name(c, bits[off:off + n])] -= 1
            off += n
        off = 0
        for c in prods:
            n = nlab.get(c, 0)
            net[iso_name(c, [src[lmap[off + j]] for j in range(n)])] += 1
            off += n
        out.append({k: v for k, v in net.items() if v != 0})
    return out


def map_class(lmap: list[int], S: int, P: int) -> str:
    n = len(lmap)
    if sorted(lmap) == list(range(n)):
        cls = "identity" if lmap == list(range(n)) else (
            "involutive-permutation" if all(lmap[lmap[i]] == i for i in range(n)) else "non-involutive-permutation")
    else:
        cls = "non-injective"
    if any(x >= S for x in lmap[:P]):
        cls += "+external"
    return cls


def _freeze(d: dict) -> tuple:
    return tuple(sorted((k, float(v)) for k, v in d.items() if v != 0))


# ---------------------------------------------------------------------------
# helper contracts (deal), attached by monkey-patching

_HELPERS = ["_generate_binary_labels", "_split_label_string", "_map_substrates_to_products",
            "_unpack_stoichiometries", "_get_labels_per_variable", "_repack_stoichiometries",
            "_assign_compound_labels", "_get_external_labels", "_create_isotopomer_reactions"]


class _Contracts:
    def __init__(self) -> None:
        self.evals: Counter = Counter()
        self.saved: dict = {}

    def attach(self) -> None:
        import deal

        import mxlpy.label_map as lm

        ev = self.evals

        def counted(name, pred):
            @functools.wraps(pred)  # deal binds the validator's arguments by its signature
            def v(*a, **kw):
                ev[name] += 1
                return pred(*a, **kw)
            return v

        def prefix(lpc, q):
            return sum(lpc[:q])

        specs = {
            "_generate_binary_labels": [
                deal.ensure(counted("_generate_binary_labels", lambda base_name, num_labels, result: (
                    result == [base_name] if num_labels <= 0 else
                    len(result) == 2 ** num_labels and len(set(result)) == len(result) and all(
                        r.startswith(base_name + "__") and len(r) == len(base_name) + 2 + num_labels
                        and set(r[len(base_name) + 2:]) <= {"0", "1"} for r in result))),
                    message="one name per word of {0,1}^n, each exactly once"),
            ],
            "_split_label_string": [
                deal.ensure(counted("_split_label_string", lambda label, labels_per_compound, result: (
                    sum(labels_per_compound) > len(label) or (
                        len(result) == len(labels_per_compound) and all(
                            len(result[q]) == labels_per_compound[q] and all(
                                result[q][p] == label[prefix(labels_per_compound, q) + p]
                                for p in range(labels_per_compound[q]))
                            for q in range(len(labels_per_compound)))))),
                    message="out[q][p] == label[ps(q)+p]"),
            ],
            "_map_substrates_to_products": [
                deal.pre(counted("_map_substrates_to_products:pre", lambda rate_suffix, labelmap: all(
                    0 <= i < len(rate_suffix) for i in labelmap)), message="0 <= labelmap[j] < len(suffix)"),
                deal.ensure(counted("_map_substrates_to_products", lambda rate_suffix, labelmap, result: (
                    len(result) == len(labelmap) and all(result[j] == rate_suffix[labelmap[j]] for j in range(len(labelmap))))),
                    message="out[j] == suffix[labelmap[j]]"),
            ],
            "_unpack_stoichiometries": [
                deal.ensure(counted("_unpack_stoichiometries", lambda stoichiometries, result: (
                    all(result[0].count(c) == max(0, -v) and result[1].count(c) == max(0, v)
                        for c, v in stoichiometries.items())
                    and set(result[0]) | set(result[1]) <= set(stoichiometries)
                    and result[0] == [c for c, v in stoichiometries.items() if v < 0 for _ in range(-v)]
                    and result[1] == [c for c, v in stoichiometries.items() if v > 0 for _ in range(v)])),
                    message="multiset of occurrences per coefficient, in dict order"),
            ],
            "_get_labels_per_variable": [
                deal.ensure(counted("_get_labels_per_variable", lambda label_variables, compounds, result: (
                    result == [label_variables[c] if c in label_variables else 0 for c in compounds])),
                    message="label count per occurrence, 0 for unlabelled"),
            ],
            "_repack_stoichiometries": [
                deal.ensure(counted("_repack_stoichiometries", lambda new_substrates, new_products, result: (
                    set(result) == set(new_substrates) | set(new_products) and all(
                        result[c] == new_products.count(c) - new_substrates.count(c) for c in result))),
                    message="out[c] == #products(c) - #substrates(c), keys = occurring names"),
            ],
            "_assign_compound_labels": [
                deal.ensure(counted("_assign_compound_labels", lambda base_compounds, label_suffixes, result: (
                    len(result) == len(base_compounds) and all(
                        result[i] == (base_compounds[i] if label_suffixes[i] == "" else base_compounds[i] + "__" + label_suffixes[i])
                        for i in range(len(base_compounds))))),
                    message="name__suffix, bare name for the empty suffix"),
            ],
            "_get_external_labels": [
                deal.ensure(counted("_get_external_labels", lambda total_product_labels, total_substrate_labels, result: (
                    result == "1" * max(0, total_product_labels - total_substrate_labels))),
                    message="'1' * max(0, P - S)"),
            ],
        }
        for name, decos in specs.items():
            fn = getattr(lm, name)
            self.saved[name] = fn
            w = fn
            for d in reversed(decos):
                w = d(w)
            setattr(lm, name, w)

        # _create_isotopomer_reactions: raises ValueError <=> len(labelmap) < S ; otherwise the
        # model gains exactly 2^S reactions.  Written by hand (needs the model before/after).
        orig = lm._create_isotopomer_reactions
        self.saved["_create_isotopomer_reactions"] = orig

        def cir(model, label_variables, rate_name, function, stoichiometry, labelmap, args):
            ev["_create_isotopomer_reactions"] += 1
            S = sum(label_variables.get(c, 0) * int(-v) for c, v in stoichiometry.items() if v < 0)
            before = set(model.get_reaction_names())
            try:
                orig(model=model, label_variables=label_variables, rate_name=rate_name, function=function,
                     stoichiometry=stoichiometry, labelmap=labelmap, args=args)
            except ValueError:
                if len(labelmap) < S:
                    raise
                raise deal.PostContractError(message="_create_isotopomer_reactions: ValueError although len(labelmap) >= S") from None
            if len(labelmap) < S:
                raise deal.PostContractError(message="_create_isotopomer_reactions: no ValueError although len(labelmap) < S")
            gained = set(model.get_reaction_names()) - before
            if len(gained) != 2 ** S:
                raise deal.PostContractError(message=f"_create_isotopomer_reactions: gained {len(gained)} reactions, expected {2 ** S}")

        lm._create_isotopomer_reactions = cir

    def detach(self) -> None:
        import mxlpy.label_map as lm

        for name, fn in self.saved.items():
            setattr(lm, name, fn)
        self.saved.clear()


_ANSI = re.compile(r"\x1b\[[0-9;]*m")


def _plain(e: Exception) -> str:
    return _ANSI.sub("", str(e))


def _contract_name(e: Exception) -> str:
    msg = _plain(getattr(e, "message", "") or e)
    return msg.split("(where")[0].strip()[:100]


# ---------------------------------------------------------------------------
# one case on the real code


def default_maps(tname: str, nlab: dict[str, int]) -> dict[str, list[int]]:
    t = TEMPLATES[tname]
    out = {}
    for name, stoich, _ in t["reactions"]:
        if name in t["mapped"]:
            S, P = _sp(stoich, nlab)
            out[name] = list(range(max(S, P)))
    return out


def check_case(tname: str, nlab: dict[str, int], lmaps: dict[str, list[int]], focus: str,
               state_seed: int, n_states: int, explicit_zero: bool = False) -> list[dict]:
    """Returns failure records {key, what, detail}; [] when the contract holds."""
    import deal

    from mxlpy import LabelMapper

    t = TEMPLATES[tname]
    rng = random.Random(state_seed)
    base = build_base(tname, rng)
    label_variables = {c: n for c, n in nlab.items() if n > 0 or explicit_zero}
    stoichs = {name: st for name, st, _ in t["reactions"]}
    S, P = _sp(stoichs[focus], nlab)
    cls = map_class(lmaps[focus], S, P)
    fails: list[dict] = []
    try:
        lab = LabelMapper(base, label_variables=dict(label_variables), label_maps={k: list(v) for k, v in lmaps.items()}).build_model()
    except deal.ContractError as e:
        return [{"key": f"bounded:helper-contract:{_contract_name(e)}", "what": f"helper contract violated: {_plain(e)}", "detail": {}}]
    except Exception as e:  # noqa: BLE001
        return [{"key": f"bounded:valid-map-rejected:{tname}:{focus}:{cls}",
                 "what": f"build_model raised {type(e).__name__}: {e} for a map as long as the substrates' atoms", "detail": {}}]

    try:
        return fails + _check_built(t, tname, base, lab, nlab, lmaps, focus, cls, stoichs, rng, n_states)
    except deal.ContractError:
        raise
    except Exception as e:  # noqa: BLE001  (e.g. a rate argument that names no component of the labelled model)
        return [{"key": f"bounded:labelled-model-unusable:{tname}:{type(e).__name__}",
                 "what": f"labelled model cannot be evaluated: {type(e).__name__}: {_plain(e)[:200]}", "detail": {}}]


def _check_built(t, tname, base, lab, nlab, lmaps, focus, cls, stoichs, rng, n_states) -> list[dict]:
    fails: list[dict] = []
    # (a)+(b) structure of every mapped reaction
    rxns = lab.get_raw_reactions()
    for name in t["mapped"]:
        want = Counter(_freeze(s) for s in _ref_expand(stoichs[name], nlab, lmaps[name]))
        got_rx = {k: r for k, r in rxns.items() if k == name or k.rsplit("__", 1)[0] == name}
        s_r, p_r = _sp(stoichs[name], nlab)
        c_r = map_class(lmaps[name], s_r, p_r)
        if len(got_rx) != 2 ** s_r:
            fails.append({"key": f"bounded:isotopomer-reaction-count:{tname}:{name}",
                          "what": f"{name}: {len(got_rx)} isotopomer reactions for {2 ** s_r} substrate labelling patterns",
                          "detail": {"reactions": sorted(got_rx)}})
            continue
        got = Counter(_freeze(r.stoichiometry) for r in got_rx.values())
        if got != want:
            fails.append({"key": f"bounded:isotopomer-stoichiometry:{tname}:{name}:{c_r}",
                          "what": f"{name} with map {lmaps[name]}: isotopomer stoichiometries differ from 'product position i carries substrate position map[i]'",
                          "detail": {"unexpected": [list(x) for x in (got - want)][:4], "missing": [list(x) for x in (want - got)][:4]}})
    # variables: 2^n isotopomers per labelled compound, bare name otherwise
    want_vars = {i for c in t["compounds"] for i in all_isos(c, nlab.get(c, 0))}
    if set(lab.get_variable_names()) != want_vars:
        fails.append({"key": f"bounded:isotopomer-variables:{tname}",
                      "what": "labelled model variables are not the 2^n isotopomers per compound",
                      "detail": {"got": sorted(lab.get_variable_names()), "want": sorted(want_vars)}})
        return fails

    # (c) default initial placement (no request): everything on the unlabelled isotopomer
    fails += _check_initial(base, lab, t["compounds"], nlab, {}, "none")

    # (d) summed derivatives = base derivative at the totals
    twice = tname.startswith("substrate-twice")
    for si in range(n_states):
        uniform = twice and si == 0  # at states symmetric in A's isotopomers the identity must hold even for 2A -> B
        x = {}
        for c in t["compounds"]:
            u = rng.uniform(0.1, 2.0)
            for i in all_isos(c, nlab.get(c, 0)):
                x[i] = u if (uniform and c == "A") else rng.uniform(0.1, 2.0)
        tot = {c: sum(x[i] for i in all_isos(c, nlab.get(c, 0))) for c in t["compounds"]}
        r_lab = lab.get_right_hand_side(dict(x))
        r_base = base.get_right_hand_side(dict(tot))
        bad = {}
        for c in t["compounds"]:
            parts = [float(r_lab[i]) for i in all_isos(c, nlab.get(c, 0))]
            got_c, want_c = sum(parts), float(r_base[c])
            if abs(got_c - want_c) > TOL * max(1.0, abs(want_c), sum(abs(p) for p in parts)):
                bad[c] = (got_c, want_c)
        if bad:
            if twice and not uniform:
                key = f"bounded:summed-derivative-differs-from-base:{tname}"
            elif twice:
                key = f"bounded:summed-derivative-differs-from-base:{tname}:symmetric-state"
            else:
                key = f"bounded:summed-derivative-differs-from-base:{tname}:{focus}:{cls}"
            fails.append({"key": key,
                          "what": f"sum of isotopomer derivatives != base derivative at the totals for {sorted(bad)} ({tname}, {focus} map {lmaps[focus]})",
                          "detail": {"state": x, "sum_vs_base": {c: list(v) for c, v in bad.items()}}})
            break
    return fails


def _check_initial(base, lab, compounds, nlab, request: dict, kind: str) -> list[dict]:
    fails = []
    init_b, init_l = base.get_initial_conditions(), lab.get_initial_conditions()
    for c in compounds:
        n = nlab.get(c, 0)
        isos = all_isos(c, n)
        tot = sum(init_l.get(i, float("nan")) for i in isos)
        if not abs(tot - init_b[c]) <= 1e-12 * max(1.0, abs(init_b[c])):
            fails.append({"key": f"bounded:initial-total-not-preserved:request-{kind}",
                          "what": f"initial total of {c} is {tot}, base model has {init_b[c]} (request {request})", "detail": {"initial": init_l}})
            continue
        req = request.get(c)
        pos = [] if req is None else ([req] if isinstance(req, int) else list(req))
        where = iso_name(c, ["1" if p in pos else "0" for p in range(n)])
        wrong = {i: init_l[i] for i in isos if (init_l[i] != 0) != (i == where and init_b[c] != 0)}
        if wrong:
            fails.append({"key": f"bounded:initial-label-misplaced:request-{kind}",
                          "what": f"initial amount of {c} (request {req!r}) expected on {where}, found on {sorted(k for k, v in init_l.items() if v != 0 and k in isos)}",
                          "detail": {"initial": init_l}})
    return fails


def check_initial_request(nA: int, nB: int, request: dict, kind: str, state_seed: int) -> list[dict]:
    import deal

    from mxlpy import LabelMapper

    nlab = {"A": nA, "B": nB}
    rng = random.Random(state_seed)
    base = build_base("uni", rng)
    try:
        lab = LabelMapper(base, label_variables={c: n for c, n in nlab.items() if n > 0},
                          label_maps=default_maps("uni", nlab)).build_model(initial_labels=dict(request))
    except deal.ContractError as e:
        return [{"key": f"bounded:helper-contract:{_contract_name(e)}", "what": f"helper contract violated: {_plain(e)}", "detail": {}}]
    except Exception as e:  # noqa: BLE001
        return [{"key": f"bounded:initial-request-rejected:request-{kind}",
                 "what": f"build_model(initial_labels={request}) raised {type(e).__name__}: {e}", "detail": {}}]
    return _check_initial(base, lab, ["A", "B"], nlab, request, kind)


def check_short_map(tname: str, nlab: dict[str, int], rxn: str, length: int, state_seed: int) -> list[dict]:
    import deal

    from mxlpy import LabelMapper

    t = TEMPLATES[tname]
    base = build_base(tname, random.Random(state_seed))
    lmaps = default_maps(tname, nlab)
    lmaps[rxn] = list(range(length))
    try:
        LabelMapper(base, label_variables={c: n for c, n in nlab.items() if n > 0}, label_maps=lmaps).build_model()
    except deal.ContractError as e:
        return [{"key": f"bounded:helper-contract:{_contract_name(e)}", "what": f"helper contract violated: {_plain(e)}", "detail": {}}]
    except Exception:  # noqa: BLE001  (any error is a rejection)
        return []
    S, _ = _sp({n: s for n, s, _ in t["reactions"]}[rxn], nlab)
    return [{"key": f"bounded:short-map-accepted:{tname}:{rxn}",
             "what": f"map of length {length} accepted for {rxn} whose substrates have {S} label positions", "detail": {}}]


# ---------------------------------------------------------------------------
# CrossHair (thorough tier): symbolic inputs inside a fixed shape, real helper bodies

_CROSSHAIR_HARNESS = '''
import deal
from mxlpy.label_map import _get_external_labels, _map_substrates_to_products, _split_label_string


@deal.pre(lambda label, lpc: len(label) <= 5 and len(lpc) <= 3 and all(0 <= n <= 3 for n in lpc) and sum(lpc) <= len(label))
@deal.ensure(lambda label, lpc, result: len(result) == len(lpc)
             and all(result[q] == label[sum(lpc[:q]):sum(lpc[:q]) + lpc[q]] for q in range(len(lpc)))
             and all(result[q][p] == label[sum(lpc[:q]) + p] for q in range(len(lpc)) for p in range(lpc[q])))
def split_label_string(label: str, lpc: list[int]) -> list[str]:
    return _split_label_string(label, lpc)


@deal.pre(lambda suffix, labelmap: len(suffix) <= 5 and len(labelmap) <= 5 and all(0 <= i < len(suffix) for i in labelmap))
@deal.ensure(lambda suffix, labelmap, result: len(result) == len(labelmap) and all(result[j] == suffix[labelmap[j]] for j in range(len(labelmap))))
def map_substrates_to_products(suffix: str, labelmap: list[int]) -> str:
    return _map_substrates_to_products(suffix, labelmap)


@deal.pre(lambda p, s: 0 <= p <= 12 and 0 <= s <= 12)
@deal.ensure(lambda p, s, result: len(result) == max(0, p - s) and all(ch == "1" for ch in result))
def get_external_labels(p: int, s: int) -> str:
    return _get_external_labels(total_product_labels=p, total_substrate_labels=s)
'''
_CROSSHAIR_FUNCTIONS = ["split_label_string", "map_substrates_to_products", "get_external_labels"]


def _crosshair_start():
    """Starts `crosshair check --analysis_kind=deal` on the harness; returns (process, tmpdir)."""
    import os
    import subprocess
    import sys
    import tempfile

    tmp = tempfile.TemporaryDirectory(prefix="c05_crosshair_")
    path = os.path.join(tmp.name, "c05_crosshair_harness.py")
    with open(path, "w") as fh:
        fh.write(_CROSSHAIR_HARNESS)
    env = dict(os.environ, PYTHONPATH=os.pathsep.join(p for p in sys.path if p), NO_COLOR="1")
    proc = subprocess.Popen(
        [sys.executable, "-W", "ignore", "-m", "crosshair", "check", "--analysis_kind=deal",
         "--per_condition_timeout", "60", "--per_path_timeout", "10", path],
        stdout=subprocess.PIPE, stderr=subprocess.STDOUT, text=True, env=env, cwd=tmp.name)
    return proc, tmp


def _crosshair_finish(proc, tmp) -> list[tuple[dict, dict]]:
    try:
        out, _ = proc.communicate(timeout=600)
    finally:
        tmp.cleanup()
    recs = []
    lines = [ln for ln in out.splitlines() if "error:" in ln]
    if proc.returncode not in (0, 1) or (proc.returncode == 1 and not lines):
        raise CheckerError(f"crosshair exit {proc.returncode}: {out[-400:]}")
    for ln in lines:
        msg = ln.split("error:", 1)[1].strip()
        fn = next((f for f in _CROSSHAIR_FUNCTIONS if f + "(" in msg), None)
        if fn is None:
            raise CheckerError(f"crosshair reported a problem outside the contracts: {msg[:300]}")
        recs.append(({"key": f"bounded:crosshair:_{fn}", "what": f"CrossHair counterexample on the real helper: {msg[:300]}", "detail": {"crosshair": msg}},
                     {"crosshair_counterexample": msg}))
    return recs


# ---------------------------------------------------------------------------
# enumeration


def _label_counts(tname: str, max_positions: int):
    t = TEMPLATES[tname]
    stoichs = {name: st for name, st, _ in t["reactions"]}
    for counts in itertools.product(range(4), repeat=len(t["labelable"])):
        nlab = dict(zip(t["labelable"], counts))
        if t.get("perm_only") and len(set(counts)) != 1:
            continue
        if all(max(_sp(stoichs[f], nlab)) <= max_positions for f in t["focus"]):
            yield nlab


def _maps_for(n_src: int, length: int, perm_only: bool):
    if perm_only:
        return [list(p) for p in itertools.permutations(range(length))]
    return [list(p) for p in itertools.product(range(n_src), repeat=length)]


def _direct_helper_calls(fails: list) -> int:
    """Enumerated direct calls of the wrapped helpers (inputs the models above may not reach)."""
    import deal

    import mxlpy.label_map as lm

    n = 0

    def call(fn, *a, **kw):
        nonlocal n
        n += 1
        try:
            fn(*a, **kw)
        except deal.ContractError as e:
            fails.append(({"key": f"bounded:helper-contract:{_contract_name(e)}",
                           "what": f"helper contract violated on a direct call: {_plain(e)}", "detail": {}},
                          {"helper": fn.__name__, "args": [repr(x) for x in a], "kwargs": {k: repr(v) for k, v in kw.items()}}))

    for length in range(5):
        for bits in itertools.product("01", repeat=length):
            label = "".join(bits)
            for k in range(1, 4):
                for lpc in itertools.product(range(4), repeat=k):
                    if sum(lpc) <= length:
                        call(lm._split_label_string, label=label, labels_per_compound=list(lpc))
            if length and length <= 3:
                for mp in itertools.product(range(length), repeat=length):
                    call(lm._map_substrates_to_products, rate_suffix=label, labelmap=list(mp))
    for coefs in itertools.product(range(-2, 3), repeat=3):
        st = {c: v for c, v in zip("ABC", coefs) if v != 0}
        call(lm._unpack_stoichiometries, stoichiometries=st)
    names = ["A", "A__0", "A__1", "B__01"]
    for k1 in range(3):
        for s in itertools.product(names, repeat=k1):
            for k2 in range(3):
                for p in itertools.product(names, repeat=k2):
                    call(lm._repack_stoichiometries, new_substrates=list(s), new_products=list(p))
    for suf in itertools.product(["", "0", "01", "110"], repeat=2):
        call(lm._assign_compound_labels, base_compounds=["A", "Bc"], label_suffixes=list(suf))
    for p in range(5):
        for s in range(5):
            call(lm._get_external_labels, total_product_labels=p, total_substrate_labels=s)
    for nn in range(5):
        call(lm._generate_binary_labels, base_name="cpd", num_labels=nn)
    for cs in itertools.product(["A", "B", "Z"], repeat=2):
        call(lm._get_labels_per_variable, label_variables={"A": 1, "B": 3}, compounds=list(cs))
    return n


def run(ctx: Ctx) -> None:
    logging.disable(logging.WARNING)
    quick = ctx.tier == "quick"
    rng = random.Random(seed())
    exhaustive_positions = 3 if quick else 4  # all maps for focus reactions with <= this many positions
    sampled_positions = 4 if quick else 5
    n_sample = 24 if quick else 60
    n_states = 2 if quick else 3

    crosshair = None if quick else _crosshair_start()  # runs beside the enumeration
    contracts = _Contracts()
    contracts.attach()
    try:
        seen_keys: set[str] = set()

        def report(recs, witness):
            for r in recs:
                ctx.fail(key=r["key"], kind="bounded", what=r["what"],
                         witness=witness if r["key"] not in seen_keys else {k: witness[k] for k in list(witness)[:4]},
                         replayed=True, detail=r.get("detail", {}) if r["key"] not in seen_keys else {})
                seen_keys.add(r["key"])

        # ---- (a) (b) (d): networks x label counts x maps ------------------------------
        cases = sampled = 0
        nontrivial: set = set()
        nontrivial_s: set = set()
        samples: list = []
        for tname, t in TEMPLATES.items():
            stoichs = {name: st for name, st, _ in t["reactions"]}
            for nlab in _label_counts(tname, sampled_positions):
                for focus in t["focus"]:
                    S, P = _sp(stoichs[focus], nlab)
                    L = max(S, P)
                    maps = _maps_for(L, L, bool(t.get("perm_only")))
                    is_sample = L > exhaustive_positions and len(maps) > n_sample
                    if is_sample:
                        maps = rng.sample(maps, n_sample)
                    for mp in maps:
                        lmaps = default_maps(tname, nlab)
                        lmaps[focus] = mp
                        st_seed = rng.randrange(10**9)
                        recs = check_case(tname, nlab, lmaps, focus, st_seed, n_states)
                        w = {"template": tname, "label_counts": nlab, "label_maps": lmaps, "focus": focus,
                             "state_seed": st_seed, "replay": "bounded.C05.check_case(template, label_counts, label_maps, focus, state_seed, n_states)",
                             "n_states": n_states}
                        report(recs, w)
                        ident = (tname, tuple(nlab.items()), focus, tuple(mp))
                        if is_sample:
                            sampled += 1
                            if S + P > 0:
                                nontrivial_s.add(ident)
                        else:
                            cases += 1
                            if S + P > 0:
                                nontrivial.add(ident)
                        if len(samples) < 3 and S >= 2 and P >= 2 and mp != list(range(L)):
                            samples.append({**{k: w[k] for k in ("template", "label_counts", "label_maps")}, "holds": not recs})
        # explicit zero label counts in label_variables
        for nA, nB in [(0, 0), (0, 2), (2, 0)]:
            nlab = {"A": nA, "B": nB}
            lmaps = default_maps("uni", nlab)
            st_seed = rng.randrange(10**9)
            recs = check_case("uni", nlab, lmaps, "v1", st_seed, n_states, explicit_zero=True)
            report(recs, {"template": "uni", "label_counts": nlab, "label_maps": lmaps, "focus": "v1",
                          "state_seed": st_seed, "explicit_zero": True})
            cases += 1
        ctx.add_bounded(
            name="C05-structure-and-dynamics", tool="small-scope enumeration, re-computed reference expansion and base model as oracle, real LabelMapper.build_model",
            bound=f"{len(TEMPLATES)} base network templates x every label count 0..3 per labelable compound x focus reaction with <= {exhaustive_positions} "
                  f"label positions x ALL maps (every function positions -> sources; permutations only for the reversible template) x {n_states} random isotopomer states",
            cases=cases, distinct_nontrivial=len(nontrivial),
            rule="case = (template, label counts, focus reaction, map); non-trivial if the focus reaction moves at least one label position",
            exhaustive=True, samples=samples)
        if sampled:
            ctx.add_bounded(
                name="C05-structure-and-dynamics-sampled", tool="as above",
                bound=f"focus reactions with {exhaustive_positions + 1}..{sampled_positions} label positions: {n_sample} random maps per label-count assignment",
                cases=sampled, distinct_nontrivial=len(nontrivial_s),
                rule="as above; maps drawn from random.Random(VERIF_SEED)", exhaustive=False)

        # ---- (c) initial amounts ------------------------------------------------------
        ic = 0
        ic_nt: set = set()
        for nA in range(4):
            reqs_a = [("none", None)] + [("int", p) for p in range(nA)] + [
                ("list", list(s)) for k in range(nA + 1) for s in itertools.combinations(range(nA), k)]
            if nA:
                reqs_a.append(("list-unordered", list(reversed(range(nA)))))
            for nB in (0, 2, 3) if quick else range(4):
                reqs_b = [("none", None)] + ([("int", nB - 1), ("list", [0, nB - 1])] if nB else [])
                for (ka, ra), (kb, rb) in itertools.product(reqs_a, reqs_b):
                    request = {c: r for c, r in (("A", ra), ("B", rb)) if r is not None}
                    kind = f"{ka}/{kb}"
                    st_seed = rng.randrange(10**9)
                    recs = check_initial_request(nA, nB, request, kind, st_seed)
                    report(recs, {"template": "uni", "label_counts": {"A": nA, "B": nB}, "initial_labels": request, "state_seed": st_seed,
                                  "replay": "bounded.C05.check_initial_request(nA, nB, initial_labels, kind, state_seed)"})
                    ic += 1
                    if request:
                        ic_nt.add((nA, nB, repr(request)))
        ctx.add_bounded(
            name="C05-initial-amounts", tool="small-scope enumeration on the real build_model(initial_labels=...)",
            bound="linear chain, A with 0..3 positions: no request, every single position (int), every subset of positions (list); B: none / last position / first+last",
            cases=ic, distinct_nontrivial=len(ic_nt),
            rule="case = (label counts, request); non-trivial if a label is requested",
            exhaustive=True, samples=[{"label_counts": {"A": 3, "B": 2}, "initial_labels": {"A": [0, 1], "B": 1}}])

        # ---- (e) short maps -------------------------------------------------------------
        sc = 0
        for tname, t in TEMPLATES.items():
            stoichs = {name: st for name, st, _ in t["reactions"]}
            for nlab in _label_counts(tname, 4):
                for rxn in t["mapped"]:
                    S, _ = _sp(stoichs[rxn], nlab)
                    for length in range(S):
                        st_seed = rng.randrange(10**9)
                        recs = check_short_map(tname, nlab, rxn, length, st_seed)
                        report(recs, {"template": tname, "label_counts": nlab, "reaction": rxn, "map": list(range(length)), "state_seed": st_seed})
                        sc += 1
        ctx.add_bounded(
            name="C05-short-map-rejected", tool="small-scope enumeration on the real build_model",
            bound="every template x label counts 0..3 (<= 4 positions) x every mapped reaction x every map length 0..S-1",
            cases=sc, distinct_nontrivial=sc, rule="case = (template, label counts, reaction, map length < substrate atoms)", exhaustive=True)

        # ---- helper contracts: direct enumerated calls + evaluation counts -----------------
        dfails: list = []
        nd = _direct_helper_calls(dfails)
        for rec, w in dfails:
            report([rec], w)
        never = [h for h in _HELPERS if contracts.evals[h] == 0]
        if never:
            raise CheckerError(f"helper contracts never evaluated (wrapper bypassed?): {never}")
        ctx.add_bounded(
            name="C05-helper-contracts", tool="deal pre/post-conditions monkey-patched around the real label_map helpers",
            bound="every call made by the build_model cases above plus direct calls: all label strings of length <= 4 x all splits into <= 3 parts, "
                  "all maps of length <= 3, all stoichiometries over 3 compounds with coefficients -2..2, repack over <= 2+2 names",
            cases=sum(contracts.evals[h] for h in _HELPERS), distinct_nontrivial=nd,
            rule="cases = contract evaluations (all call sites); distinct = enumerated direct calls",
            exhaustive=False, samples=[{"evaluations": {h: contracts.evals[h] for h in _HELPERS}}])
        ctx.extra["helper_contract_evaluations"] = {h: contracts.evals[h] for h in _HELPERS}
        if crosshair is not None:
            proc, tmp = crosshair
            crosshair = None
            for rec, w in _crosshair_finish(proc, tmp):
                report([rec], w)
            ctx.add_bounded(
                name="C05-helper-contracts-crosshair", tool="CrossHair check --analysis_kind=deal (per_condition_timeout 60 s, per_path_timeout 10 s), refutations only",
                bound="_split_label_string: label <= 5 chars, <= 3 parts of 0..3; _map_substrates_to_products: suffix and map <= 5; _get_external_labels: 0..12 x 0..12",
                cases=len(_CROSSHAIR_FUNCTIONS), distinct_nontrivial=len(_CROSSHAIR_FUNCTIONS),
                rule="one case per contracted helper; symbolic inputs inside the stated shape", exhaustive=False)
    finally:
        contracts.detach()
        logging.disable(logging.NOTSET)
        if crosshair is not None:
            crosshair[0].kill()
            crosshair[1].cleanup()

    ctx.assume(
        f"numerical comparison of summed derivatives with relative tolerance {TOL} (sums of at most 2^5 products of O(1) doubles)",
        "isotopomer naming convention '<compound>__<bits>' (position 0 left-most) and reaction names '<reaction>__<pattern>' as documented in docs/label-models.ipynb and tests/test_label_map.py",
        "substrate/product positions are numbered along the reaction's stoichiometry in insertion order, a coefficient n contributing n consecutive occurrences",
        "mass action = irreversible k*prod(substrates) with every substrate occurrence a rate argument; reversible mass action only with one-to-one pattern maps",
    )
    ctx.trust("deal 4.x raises ContractError subclasses when a wrapped pre/post-condition is false",
              "Model.get_right_hand_side evaluates the stored rate functions on the given state (property C01)")
