"""Bounded stand-in for C09 (labelled bounded, never counted as proved).

Contract (DESIGN 5 "C09"), checked at run time on the REAL ``scan.steady_state /
time_course / protocol / protocol_time_course`` and the REAL ``mc.steady_state /
time_course / protocol / protocol_time_course / scan_steady_state``:

  V  values      for every row i of the scan table the variables and the fluxes the
                 scan reports equal those of an INDEPENDENT simulation: a model
                 freshly built by the model's builder function (never the object
                 handed to the scan), updated with exactly row i's parameter and
                 initial values, run through ``Simulator`` directly;
  A  alignment   results come back in the order of the input rows and under their
                 index (steady state: the documented index built from the row
                 values; time courses / protocols: the row labels of ``to_scan``);
  F  failures    a row whose independent simulation fails (a failed ``Result`` or the
                 ``ZeroDivisionError`` the workers document) is an all-NaN block at
                 its own position with the time grid and columns of the successful
                 rows of the same scan; the scan itself does not raise;
  S  schedules   V, A, F hold for parallel=False and for parallel=True with
                 max_workers in {1, 2, 16}, with fewer / as many / more rows than
                 workers (scan.* has no max_workers argument: the real
                 ``parallelise`` is called through a shim that only adds it).

Models: plain parameters (+ a derived variable), a parameter computed from the
initial values (InitialAssignment, the conserved-total idiom), a variable whose
initial value is computed from a parameter.  Tables: one parameter, one initial
value, parameter + initial value, with unsorted / non-default row labels; rows that
fail by ZeroDivisionError (S0 = 0 under a rate k/S), by NoSteadyState (NaN parameter)
and by IntegrationFailure (cubic blow-up under the RK45 integrator).
No random choices: the tables are fixed, so VERIF_SEED does not influence this check.
"""
from __future__ import annotations

import logging
import math
from typing import Any

from vlib.core import CheckerError, Ctx

###############################################################################
# models (module-level rate functions: models are pickled for the pool)
###############################################################################


def _slow_first(v):
    """parallelise() contract task: earlier inputs finish later (completion order is
    the reverse of submission order whenever more than one worker is free)."""
    import time

    i, n = v
    time.sleep(0.02 * (n - i))
    return (i, i * i)


def _const(k0):
    return k0


def _ma(s, k):
    return k * s


def _inv(s, k):
    return k / s  # raises ZeroDivisionError at S == 0: the documented failing row


def _sum2(a, b):
    return a + b


def _frac(s, k, tot):
    return k * s / tot


def _twice(k):
    return 2.0 * k


def _m_plain():
    from mxlpy import Model

    return (
        Model()
        .add_variables({"S": 0.5, "P": 0.25})
        .add_parameters({"k0": 1.0, "k1": 1.0, "k2": 2.0, "ki": 0.0})
        .add_derived("SP", _sum2, args=["S", "P"])
        .add_reaction("v0", _const, args=["k0"], stoichiometry={"S": 1.0})
        .add_reaction("v1", _ma, args=["S", "k1"], stoichiometry={"S": -1.0, "P": 1.0})
        .add_reaction("v2", _ma, args=["P", "k2"], stoichiometry={"P": -1.0})
        .add_reaction("vi", _inv, args=["S", "ki"], stoichiometry={"P": 1.0})
    )


def _cubic(s, k):
    return k * s**3


def _m_blowup():
    """plain + an autocatalytic cubic source: for kc = 10 the state blows up at t ~ 0.2,
    which an explicit Runge-Kutta integrator reports as an IntegrationFailure."""
    return _m_plain().add_parameter("kc", 0.0).add_reaction("vc", _cubic, args=["S", "kc"], stoichiometry={"S": 1.0})


def _m_ia_param():
    """A parameter computed from the initial values (total of a conserved moiety)."""
    from mxlpy import Model
    from mxlpy.types import InitialAssignment

    return (
        Model()
        .add_variables({"S": 1.0, "P": 0.5})
        .add_parameters({"k0": 0.0, "kf": 1.0, "kr": 0.5, "tot": InitialAssignment(fn=_sum2, args=["S", "P"])})
        .add_reaction("v1", _frac, args=["S", "kf", "tot"], stoichiometry={"S": -1.0, "P": 1.0})
        .add_reaction("v2", _ma, args=["P", "kr"], stoichiometry={"P": -1.0, "S": 1.0})
        .add_reaction("v0", _const, args=["k0"], stoichiometry={"S": 1.0})
        .add_reaction("v3", _ma, args=["S", "k0"], stoichiometry={"S": -1.0})
    )


def _m_ia_var():
    """A variable whose initial value is computed from a parameter."""
    from mxlpy import Model
    from mxlpy.types import InitialAssignment

    return (
        Model()
        .add_parameters({"k0": 1.0, "k1": 1.0, "k2": 2.0})
        .add_variable("S", 0.5)
        .add_variable("P", InitialAssignment(fn=_twice, args=["k1"]))
        .add_reaction("v0", _const, args=["k0"], stoichiometry={"S": 1.0})
        .add_reaction("v1", _ma, args=["S", "k1"], stoichiometry={"S": -1.0, "P": 1.0})
        .add_reaction("v2", _ma, args=["P", "k2"], stoichiometry={"P": -1.0})
    )


MODELS = {"plain": _m_plain, "blow-up": _m_blowup, "ia-param": _m_ia_param, "ia-var": _m_ia_var}


def _rk45():
    from functools import partial

    from mxlpy.integrators.int_scipy import Scipy

    return partial(Scipy, method="RK45")

###############################################################################
# the independent run (oracle)
###############################################################################

RTOL, ATOL = 1e-6, 1e-8


def _split(model, row: dict[str, float]):
    v = {k: x for k, x in row.items() if k in model.get_variable_names()}
    p = {k: x for k, x in row.items() if k in model.get_parameter_names()}
    if set(v) | set(p) != set(row):
        raise CheckerError(f"scan column not in model: {row}")
    return v, p


def _independent(kind: str, build, rows: list[dict[str, float]], cfg: dict):
    """Separate Simulator run on a freshly built model with exactly the given updates
    (applied in order).  Returns (variables, fluxes) or None if the run fails."""
    from mxlpy import Simulator
    from mxlpy.simulation import Simulation

    m = build()
    if cfg.get("y0"):
        m.update_variables(cfg["y0"])
    for row in rows:
        v, p = _split(m, row)
        m.update_variables(v)
        m.update_parameters(p)
    try:
        s = Simulator(m, integrator=_rk45() if cfg.get("rk45") else None)
        if kind == "ss":
            s.simulate_to_steady_state()
        elif kind == "tc":
            s.simulate_time_course(cfg["tp"])
        elif kind == "pr":
            s.simulate_protocol(cfg["proto"], time_points_per_step=cfg["tpps"])
        else:
            s.simulate_protocol_time_course(cfg["proto"], cfg["tp"])
        r = s.get_result()
    except ZeroDivisionError:
        return None
    if not isinstance(r.value, Simulation):
        return None
    if kind == "ss":
        return r.value.variables.iloc[[-1]], r.value.fluxes.iloc[[-1]]
    return r.value.variables, r.value.fluxes


def _zero_division_at_initial_state(build, row: dict[str, float]) -> bool:
    m = build()
    v, p = _split(m, row)
    m.update_variables(v)
    m.update_parameters(p)
    try:
        m.get_right_hand_side(m.get_initial_conditions(), time=0.0)
    except ZeroDivisionError:
        return True
    return False


def _same(got, want) -> str | None:
    """None if the two frames agree (labels, shape, values within tolerance)."""
    import numpy as np

    if list(got.columns) != list(want.columns):
        if set(got.columns) != set(want.columns):
            return f"columns {list(got.columns)} != {list(want.columns)}"
        got = got[want.columns]
    if got.shape != want.shape:
        return f"shape {got.shape} != {want.shape}"
    if not np.allclose(np.asarray(got.index, dtype=float), np.asarray(want.index, dtype=float), rtol=1e-9, atol=1e-12):
        return f"time index {list(got.index)} != {list(want.index)}"
    g, w = got.to_numpy(dtype=float), want.to_numpy(dtype=float)
    if not np.allclose(g, w, rtol=RTOL, atol=ATOL, equal_nan=True):
        i, j = np.argwhere(~np.isclose(g, w, rtol=RTOL, atol=ATOL, equal_nan=True))[0]
        return f"{want.columns[j]} at t={want.index[i]!r}: got {g[i, j]:.6g}, independent run {w[i, j]:.6g}"
    return None


def _eq_label(a, b) -> bool:
    if isinstance(a, tuple) or isinstance(b, tuple):
        return isinstance(a, tuple) and isinstance(b, tuple) and len(a) == len(b) and all(_eq_label(x, y) for x, y in zip(a, b))
    if isinstance(a, float) and isinstance(b, float) and math.isnan(a) and math.isnan(b):
        return True
    return a == b


###############################################################################
# entry points
###############################################################################


def _entries():
    import mxlpy.mc as mc
    import mxlpy.scan as scan

    def s(fn, kind):
        def call(model, table, cfg, sched):
            kw: dict[str, Any] = {"to_scan": table, "parallel": sched != "seq"}
            if kind in ("tc", "ptc"):
                kw["time_points"] = cfg["tp"]
            if kind in ("pr", "ptc"):
                kw["protocol"] = cfg["proto"]
            if kind == "pr":
                kw["time_points_per_step"] = cfg["tpps"]
            if cfg.get("y0"):
                kw["y0"] = dict(cfg["y0"])
            if cfg.get("rk45"):
                kw["integrator"] = _rk45()
            return fn(model, **kw)
        return call

    def m(fn, kind):
        def call(model, table, cfg, sched):
            kw: dict[str, Any] = {"mc_to_scan": table, "max_workers": sched}
            if kind in ("tc", "ptc"):
                kw["time_points"] = cfg["tp"]
            if kind in ("pr", "ptc"):
                kw["protocol"] = cfg["proto"]
            if kind == "pr":
                kw["time_points_per_step"] = cfg["tpps"]
            if cfg.get("y0"):
                kw["y0"] = dict(cfg["y0"])
            if cfg.get("rk45"):
                kw["integrator"] = _rk45()
            return fn(model, **kw)
        return call

    return {
        "scan.steady_state": ("ss", s(scan.steady_state, "ss"), True),
        "scan.time_course": ("tc", s(scan.time_course, "tc"), True),
        "scan.protocol": ("pr", s(scan.protocol, "pr"), True),
        "scan.protocol_time_course": ("ptc", s(scan.protocol_time_course, "ptc"), True),
        "mc.steady_state": ("ss", m(mc.steady_state, "ss"), False),
        "mc.time_course": ("tc", m(mc.time_course, "tc"), False),
        "mc.protocol": ("pr", m(mc.protocol, "pr"), False),
        "mc.protocol_time_course": ("ptc", m(mc.protocol_time_course, "ptc"), False),
    }


def _tables(quick: bool):
    """name -> (model, column-kind, DataFrame).  Row labels are deliberately neither
    sorted nor the default RangeIndex where the entry point keys results by label."""
    import pandas as pd

    t = {
        "plain/par/3": ("plain", "parameter", pd.DataFrame({"k1": [2.0, 0.5, 1.0]}, index=[10, 3, 7])),
        "plain/init/3+fail": ("plain", "initial-value", pd.DataFrame({"S": [1.0, 0.0, 2.0]}, index=["c", "a", "b"])),
        "plain/par+init/5": ("plain", "parameter+initial-value",
                             pd.DataFrame({"k1": [2.0, 0.5, 1.0, 3.0, 0.25], "P": [0.1, 0.4, 0.2, 0.3, 0.0]})),
        "blow-up/par/3+fail(rk45)": ("blow-up", "parameter", pd.DataFrame({"kc": [0.0, 10.0, 0.1]}, index=[1, 2, 0])),
        "plain/par/3+nan-fail": ("plain", "parameter", pd.DataFrame({"k1": [2.0, float("nan"), 1.0]})),
        "plain/par/1": ("plain", "parameter", pd.DataFrame({"k2": [3.0]}, index=[5])),
        "plain/par/2": ("plain", "parameter", pd.DataFrame({"k2": [3.0, 1.0]}, index=[1, 0])),
        "ia-param/init/3": ("ia-param", "initial-value", pd.DataFrame({"S": [1.0, 2.0, 3.0]})),
        "ia-param/par+init/5": ("ia-param", "parameter+initial-value",
                                pd.DataFrame({"kf": [2.0, 0.5, 1.0, 3.0, 0.25], "S": [3.0, 0.4, 0.2, 2.0, 1.0]},
                                             index=[4, 2, 0, 1, 3])),
        "ia-param/par/3": ("ia-param", "parameter", pd.DataFrame({"kr": [0.25, 2.0, 1.0]})),
        "ia-var/par/3": ("ia-var", "parameter", pd.DataFrame({"k1": [2.0, 0.5, 1.0]}, index=[2, 0, 1])),
    }
    if not quick:
        t["plain/par/17"] = ("plain", "parameter", pd.DataFrame({"k1": [0.2 + 0.17 * ((7 * i) % 17) for i in range(17)]}))
        t["plain/par/16"] = ("plain", "parameter", pd.DataFrame({"k2": [0.3 + 0.11 * ((5 * i) % 16) for i in range(16)]}))
        t["ia-param/init/17"] = ("ia-param", "initial-value", pd.DataFrame({"S": [0.2 + 0.17 * ((7 * i) % 17) for i in range(17)]}))
        t["ia-var/init/3"] = ("ia-var", "initial-value", pd.DataFrame({"S": [2.0, 0.5, 1.0]}))
    return t


def _relation(rows: int, sched) -> str:
    if sched == "seq":
        return "sequential"
    return f"parallel:rows{'<' if rows < sched else '=' if rows == sched else '>'}workers"


###############################################################################
# the postcondition
###############################################################################


class _Tally:
    def __init__(self) -> None:
        self.cases = 0
        self.rows = 0
        self.nontrivial: set = set()
        self.samples: list = []
        self.post_evals = 0
        self.failing_rows = 0
        self.pools = 0


def _post(ctx: Ctx, tally: _Tally, *, ename: str, kind: str, res, table, refs, tag: str, witness: dict) -> None:
    """V + A + F for one scan result against the per-row independent runs `refs`."""
    import numpy as np

    tally.post_evals += 1
    rows = list(table.iterrows())
    ok_ref = next((r for r in refs if r is not None), None)
    for attr, which in (("variables", 0), ("fluxes", 1)):
        frame = getattr(res, attr)
        if kind == "ss":
            # A: documented index = the row values, in row order
            want_idx = [r[1].iloc[0] if table.shape[1] == 1 else tuple(r[1]) for r in rows]
            got_idx = [x if not isinstance(x, tuple) else tuple(x) for x in frame.index]
            if len(got_idx) != len(want_idx) or not all(_eq_label(a, b) for a, b in zip(got_idx, want_idx)):
                ctx.fail(key=f"bounded:row-order-or-index:{attr}:{tag}", kind="bounded",
                         what=f"{ename}: result index {got_idx} is not the input rows {want_idx}",
                         witness=witness, replayed=True)
                continue
            blocks = [frame.iloc[[i]] for i in range(len(rows))]
            for b in blocks:
                b.index = [0.0] * len(b)
        else:
            labels = list(dict.fromkeys(frame.index.get_level_values(0)))
            want = [r[0] for r in rows]
            if labels != want:
                ctx.fail(key=f"bounded:row-order-or-index:{attr}:{tag}", kind="bounded",
                         what=f"{ename}: results are keyed/ordered {labels}, the input rows are {want}",
                         witness=witness, replayed=True)
                continue
            blocks = [frame.loc[lab] for lab in want]
        for i, (block, ref) in enumerate(zip(blocks, refs)):
            if ref is not None:
                r = ref[which].copy()
                if kind == "ss":
                    r.index = [0.0]
                bad = _same(block, r)
                if bad:
                    ctx.fail(key=f"bounded:row-differs-from-independent-run:{attr}:{tag}", kind="bounded",
                             what=f"{ename}: {attr} of row {i} ({rows[i][1].to_dict()}) differ from an independent run: {bad}",
                             witness={**witness, "row": i}, replayed=True,
                             detail={"scan": block.to_string()[:600], "independent": r.to_string()[:600]})
            else:
                # F: NaN placeholder, same grid/columns as the successful rows
                vals = block.to_numpy(dtype=float)
                problems = []
                if attr == "variables" and not np.isnan(vals).all():
                    problems.append(("not-all-nan", "not all NaN"))
                if ok_ref is not None:
                    shape_ref = ok_ref[which]
                    if set(block.columns) != set(shape_ref.columns):
                        problems.append(("columns", f"columns {list(block.columns)} != {list(shape_ref.columns)}"))
                    if kind != "ss" and (len(block) != len(shape_ref) or not np.allclose(
                            np.asarray(block.index, dtype=float), np.asarray(shape_ref.index, dtype=float))):
                        problems.append(("time-grid", f"time grid {[round(float(x), 4) for x in block.index]} != that of the "
                                         f"successful rows {[round(float(x), 4) for x in shape_ref.index]}"))
                if problems:
                    ctx.fail(key=f"bounded:failing-row-placeholder:{'+'.join(c for c, _ in problems)}:{attr}:{tag}",
                             kind="bounded",
                             what=f"{ename}: placeholder of failing row {i} ({rows[i][1].to_dict()}) is wrong: "
                                  + "; ".join(t for _, t in problems),
                             witness={**witness, "row": i}, replayed=True)


def _post_mc_scan(ctx, tally, *, res, mc_table, table, refs, tag, witness) -> None:
    """mc.scan_steady_state: rows are (mc row) x (scan row), mc-major."""
    tally.post_evals += 1
    n_mc, n_sc = len(mc_table), len(table)
    for attr, which in (("variables", 0), ("fluxes", 1)):
        frame = getattr(res, attr)
        if len(frame) != n_mc * n_sc:
            ctx.fail(key=f"bounded:row-order-or-index:{attr}:{tag}", kind="bounded",
                     what=f"mc.scan_steady_state: {len(frame)} result rows for {n_mc} x {n_sc} input rows",
                     witness=witness, replayed=True)
            continue
        lvl0 = list(frame.index.get_level_values(0))
        want0 = [k for k in mc_table.index for _ in range(n_sc)]
        lvl1 = list(frame.index.get_level_values(1))
        want1 = [v for _ in range(n_mc) for v in table.iloc[:, 0]]
        if lvl0 != want0 or not all(_eq_label(a, b) for a, b in zip(lvl1, want1)):
            ctx.fail(key=f"bounded:row-order-or-index:{attr}:{tag}", kind="bounded",
                     what=f"mc.scan_steady_state: result index {list(frame.index)} is not mc-rows x scan-rows in input order",
                     witness=witness, replayed=True)
            continue
        for i in range(n_mc):
            for j in range(n_sc):
                ref = refs[i][j]
                block = frame.iloc[[i * n_sc + j]].copy()
                block.index = [0.0]
                if ref is None:
                    continue
                r = ref[which].copy()
                r.index = [0.0]
                bad = _same(block, r)
                if bad:
                    ctx.fail(key=f"bounded:row-differs-from-independent-run:{attr}:{tag}", kind="bounded",
                             what=f"mc.scan_steady_state: {attr} of mc row {i} / scan row {j} differ from an independent run: {bad}",
                             witness={**witness, "mc_row": i, "scan_row": j}, replayed=True,
                             detail={"scan": block.to_string()[:400], "independent": r.to_string()[:400]})


###############################################################################


def run(ctx: Ctx) -> None:
    import numpy as np
    import pandas as pd

    import mxlpy.mc as mc
    import mxlpy.parallel as mp
    import mxlpy.scan as scan
    from mxlpy import make_protocol

    logging.disable(logging.WARNING)
    quick = ctx.tier == "quick"
    tally = _Tally()
    par_cases = 0
    cfg = {
        "tp": np.linspace(0, 1.0, 4),  # 1/3 and 2/3 are not protocol switch points
        "proto": make_protocol([(0.5, {"k0": 2.0}), (0.5, {"k0": 0.5})]),
        "tpps": 3,
    }
    entries = _entries()
    tables = _tables(quick)

    real_tqdm, real_par_scan, real_par_mc = mp.tqdm, scan.parallelise, mc.parallelise
    mp.tqdm = lambda *a, **kw: real_tqdm(*a, **{**kw, "disable": True})  # silence progress bars
    workers_for_scan: dict[str, Any] = {"n": None}

    def shim(*a, **kw):  # scan.* cannot be told the pool size: add it, change nothing else
        if kw.get("parallel", True):
            tally.pools += 1
            if workers_for_scan["n"] is not None and kw.get("max_workers") is None:
                kw["max_workers"] = workers_for_scan["n"]
        return real_par_scan(*a, **kw)

    scan.parallelise = shim
    mc.parallelise = shim
    try:
        for tname, (mname, colkind, table) in tables.items():
            build = MODELS[mname]
            nrows = len(table)
            tcfg = {**cfg, "rk45": True} if "rk45" in tname else cfg
            # does a row already fail when the model's initial state is evaluated?
            zero_div_at_init = any(_zero_division_at_initial_state(build, row.to_dict()) for _, row in table.iterrows())
            for ename, (kind, call, has_seq) in entries.items():
                if "rk45" in tname and kind == "ss":
                    continue  # spi.ode steady-state search: the blow-up row is C15's business
                if "nan-fail" in tname and kind != "ss":
                    continue  # with a NaN parameter scipy itself raises in later protocol steps: outside the bound
                if quick and kind in ("pr", "ptc") and tname not in (
                        "plain/init/3+fail", "ia-param/init/3", "plain/par/3", "blow-up/par/3+fail(rk45)"):
                    continue
                if not quick and nrows >= 16 and kind in ("pr", "ptc") and ename.startswith("mc."):
                    continue
                refs = [_independent(kind, build, [row.to_dict()], tcfg) for _, row in table.iterrows()]
                n_fail = sum(r is None for r in refs)
                if "fail" in tname and n_fail != 1:
                    raise CheckerError(f"table {tname} was built to have exactly one failing row for {kind}, has {n_fail}")
                # schedules
                scheds: list[Any] = (["seq"] if has_seq else []) + [1, 2]
                big = (not quick) or (ename in ("scan.time_course", "mc.steady_state") and tname in ("ia-param/init/3", "plain/par+init/5"))
                if big:
                    scheds.append(16)
                if quick and ename.startswith("mc.") and kind != "ss" and tname not in ("ia-param/init/3", "plain/init/3+fail"):
                    scheds = [2]
                if quick and "fail" in tname and tname != "plain/init/3+fail":
                    scheds = [x for x in scheds if x in ("seq", 2)]
                for sched in scheds:
                    tag = f"{ename}:{mname}:{colkind}:{_relation(nrows, sched)}"
                    witness = {"entry": ename, "model": mname, "to_scan": {"index": [repr(x) for x in table.index], **table.to_dict("list")},
                               "schedule": "parallel=False" if sched == "seq" else f"parallel=True,max_workers={sched}",
                               "time_points": [float(x) for x in cfg["tp"]], "protocol": "make_protocol([(0.5,{k0:2.0}),(0.5,{k0:0.5})])",
                               "time_points_per_step": cfg["tpps"], "integrator": "Scipy(method='RK45')" if tcfg.get("rk45") else "default"}
                    workers_for_scan["n"] = None if sched == "seq" else sched
                    model = build()
                    tally.cases += 1
                    tally.rows += nrows
                    tally.failing_rows += n_fail
                    tally.nontrivial.add((ename, tname, _relation(nrows, sched), sched))
                    if len(tally.samples) < 6 and (sched != "seq" or n_fail):
                        tally.samples.append({"entry": ename, "table": tname, "schedule": witness["schedule"], "failing_rows": n_fail})
                    try:
                        res = call(model, table.copy(), tcfg, sched)
                    except Exception as e:  # noqa: BLE001
                        if isinstance(e, ZeroDivisionError) and zero_div_at_init:
                            # one root cause whatever the schedule: the placeholder (and the model
                            # cache behind every view) evaluates the rates at the failing initial state
                            key = f"bounded:failing-row-raises-instead-of-placeholder:ZeroDivisionError-at-initial-state:{ename}"
                        else:
                            key = f"bounded:scan-raised:{type(e).__name__}:{tag}"
                        ctx.fail(key=key, kind="bounded",
                                 what=f"{ename} raised {type(e).__name__}: {str(e)[:100]} (rows failing independently: {n_fail})",
                                 witness=witness, replayed=True)
                        continue
                    try:
                        _post(ctx, tally, ename=ename, kind=kind, res=res, table=table, refs=refs, tag=tag, witness=witness)
                    except Exception as e:  # noqa: BLE001  (the lazily evaluated views are part of the observable)
                        ctx.fail(key=f"bounded:result-view-raised:{type(e).__name__}:{tag}", kind="bounded",
                                 what=f"{ename}: reading .variables/.fluxes raised {type(e).__name__}: {str(e)[:100]}",
                                 witness=witness, replayed=True)

        # ---- y0 argument together with a scanned initial value --------------------------
        for ename in ("scan.time_course", "scan.steady_state", "mc.time_course"):
            kind, call, has_seq = entries[ename]
            cfg_y0 = {**cfg, "y0": {"P": 0.7, "S": 9.0}}
            table = pd.DataFrame({"S": [1.0, 2.0, 0.5]}, index=[2, 0, 1])
            refs = [_independent(kind, _m_plain, [row.to_dict()], cfg_y0) for _, row in table.iterrows()]
            for sched in (["seq"] if has_seq else []) + [2]:
                if quick and ename == "scan.steady_state" and sched != "seq":
                    continue
                tag = f"{ename}:plain:initial-value+y0:{_relation(3, sched)}"
                witness = {"entry": ename, "model": "plain", "y0": cfg_y0["y0"], "to_scan": table.to_dict("list"),
                           "schedule": "parallel=False" if sched == "seq" else f"parallel=True,max_workers={sched}"}
                workers_for_scan["n"] = None if sched == "seq" else sched
                tally.cases += 1
                tally.rows += 3
                tally.nontrivial.add((ename, "y0", sched))
                try:
                    res = call(_m_plain(), table.copy(), cfg_y0, sched)
                    _post(ctx, tally, ename=ename, kind=kind, res=res, table=table, refs=refs, tag=tag, witness=witness)
                except Exception as e:  # noqa: BLE001
                    ctx.fail(key=f"bounded:scan-raised:{type(e).__name__}:{tag}", kind="bounded",
                             what=f"{ename} with y0 raised {type(e).__name__}: {str(e)[:100]}", witness=witness, replayed=True)

        # ---- mc.scan_steady_state: (mc rows) x (scan rows) ------------------------------
        combos = [
            ("plain", pd.DataFrame({"k2": [3.0, 1.0, 2.0]}, index=[2, 0, 1]), pd.DataFrame({"k1": [2.0, 0.5]}), "parameter"),
            ("ia-param", pd.DataFrame({"kf": [2.0, 0.5]}), pd.DataFrame({"S": [1.0, 2.0, 3.0]}), "initial-value"),
            ("plain", pd.DataFrame({"k1": [2.0, 0.5]}), pd.DataFrame({"S": [1.0, 0.0, 2.0]}), "initial-value"),
        ]
        if not quick:
            combos.append(("ia-param", pd.DataFrame({"S": [3.0, 1.0, 2.0]}), pd.DataFrame({"kr": [0.25, 2.0]}), "parameter"))
        for mname, mc_table, table, colkind in combos:
            build = MODELS[mname]
            refs = [[_independent("ss", build, [mrow.to_dict(), row.to_dict()], cfg) for _, row in table.iterrows()]
                    for _, mrow in mc_table.iterrows()]
            for sched in ((2,) if quick else (1, 2, 16)):
                tag = f"mc.scan_steady_state:{mname}:{colkind}:{_relation(len(mc_table), sched)}"
                witness = {"entry": "mc.scan_steady_state", "model": mname, "mc_to_scan": mc_table.to_dict("list"),
                           "to_scan": table.to_dict("list"), "schedule": f"max_workers={sched}"}
                workers_for_scan["n"] = sched
                tally.cases += 1
                tally.rows += len(mc_table) * len(table)
                tally.nontrivial.add(("mc.scan_steady_state", mname, colkind, sched))
                try:
                    res = mc.scan_steady_state(build(), to_scan=table.copy(), mc_to_scan=mc_table.copy(), max_workers=sched)
                    _post_mc_scan(ctx, tally, res=res, mc_table=mc_table, table=table, refs=refs, tag=tag, witness=witness)
                except Exception as e:  # noqa: BLE001
                    zd = isinstance(e, ZeroDivisionError) and any(
                        _zero_division_at_initial_state(build, row.to_dict()) for _, row in table.iterrows())
                    ctx.fail(key="bounded:failing-row-raises-instead-of-placeholder:ZeroDivisionError-at-initial-state:mc.scan_steady_state"
                             if zd else f"bounded:scan-raised:{type(e).__name__}:{tag}", kind="bounded",
                             what=f"mc.scan_steady_state raised {type(e).__name__}: {str(e)[:100]}", witness=witness, replayed=True)
        # ---- parallelise(): results are paired with the inputs BY POSITION ---------------
        # scan.steady_state / mc.steady_state zip the result list with the scan table, so
        # the contract of the real parallelise is positional and must not depend on the
        # keys being distinct, sortable or hashed in any particular way.
        key_sets = {
            "distinct": [3, 0, 2, 1, 5, 4],
            "repeated": [0, 1, 2, 0, 1, 2],
            "all-equal": ["r", "r", "r", "r"],
            "tuple-keys": [(0, "a"), (1, "a"), (0, "a"), (0, "b")],
        }
        for kname, keys_ in key_sets.items():
            n = len(keys_)
            inputs = [(k, (i, n)) for i, k in enumerate(keys_)]
            want = [(k, (i, i * i)) for i, k in enumerate(keys_)]
            for sched in ("seq", 1, 2, 16):
                kw = {"parallel": False} if sched == "seq" else {"parallel": True, "max_workers": sched}
                par_cases += 1
                tally.nontrivial.add(("parallelise", kname, sched))
                if sched != "seq":
                    tally.pools += 1
                witness = {"call": "parallel.parallelise(_slow_first, inputs, **kw)", "keys": [repr(k) for k in keys_],
                           "kw": kw, "task": "returns (i, i*i) for input (i, n) after sleeping 0.02*(n-i) s"}
                try:
                    got = mp.parallelise(_slow_first, inputs, disable_tqdm=True, **kw)
                except Exception as e:  # noqa: BLE001
                    ctx.fail(key=f"bounded:parallelise-raised:{type(e).__name__}:{kname}:{_relation(n, sched)}", kind="bounded",
                             what=f"parallelise raised {type(e).__name__}: {str(e)[:100]}", witness=witness, replayed=True)
                    continue
                if list(got) != want:
                    ctx.fail(key=f"bounded:parallelise-not-positional:{kname}:{_relation(n, sched)}", kind="bounded",
                             what=f"parallelise: result list is not [(key_i, fn(input_i))] in input order: got {list(got)!r}, want {want!r}",
                             witness={**witness, "got": repr(list(got)), "want": repr(want)}, replayed=True)

        # ---- steady-state scans over a table whose row labels repeat ----------------------
        # (steady-state containers pair results with rows by position, so repeated labels -
        # two grids joined with pd.concat - are inside their contract; the label-keyed
        # time-course / protocol containers assume distinct labels, see assumptions)
        dup = pd.concat([pd.DataFrame({"k1": [0.5, 2.0, 3.0]}), pd.DataFrame({"k1": [1.0, 1.5, 2.5]})])
        dup_refs = [_independent("ss", _m_plain, [row.to_dict()], cfg) for _, row in dup.iterrows()]
        for ename in ("scan.steady_state", "mc.steady_state"):
            kind, call, has_seq = entries[ename]
            for sched in (["seq"] if has_seq else []) + ([2] if quick else [1, 2, 16]):
                tag = f"{ename}:plain:parameter:repeated-row-labels:{_relation(len(dup), sched)}"
                witness = {"entry": ename, "model": "plain", "to_scan": {"index": [repr(x) for x in dup.index], **dup.to_dict("list")},
                           "schedule": "parallel=False" if sched == "seq" else f"parallel=True,max_workers={sched}"}
                workers_for_scan["n"] = None if sched == "seq" else sched
                tally.cases += 1
                tally.rows += len(dup)
                tally.nontrivial.add((ename, "repeated-row-labels", sched))
                try:
                    res = call(_m_plain(), dup.copy(), cfg, sched)
                    _post(ctx, tally, ename=ename, kind=kind, res=res, table=dup, refs=dup_refs, tag=tag, witness=witness)
                except Exception as e:  # noqa: BLE001
                    ctx.fail(key=f"bounded:scan-raised:{type(e).__name__}:{tag}", kind="bounded",
                             what=f"{ename} over repeated row labels raised {type(e).__name__}: {str(e)[:100]}",
                             witness=witness, replayed=True)
    finally:
        mp.tqdm, scan.parallelise, mc.parallelise = real_tqdm, real_par_scan, real_par_mc
        logging.disable(logging.NOTSET)

    if tally.post_evals == 0 or tally.pools == 0 or tally.failing_rows == 0:
        raise CheckerError("C09 stand-in: postcondition never evaluated / no pool used / no failing row explored")
    ctx.extra["C09_postcondition_evaluations"] = tally.post_evals
    ctx.extra["C09_process_pools_started"] = tally.pools
    ctx.extra["C09_rows_compared"] = tally.rows
    ctx.extra["C09_failing_rows_explored"] = tally.failing_rows
    ctx.trust(
        "pebble.ProcessPool.map runs tasks in separate processes (assumed pool contract); OS scheduling is not enumerated, "
        "only pool sizes and row counts are",
        "Simulator on a freshly built model is the reference semantics of 'a separate simulation' (second entry point)",
    )
    ctx.assume(
        f"scan and independent run execute the same deterministic integrator on identical inputs; compared with rtol={RTOL}, atol={ATOL} "
        "(the integrator's own tolerance; the defects this check exists for are O(1) differences)",
        "row labels of to_scan are distinct for the label-keyed containers (time course / protocol: dict(res) precondition); "
        "steady-state scans and parallelise itself are also run with repeated labels / keys",
        "rows that 'fail' are rows whose independent run returns a failed Result or raises ZeroDivisionError; "
        "rows on which scipy itself raises (non-finite state handed to the next protocol step) are outside the bound",
        "for a failing row the fluxes are only required to have the right shape/position (a constant-rate flux is not NaN)",
    )
    ctx.add_bounded(
        name="C09-parallelise-positional",
        tool="run-time postcondition on the real parallel.parallelise: result == [(key_i, fn(input_i))] in input order",
        bound="4 key lists (distinct, repeated, all equal, tuple keys; 4..6 tasks whose completion order is the reverse of "
              "submission order) x {parallel=False, max_workers 1, 2, 16}",
        cases=par_cases, distinct_nontrivial=par_cases,
        rule="case = (key list, schedule)", exhaustive=False,
    )
    ctx.add_bounded(
        name="C09-scan-vs-independent-runs",
        tool="run-time postcondition on the real scan.*/mc.* against per-row Simulator runs on freshly built models",
        bound=f"{len(MODELS)} models x {len(tables)} scan tables (1..{'17' if not quick else '5'} rows; parameter / initial value / both; "
              "ZeroDivision and NaN failing rows) x 9 entry points x schedules {parallel=False, max_workers 1, 2, 16"
              + ("" if not quick else " (16 on a subset)") + "}; y0 + scanned initial value; mc.scan_steady_state mc-rows x scan-rows",
        cases=tally.cases, distinct_nontrivial=len(tally.nontrivial),
        rule="case = (entry point, scan table, schedule); every case compares every row's variables and fluxes with an independent run; "
             "distinct by (entry, table, rows-vs-workers relation, pool size)",
        exhaustive=False, samples=tally.samples,
    )
