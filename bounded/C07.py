"""Bounded stand-in for C07 (labelled bounded, never counted as proved).

Contract (taken from the property statement), checked at run time on the REAL
`generate_model_code_py / _ts / _rs / _jl` over an enumerated small scope of
surrogate-free models:

  (W)  the emitted function is well-formed in its language: header
       `model(time, variables[, free parameters in the requested order])`, every name
       used on a right-hand side is bound earlier (def-before-use), the variables are
       destructured from the input in declaration order (also when there is exactly
       one), and the program can be executed (CPython `exec`; `node`; `rustc`; a
       small evaluator for the Julia subset the generator emits);
  (R)  it returns one derivative per variable, in declaration order (0 for a
       variable no reaction touches);
  (V)  for every state and time of a grid (incl. zero and negative values) it returns
       the values `Model.__call__` of a *freshly built* model returns; with
       `free_parameters=[p..]` the extra inputs replace the parameters: the values equal
       those of a fresh model whose parameters p.. hold the passed values (also zero /
       negative ones, also when p feeds an initial-assignment parameter);
  (X)  a rate law that cannot be translated makes generation raise - or, if code is
       emitted after all, that code computes what the model computes;
  (F)  frame: generating code leaves the model as it was (parameter values, and the
       model still evaluates to the same numbers afterwards).

The oracle is `Model.__call__` of a fresh model built from a declarative spec (a second
entry point that never touches the code generator, sympy or the source translator); a
plain-python interpreter of the spec cross-checks it (disagreement = checker error, a
C01 matter).  The structural analysis of the emitted text only *classifies* failures
and stands in for node/rustc where those are not run; where a program is executed the
execution decides, and a disagreement between analysis and execution is a checker
error.
"""
from __future__ import annotations

import ast
import functools
import itertools
import json
import logging
import math
import os
import random
import re
import shutil
import subprocess
import tempfile
import time as _time
import warnings
from concurrent.futures import ProcessPoolExecutor

from vlib.core import CheckerError, Ctx, seed

RTOL, ATOL = 1e-9, 1e-9
LANGS = ("py", "ts", "rs", "jl")

# ---------------------------------------------------------------------------
# rate laws / derived functions (plain python, module level so that the library can
# read their source).  No model component is called `k`.


def f_const(k):
    return k


def f_ma(k, s):
    return k * s


def f_ma_t(k, s, t):
    return k * s * (1.0 + 0.5 * t)


def f_if_le0(k, s):
    if s <= 0:
        return 0.0
    return k * s


def f_tern_gt0(k, s):
    return k * s if s > 0 else 0.0


def f_ifelse_neg(k, s):
    if s > -1.0:
        return k * (s + 1.0)
    else:
        return 0.0


def f_lt_neg(k, s):
    return 0.0 if s < -0.5 else k * s


def f_elif(k, s):
    if s < -1.0:
        return -k
    elif s < 0:
        return k * s
    return k * s * s


def f_guard_div(k, s):
    if s <= 0:
        return 0.0
    return k / (s + 0.25)


def f_gate(g, k, s):
    if g > 0:
        return k * s
    return 0.0


def f_mm(k, s):
    return k * s / (0.6 + s)


def f_hill(k, s):
    return k * s**2 / (1.0 + s**2)


def f_local(k, s):
    a = k * s
    b = a + 1.0
    return a * b


def f_add(a, b):
    return a + b


def f_mul(a, b):
    return a * b


def f_twice(a):
    return 2.0 * a


def f_half(a):
    return a / 2


def f_sq1(x):
    return 1.0 + x * x


def f_tcoef(t):
    return 1.0 + 0.5 * t


# functions the translator has no faithful translation for (clause X)

G_FACTOR = 3.0


def h_for_loop(k, s):
    acc = 0.0
    for _i in range(3):
        acc = acc + k * s
    return acc


def h_aug_assign(k, s):
    y = k * s
    y += 1.0
    return y


def h_while(k, s):
    y = s
    while y > 10:
        y = y / 2
    return k * y


def h_try(k, s):
    try:
        return k / s
    except ZeroDivisionError:
        return 0.0


def h_nested_def(k, s):
    def inner(a):
        return a * a

    return k * inner(s)


h_lambda = lambda k, s: k * s  # noqa: E731


def h_builtin_max(k, s):
    return k * max(s, 0.0)


def h_builtin_abs(k, s):
    return k * abs(s)


def h_bool_and(k, s):
    if s > 0 and k > 0:
        return k * s
    return 0.0


def h_code_after_if_else(k, s):
    if s > 0:
        y = k * s
    else:
        y = 0.0
    return y + 1.0


def h_equality_test(k, s):
    if s == 0:
        return 0.0
    return k / s


def h_global_constant(k, s):
    return G_FACTOR * k * s


def h_chained_comparison(k, s):
    return k if 0 < s < 1 else 0.0


def h_if_without_else_then_assign(k, s):
    y = k * s
    if s < 0:
        y = 0.0
    return y


FN = {f.__name__: f for f in (
    f_const, f_ma, f_ma_t, f_if_le0, f_tern_gt0, f_ifelse_neg, f_lt_neg, f_elif, f_guard_div, f_gate, f_mm, f_hill,
    f_local, f_add, f_mul, f_twice, f_half, f_sq1, f_tcoef,
    h_for_loop, h_aug_assign, h_while, h_try, h_nested_def, h_builtin_max, h_builtin_abs, h_bool_and,
    h_code_after_if_else, h_equality_test, h_global_constant, h_chained_comparison, h_if_without_else_then_assign,
)}
FN["h_lambda"] = h_lambda
HARD = ["h_for_loop", "h_aug_assign", "h_while", "h_try", "h_nested_def", "h_lambda", "h_builtin_max", "h_builtin_abs",
        "h_bool_and", "h_code_after_if_else", "h_equality_test", "h_global_constant", "h_chained_comparison",
        "h_if_without_else_then_assign"]

# ---------------------------------------------------------------------------
# axes of the enumeration

# law -> (function, extra leading parameter (name, value) or None, uses time)
LAWS = {
    "ma": ("f_ma", None, False),
    "time": ("f_ma_t", None, True),
    "if<=0": ("f_if_le0", None, False),
    "ternary>0": ("f_tern_gt0", None, False),
    "ifelse>-1": ("f_ifelse_neg", None, False),
    "ternary<-0.5": ("f_lt_neg", None, False),
    "elif": ("f_elif", None, False),
    "guarded-division": ("f_guard_div", None, False),
    "gate+": ("f_gate", ("g", 0.4), False),
    "gate0": ("f_gate", ("g", 0.0), False),
    "gate-": ("f_gate", ("g", -0.4), False),
    "mm": ("f_mm", None, False),
    "hill": ("f_hill", None, False),
    "locals": ("f_local", None, False),
}
COEFS = ["one", "int", "frac", "third", "negfrac", "named-par", "named-int-par", "named-derived", "computed-par", "computed-state", "computed-time"]
DERIVED = ["none", "one-var", "one-par", "chain", "chain-rev", "parchain", "parchain-rev", "indep", "indep-rev", "uses-rate"]
IAS = ["none", "rate"]
FREES = ["none", "empty", "one", "two"]
TOPOS = ["one", "one-untouched", "two", "two-rev", "two-untouched-first", "two-untouched-last", "three-branched",
         "three-untouched-middle", "three-chain"]
BASE = {"topo": "two", "law": "ma", "coef": "one", "derived": "none", "ia": "none", "free": "none"}
AXES = {"topo": TOPOS, "law": list(LAWS), "coef": COEFS, "derived": DERIVED, "ia": IAS, "free": FREES}


def make_spec(ax):
    """Total over all axis combinations.  Returns (spec, free list | None)."""
    topo, law, coefk, der, ia = ax["topo"], ax["law"], ax["coef"], ax["derived"], ax["ia"]
    lawfn, gate, uses_time = LAWS[law]
    pars = {}  # insertion order = declaration order (deliberately not alphabetical)
    derived = []
    tail_derived = []

    def need(p, v):
        pars.setdefault(p, v)

    need("k2", 0.8)
    base_par = "k1" if ia == "none" else "k0"
    if ia == "none":
        need("k1", 1.3)
        inp = "k1"
    else:
        need("k0", 0.65)
        pars["kia"] = ["ia", "f_twice", ["k0"]]  # = 1.3
        inp = "kia"

    # variables
    if topo.startswith("one"):
        variables = [["x", 1.0]]
    elif topo.startswith("two"):
        variables = {"two": [["s", 1.0], ["p", 0.5]], "two-rev": [["s", 1.0], ["p", 0.5]],
                     "two-untouched-first": [["u", 0.3], ["p", 0.5]], "two-untouched-last": [["s", 1.0], ["u", 0.3]]}[topo]
    else:
        variables = {"three-branched": [["s", 1.0], ["p", 2.0], ["q", 3.0]],
                     "three-untouched-middle": [["s", 1.0], ["u", 0.3], ["q", 3.0]],
                     "three-chain": [["s", 1.0], ["q", 3.0], ["p", 2.0]]}[topo]
    # substrate of the designated reaction v1
    sub = {"one": "x", "one-untouched": "x", "two": "s", "two-rev": "p", "two-untouched-first": "p", "two-untouched-last": "s",
           "three-branched": "p", "three-untouched-middle": "s", "three-chain": "s"}[topo]

    # designated coefficient
    if coefk == "one":
        c = 1.0
    elif coefk == "int":
        c = 2
    elif coefk == "frac":
        c = 0.5
    elif coefk == "third":
        c = 1 / 3
    elif coefk == "negfrac":
        c = -1.5
    elif coefk == "named-par":
        need("n", 2.0)
        c = "n"
    elif coefk == "named-int-par":
        need("n", 2)  # an integer-valued parameter
        c = "n"
    elif coefk == "named-derived":
        need("n", 2.0)
        tail_derived.append(["dn", "f_half", ["n"]])
        c = "dn"
    elif coefk == "computed-par":
        need("n", 2.0)
        c = ["fn", "f_half", ["n"]]
    elif coefk == "computed-state":
        c = ["fn", "f_sq1", [sub]]
    elif coefk == "computed-time":
        c = ["fn", "f_tcoef", ["time"]]
    else:
        raise CheckerError(coefk)

    # derived chain feeding the rate constant of v1
    rc = inp
    v2const = "k2"
    extra_rxn = None
    if der == "one-var":
        derived = [["d1", "f_add", [inp, sub]]]
        rc = "d1"
    elif der == "one-par":
        derived = [["dp", "f_mul", [inp, "k2"]]]
        rc = "dp"
    elif der in ("chain", "chain-rev"):
        derived = [["d1", "f_add", [inp, sub]], ["d2", "f_mul", ["d1", "k2"]]]
        rc = "d2"
    elif der in ("parchain", "parchain-rev"):
        derived = [["dp", "f_mul", [inp, "k2"]], ["d2", "f_add", ["dp", sub]]]
        rc = "d2"
    elif der in ("indep", "indep-rev"):
        derived = [["d1", "f_add", [inp, sub]], ["e1", "f_twice", ["k2"]]]
        rc = "d1"
        v2const = "e1"
    elif der == "uses-rate":
        derived = [["dv", "f_half", ["v1"]]]
        extra_rxn = ["v_r", "f_const", ["dv"], [[sub, -1.0]]]
    if der.endswith("-rev"):
        derived.reverse()

    args = [rc, sub]
    if gate is not None:
        need(gate[0], gate[1])
        args = [gate[0], rc, sub]
    if uses_time:
        args = [rc, sub, "time"]
    v1 = lambda st: ["v1", lawfn, list(args), st]  # noqa: E731

    if topo == "one":
        need("k_in", 0.7)
        rxns = [["v_in", "f_const", ["k_in"], [["x", c]]], v1([["x", -1]])]
    elif topo == "one-untouched":
        rxns = []
    elif topo == "two":
        rxns = [v1([["s", -1], ["p", c]]), ["v2", "f_ma", [v2const, "p"], [["p", -1.0]]]]
    elif topo == "two-rev":
        need("k_in", 0.7)
        rxns = [["v_in", "f_const", ["k_in"], [["p", 1.0]]], v1([["s", c], ["p", -1.0]]), ["v2", "f_ma", [v2const, "s"], [["s", -1]]]]
    elif topo == "two-untouched-first":
        need("k_in", 0.7)
        rxns = [["v_in", "f_const", ["k_in"], [["p", c]]], v1([["p", -1.0]])]
    elif topo == "two-untouched-last":
        need("k_in", 0.7)
        rxns = [["v_in", "f_const", ["k_in"], [["s", c]]], v1([["s", -1.0]])]
    elif topo == "three-branched":
        need("k_in", 0.7)
        need("k3", 0.125)
        rxns = [["v_in", "f_const", ["k_in"], [["p", 1.0]]], v1([["q", c], ["p", -1.0]]),
                ["v2", "f_ma", [v2const, "q"], [["q", -1.0], ["s", 2.0]]], ["v3", "f_ma", ["k3", "s"], [["s", -1.0]]]]
    elif topo == "three-untouched-middle":
        rxns = [v1([["s", -1.0], ["q", c]]), ["v2", "f_ma", [v2const, "q"], [["q", -1.0]]]]
    elif topo == "three-chain":
        need("k3", 0.125)
        rxns = [v1([["s", -1.0], ["q", c]]), ["v2", "f_ma", [v2const, "q"], [["q", -1.0], ["p", 1.0]]],
                ["v3", "f_ma", ["k3", "p"], [["p", -1.0]]]]
    else:
        raise CheckerError(topo)
    if extra_rxn is not None and rxns:
        rxns.append(extra_rxn)
    if not rxns:
        # nothing can use a reaction rate; keep the derived quantities that do not need one
        derived = [d for d in derived if "v1" not in d[2]]

    spec = {"variables": variables, "parameters": [[k, v] for k, v in pars.items()], "derived": derived + tail_derived, "reactions": rxns}
    free = {"none": None, "empty": [], "one": ["k2"], "two": ["k2", base_par]}[ax["free"]]
    return spec, free


# ---------------------------------------------------------------------------
# spec -> real Model ; independent interpreter


def _is_ia(v):
    return isinstance(v, (list, tuple)) and len(v) == 3 and v[0] == "ia"


def build_model(spec, override=None):
    from mxlpy import Derived, InitialAssignment, Model

    m = Model()
    for name, init in spec["variables"]:
        m.add_variable(name, init)
    for name, v in spec["parameters"]:
        if override and name in override:
            v = override[name]
        m.add_parameter(name, InitialAssignment(fn=FN[v[1]], args=list(v[2])) if _is_ia(v) else v)
    for name, fn, args in spec["derived"]:
        m.add_derived(name, FN[fn], args=list(args))
    for name, fn, args, st in spec["reactions"]:
        m.add_reaction(name, FN[fn], args=list(args),
                       stoichiometry={v: (Derived(fn=FN[c[1]], args=list(c[2])) if isinstance(c, list) else c) for v, c in st})
    return m


def interpret(spec, override, t, state):
    """Plain-python right-hand side of the spec (shares nothing with mxlpy)."""
    env = {}
    for name, v in spec["parameters"]:
        if override and name in override:
            v = override[name]
        if not _is_ia(v):
            env[name] = float(v)
    for name, v in spec["parameters"]:
        if _is_ia(v) and not (override and name in override):
            env[name] = float(FN[v[1]](*[env[a] for a in v[2]]))
    env.update(dict(zip([n for n, _ in spec["variables"]], state, strict=True)))
    env["time"] = t
    pending = [(d[0], d[1], d[2]) for d in spec["derived"]] + [(r[0], r[1], r[2]) for r in spec["reactions"]]
    while pending:
        n0 = len(pending)
        for item in list(pending):
            name, fn, args = item
            if all(a in env for a in args):
                env[name] = float(FN[fn](*[env[a] for a in args]))
                pending.remove(item)
        if len(pending) == n0:
            raise CheckerError(f"spec not evaluable: {[p[0] for p in pending]}")
    out = {n: 0.0 for n, _ in spec["variables"]}
    for name, _fn, _args, st in spec["reactions"]:
        for v, c in st:
            if isinstance(c, str):
                cv = env[c]
            elif isinstance(c, list):
                cv = float(FN[c[1]](*[env[a] for a in c[2]]))
            else:
                cv = float(c)
            out[v] += cv * env[name]
    return tuple(out[n] for n, _ in spec["variables"])


def roles(spec, free):
    r = {"time": "time"}
    for n, _ in spec["variables"]:
        r[n] = "variable"
        r[f"d{n}dt"] = "derivative"
    for n, v in spec["parameters"]:
        r[n] = "initial-assignment parameter" if _is_ia(v) else "parameter"
    for d in spec["derived"]:
        r[d[0]] = "derived"
    for x in spec["reactions"]:
        r[x[0]] = "reaction"
    for p in free or []:
        r[p] = "free parameter"
    return r


GRID = (-1.5, 0.0, 0.75, 2.0)
TIMES = (0.0, 1.5)
ALT = (0.0, -0.4, 1.7)


def make_calls(spec, free, extra_states=()):
    """[(t, state, freevals, override)]"""
    nv = len(spec["variables"])
    pv = {k: v for k, v in spec["parameters"]}
    states = [list(s) for s in itertools.product(GRID, repeat=nv)] + [list(s) for s in extra_states]
    calls = []
    base = [pv[p] for p in (free or [])]
    for t in TIMES:
        for s in states:
            calls.append((t, s, list(base), {}))
    small = states[:: max(1, len(states) // 6)][:8]
    for i, p in enumerate(free or []):
        for a in ALT:
            fv = list(base)
            fv[i] = a
            for s in small:
                calls.append((TIMES[1], s, fv, {p: a}))
    return calls


def expected_values(spec, calls):
    """Model.__call__ of fresh models (one per parameter override); None where the model
    itself raises or is not finite.  Cross-checked with the plain interpreter."""
    models = {}
    out = []
    for t, s, _fv, ov in calls:
        key = json.dumps(ov, sort_keys=True)
        if key not in models:
            models[key] = build_model(spec, ov)
        try:
            e = tuple(float(x) for x in models[key](t, s))
        except (ZeroDivisionError, OverflowError, ValueError):
            e = None
        try:
            i = interpret(spec, ov, t, s)
        except (ZeroDivisionError, OverflowError, ValueError):
            i = None
        if (e is None) != (i is None) or (e is not None and not _close(e, i)):
            raise CheckerError(f"Model.__call__ {e} disagrees with the plain interpreter {i} at t={t} y={s} override={ov} (a C01 matter)")
        if e is not None and not all(math.isfinite(x) for x in e):
            e = None
        out.append(e)
    return out


def _close(a, b):
    return len(a) == len(b) and all(math.isclose(x, y, rel_tol=RTOL, abs_tol=ATOL) for x, y in zip(a, b, strict=True))


# ---------------------------------------------------------------------------
# generation with the frame contract wrapped around the real _generate_model_code

_STATS = {"evals": 0, "frame_violations": 0}


def _install_contract():
    """Recording run-time contract on the real `_generate_model_code` (all four public
    generators go through it): returns a string; the model's parameter values are the
    same before and after.  Counted, so that a bypassed wrapper is noticed."""
    import mxlpy.meta.codegen_model as cg

    if getattr(cg._generate_model_code, "__c07__", False):
        return
    orig = cg._generate_model_code

    def contracted(model, **kw):
        before = dict(model.get_parameter_values())
        try:
            out = orig(model, **kw)
        finally:
            _STATS["evals"] += 1
            if dict(model.get_parameter_values()) != before:
                _STATS["frame_violations"] += 1
        return out

    contracted.__c07__ = True
    contracted.__wrapped_c07__ = orig
    cg._generate_model_code = contracted


def generators():
    from mxlpy.meta import codegen_model as cg

    return {"py": cg.generate_model_code_py, "ts": cg.generate_model_code_ts, "rs": cg.generate_model_code_rs, "jl": cg.generate_model_code_jl}


def snapshot(m, spec):
    """What a caller can observe of the model."""
    from mxlpy import InitialAssignment

    probe = [0.75 + 0.5 * i for i in range(len(spec["variables"]))]
    try:
        rhs = [round(float(x), 12) for x in m(0.5, probe)]
    except Exception as e:  # noqa: BLE001
        rhs = f"raises {type(e).__name__}: {e}"
    return {
        "get_parameter_values": {k: float(v) for k, v in m.get_parameter_values().items()},
        "raw_parameters": {k: ("ia" if isinstance(v.value, InitialAssignment) else float(v.value)) for k, v in m.get_raw_parameters().items()},
        "variables": list(m.get_initial_conditions().items()),
        "derived": [[k, list(v.args)] for k, v in m.get_raw_derived().items()],
        "reactions": [[k, list(v.args), [[a, repr(b) if not isinstance(b, (int, float)) else b] for a, b in v.stoichiometry.items()]]
                      for k, v in m.get_raw_reactions().items()],
        "model(0.5, probe)": rhs,
    }


def generate(spec, free, lang):
    """Runs the real generator on a fresh model.  Returns (src | None, exception | None, frame problem | None)."""
    _install_contract()
    m = build_model(spec)
    before = snapshot(m, spec)
    src, exc = None, None
    try:
        src = generators()[lang](m) if free is None else generators()[lang](m, free_parameters=list(free))
    except Exception as e:  # noqa: BLE001
        exc = e
    after = snapshot(m, spec)
    frame = None
    if after != before:
        changed = [k for k in before if before[k] != after[k]]
        frame = {"changed": changed, "before": {k: before[k] for k in changed}, "after": {k: after[k] for k in changed}}
    return src, exc, frame


# ---------------------------------------------------------------------------
# structural reading of the emitted programs


class Shape(Exception):
    """The emitted text does not have the shape this reader knows."""


_ID = r"(?<![\w.])[A-Za-z_]\w*"
_SKIP = {
    "py": {"math", "True", "False", "None", "float", "int", "abs", "min", "max"},
    "ts": {"Math", "Infinity", "NaN", "true", "false", "Number"},
    "rs": {"if", "else", "true", "false", "f64", "as", "std", "consts"},
    "jl": {"true", "false", "pi", "Inf", "NaN"},
}


def _names(text, lang):
    out = []
    for mt in re.finditer(_ID, text):
        w = mt.group(0)
        rest = text[mt.end():]
        if w in _SKIP[lang] or rest.startswith("::") or text[: mt.start()].endswith("::"):
            continue
        if lang in ("jl",) and rest.lstrip().startswith("("):
            continue  # function call
        if w not in out:
            out.append(w)
    return out


def read_py(src):
    try:
        tree = ast.parse(src)
    except SyntaxError as e:
        raise Shape(f"SyntaxError: {e}") from e
    fns = [n for n in tree.body if isinstance(n, ast.FunctionDef) and n.name == "model"]
    if len(fns) != 1:
        raise Shape("no single function `model`")
    fn = fns[0]
    prog = {"args": [a.arg for a in fn.args.args], "vars": None, "vars_form": None, "binds": [], "ret": None}
    for st in fn.body:
        if isinstance(st, ast.Expr) and isinstance(st.value, ast.Constant):
            continue
        if isinstance(st, ast.Assign) and len(st.targets) == 1 and isinstance(st.value, ast.Name) and st.value.id == "variables":
            tg = st.targets[0]
            if isinstance(tg, (ast.Tuple, ast.List)) and all(isinstance(e, ast.Name) for e in tg.elts):
                prog["vars"], prog["vars_form"] = [e.id for e in tg.elts], "sequence"
            elif isinstance(tg, ast.Name):
                prog["vars"], prog["vars_form"] = [tg.id], "bare-name"
            else:
                raise Shape("unknown destructuring")
            continue
        if isinstance(st, ast.AnnAssign) and isinstance(st.target, ast.Name) and st.value is not None:
            tgt, val = st.target.id, st.value
        elif isinstance(st, ast.Assign) and len(st.targets) == 1 and isinstance(st.targets[0], ast.Name):
            tgt, val = st.targets[0].id, st.value
        elif isinstance(st, ast.Return):
            v = st.value
            if isinstance(v, (ast.Tuple, ast.List)) and all(isinstance(e, ast.Name) for e in v.elts):
                prog["ret"] = [e.id for e in v.elts]
            elif isinstance(v, ast.Name):
                prog["ret"] = [v.id]
            else:
                raise Shape("unknown return")
            continue
        else:
            raise Shape(f"unknown statement {type(st).__name__}")
        used = []
        for n in ast.walk(val):
            if isinstance(n, ast.Name) and n.id not in _SKIP["py"] and n.id not in used:
                used.append(n.id)
        prog["binds"].append((tgt, used))
    if prog["ret"] is None:
        raise Shape("no return")
    return prog


def _split_args(text, lang):
    out = []
    for a in text.split(","):
        a = a.strip()
        if a:
            out.append(a.split(":")[0].strip())
    return out


def read_ts(src):
    h = re.search(r"function\s+model\s*\(([^)]*)\)\s*(?::\s*[\w\[\]]+\s*)?\{", src)
    if not h:
        raise Shape("no header")
    prog = {"args": _split_args(h.group(1), "ts"), "vars": None, "vars_form": None, "binds": [], "ret": None}
    body = src[h.end():]
    d = re.search(r"(?:let|const|var)\s*\[([^\]]*)\]\s*=\s*variables\s*;", body)
    if d:
        prog["vars"], prog["vars_form"] = [x.strip() for x in d.group(1).split(",") if x.strip()], "sequence"
        body = body[: d.start()] + body[d.end():]
    r = re.search(r"\breturn\s*\[([^\]]*)\]\s*;?", body)
    if not r:
        raise Shape("no return")
    prog["ret"] = [x.strip() for x in r.group(1).split(",") if x.strip() and x.strip() != "()"]
    pre = body[: r.start()]
    pos = 0
    for mt in re.finditer(r"(?:let|const|var)\s+(\w+)\s*(?::\s*\w+\s*)?=\s*(.*?);[ \t]*\n(?=\s*(?:let\b|const\b|var\b|$))", pre, re.S):
        if pre[pos: mt.start()].strip():
            raise Shape(f"unknown text {pre[pos: mt.start()].strip()[:40]!r}")
        pos = mt.end()
        prog["binds"].append((mt.group(1), _names(mt.group(2), "ts")))
    if pre[pos:].strip():
        raise Shape(f"unknown text {pre[pos:].strip()[:40]!r}")
    return prog


def read_rs(src):
    h = re.search(r"fn\s+model\s*\(([^)]*)\)\s*->\s*\[f64;\s*(\d+)\]\s*\{", src)
    if not h:
        raise Shape("no header")
    args = h.group(1)
    sz = re.search(r"variables:\s*&\[f64;\s*(\d+)\]", args)
    prog = {"args": _split_args(args, "rs"), "vars": None, "vars_form": None, "binds": [], "ret": None,
            "n_in": int(sz.group(1)) if sz else None, "n_out": int(h.group(2))}
    body = src[h.end():]
    d = re.search(r"let\s*\[([^\]]*)\]\s*=\s*\*variables\s*;", body)
    if d:
        prog["vars"], prog["vars_form"] = [x.strip() for x in d.group(1).split(",") if x.strip()], "sequence"
        body = body[: d.start()] + body[d.end():]
    r = re.search(r"(?:\breturn\s*)?\[([^\]]*)\]\s*;?\s*\}\s*$", body)
    if not r:
        raise Shape("no return")
    prog["ret"] = [x.strip() for x in r.group(1).split(",") if x.strip() and x.strip() != "()"]
    pre = body[: r.start()]
    pos = 0
    for mt in re.finditer(r"let\s+(?:mut\s+)?(\w+)\s*(?::\s*f64\s*)?=\s*(.*?);[ \t]*\n(?=\s*(?:let\b|$))", pre, re.S):
        if pre[pos: mt.start()].strip():
            raise Shape(f"unknown text {pre[pos: mt.start()].strip()[:40]!r}")
        pos = mt.end()
        prog["binds"].append((mt.group(1), _names(mt.group(2), "rs")))
    if pre[pos:].strip():
        raise Shape(f"unknown text {pre[pos:].strip()[:40]!r}")
    return prog


def _jl_logical_lines(src):
    out, cur, depth = [], "", 0
    for ln in src.split("\n"):
        cur = (cur + " " + ln.strip()) if cur else ln.strip()
        depth += ln.count("(") - ln.count(")")
        if depth <= 0 and not cur.rstrip().endswith((":", "?", "+", "-", "*", "/", "^", "=")):
            if cur:
                out.append(cur)
            cur, depth = "", 0
    if cur:
        out.append(cur)
    return out


def read_jl(src):
    lines = _jl_logical_lines(src)
    if not lines or lines[-1] != "end":
        raise Shape("does not end with `end`")
    h = re.fullmatch(r"function\s+model\s*\(([^)]*)\)", lines[0])
    if not h:
        raise Shape("no header")
    prog = {"args": _split_args(h.group(1), "jl"), "vars": None, "vars_form": None, "binds": [], "ret": None, "rhs": []}
    for ln in lines[1:-1]:
        r = re.fullmatch(r"return\b\s*(.*)", ln)
        if r:
            t = r.group(1).strip()
            if t.startswith("(") and t.endswith(")"):
                t = t[1:-1]
            elif t.startswith("[") and t.endswith("]"):
                t = t[1:-1]
            prog["ret"] = [x.strip() for x in t.split(",") if x.strip()]
            continue
        if prog["ret"] is not None:
            raise Shape("statement after return")
        d = re.fullmatch(r"\(?([\w\s,]+?)\)?\s*=\s*(\*?)\s*variables\s*(\.\.\.)?", ln)
        if d:
            names = [x.strip() for x in d.group(1).split(",")]
            trailing = names and names[-1] == ""
            names = [x for x in names if x]
            if d.group(2) or d.group(3):
                form = "star"
            elif len(names) == 1 and not trailing:
                form = "bare-name"
            else:
                form = "sequence"
            prog["vars"], prog["vars_form"] = names, form
            continue
        a = re.fullmatch(r"(?:local\s+)?(\w+)\s*(?:::\s*\w+\s*)?=(?!=)\s*(.+)", ln)
        if not a:
            raise Shape(f"unknown line {ln[:40]!r}")
        prog["binds"].append((a.group(1), _names(a.group(2), "jl")))
        prog["rhs"].append(a.group(2))
    if prog["ret"] is None:
        raise Shape("no return")
    return prog


READ = {"py": read_py, "ts": read_ts, "rs": read_rs, "jl": read_jl}


def analyse(prog, lang, spec, free):
    """Structural problems of one emitted program: [(key suffix, text, fatal)]."""
    rl = roles(spec, free)
    vnames = [n for n, _ in spec["variables"]]
    probs = []
    want_args = ["time", "variables", *(free or [])]
    if prog["args"] != want_args:
        probs.append(("header-arguments-differ", f"arguments {prog['args']}, expected {want_args}", True))
    if prog["vars"] is None:
        probs.append(("variables-never-destructured", "the input `variables` is never unpacked", True))
    else:
        if prog["vars"] != vnames:
            probs.append(("variables-destructured-in-other-order", f"unpacks {prog['vars']}, declaration order is {vnames}", True))
        if prog["vars_form"] == "bare-name" and lang in ("py", "jl"):
            probs.append(("one-variable-bound-to-the-whole-input", f"`{prog['vars'][0]} = variables` binds the sequence, not its element", True))
        if prog["vars_form"] == "star":
            probs.append(("variables-line-is-not-julia", "`... = *variables`: `*` is not a unary operator in Julia (a Python splat)", True))
    if lang == "rs" and (prog.get("n_in") != len(vnames) or prog.get("n_out") != len(vnames)):
        probs.append(("array-sizes-differ", f"[f64; {prog.get('n_in')}] -> [f64; {prog.get('n_out')}] for {len(vnames)} variables", True))
    binds = prog["binds"]
    if lang == "jl" and any(b[0] == "k" for b in binds):
        probs.append(("every-assignment-binds-k", f"{sum(1 for b in binds if b[0] == 'k')} of {len(binds)} assignments bind the name `k` instead of the component", True))
        return probs, True  # names need repair before anything else can be said
    env = set(a for a in prog["args"] if a != "variables") | set(prog["vars"] or [])
    seen_unbound = set()
    for lhs, used in binds:
        for u in used:
            if u not in env and u not in seen_unbound:
                seen_unbound.add(u)
                later = any(b[0] == u for b in binds)
                role = rl.get(u, "unknown name")
                if later:
                    probs.append((f"used-before-bound:{role}", f"`{lhs}` uses {role} `{u}`, which is bound only further down", True))
                else:
                    probs.append((f"never-bound:{role}", f"`{lhs}` uses {role} `{u}`, which is never bound", True))
        if lhs in env and lang == "ts":
            probs.append((f"bound-twice:{rl.get(lhs, 'unknown name')}", f"`{lhs}` is declared twice", True))
        if lhs in (free or []):
            probs.append(("free-parameter-rebound-in-body", f"the free parameter `{lhs}` is overwritten in the body", True))
        env.add(lhs)
    want_ret = [f"d{v}dt" for v in vnames]
    ret = prog["ret"]
    if ret != want_ret:
        missing = [v for v in vnames if f"d{v}dt" not in ret]
        touched = {v for r in spec["reactions"] for v, _ in r[3]}
        if missing and all(v not in touched for v in missing) and [x for x in want_ret if x in ret] == ret:
            probs.append(("return-omits-variable-without-reaction", f"returns {ret} for variables {vnames}: no derivative for {missing}", True))
        elif sorted(ret) == sorted(want_ret):
            probs.append(("return-order-differs-from-declaration-order", f"returns {ret}, declaration order is {want_ret}", True))
        else:
            probs.append(("return-list-differs", f"returns {ret}, expected {want_ret}", True))
    for x in ret:
        if x not in env:
            probs.append((f"never-bound:{rl.get(x, 'unknown name')}(returned)", f"returns `{x}`, which is never bound", True))
    return probs, False


# ---------------------------------------------------------------------------
# a small evaluator for the Julia subset the generator emits


class JlError(Exception):
    pass


_JL_TOK = re.compile(r"\s*(?:(\d+\.\d*(?:[eE][+-]?\d+)?|\.\d+(?:[eE][+-]?\d+)?|\d+(?:[eE][+-]?\d+)?)|([A-Za-z_]\w*)|(\.\*|\./|\.\^|\.\+|\.-|<=|>=|==|!=|&&|\|\||[-+*/^<>?:(),!]))")
_JL_FUN = {"exp": math.exp, "log": math.log, "sqrt": math.sqrt, "abs": abs, "sin": math.sin, "cos": math.cos, "tan": math.tan,
           "min": min, "max": max, "floor": math.floor, "ceil": math.ceil, "sign": lambda x: (x > 0) - (x < 0), "tanh": math.tanh}


def _jl_tokens(text):
    pos, out = 0, []
    text = text.rstrip()
    while pos < len(text):
        mt = _JL_TOK.match(text, pos)
        if not mt or mt.end() == pos:
            raise JlError(f"cannot tokenise {text[pos: pos + 12]!r}")
        num, name, op = mt.groups()
        if num is not None:
            out.append(("num", float(num)))
        elif name is not None:
            out.append(("name", name))
        else:
            out.append(("op", op.lstrip(".") if op in (".*", "./", ".^", ".+", ".-") else op))
        pos = mt.end()
    return out


class _JlParser:
    def __init__(self, toks):
        self.t, self.i = toks, 0

    def peek(self):
        return self.t[self.i] if self.i < len(self.t) else ("end", None)

    def eat(self, op=None):
        tk = self.peek()
        if op is not None and tk != ("op", op):
            raise JlError(f"expected {op!r}, found {tk}")
        self.i += 1
        return tk

    def parse(self):
        e = self.ternary()
        if self.peek()[0] != "end":
            raise JlError(f"trailing tokens {self.t[self.i:][:3]}")
        return e

    def ternary(self):
        c = self.lor()
        if self.peek() == ("op", "?"):
            self.eat()
            a = self.ternary()
            self.eat(":")
            b = self.ternary()
            return ("if", c, a, b)
        return c

    def lor(self):
        e = self.land()
        while self.peek() == ("op", "||"):
            self.eat()
            e = ("or", e, self.land())
        return e

    def land(self):
        e = self.cmp()
        while self.peek() == ("op", "&&"):
            self.eat()
            e = ("and", e, self.cmp())
        return e

    def cmp(self):
        e = self.add()
        parts = []
        while self.peek()[0] == "op" and self.peek()[1] in ("<", "<=", ">", ">=", "==", "!="):
            op = self.eat()[1]
            parts.append((op, self.add()))
        return ("cmp", e, parts) if parts else e

    def add(self):
        e = self.mul()
        while self.peek()[0] == "op" and self.peek()[1] in ("+", "-"):
            op = self.eat()[1]
            e = (op, e, self.mul())
        return e

    def mul(self):
        e = self.unary()
        while self.peek()[0] == "op" and self.peek()[1] in ("*", "/"):
            op = self.eat()[1]
            e = (op, e, self.unary())
        return e

    def unary(self):
        if self.peek()[0] == "op" and self.peek()[1] in ("-", "+", "!"):
            op = self.eat()[1]
            return ("u" + op, self.unary())
        return self.power()

    def power(self):
        b = self.atom()
        if self.peek() == ("op", "^"):
            self.eat()
            return ("^", b, self.unary())  # right associative, binds tighter than unary minus on its left
        return b

    def atom(self):
        k, v = self.peek()
        if k == "num":
            self.eat()
            return ("num", v)
        if k == "name":
            self.eat()
            if self.peek() == ("op", "("):
                self.eat()
                args = []
                if self.peek() != ("op", ")"):
                    args.append(self.ternary())
                    while self.peek() == ("op", ","):
                        self.eat()
                        args.append(self.ternary())
                self.eat(")")
                return ("call", v, args)
            return ("name", v)
        if (k, v) == ("op", "("):
            self.eat()
            e = self.ternary()
            self.eat(")")
            return e
        raise JlError(f"unexpected token {(k, v)}")


def _jl_eval(e, env):
    k = e[0]
    if k == "num":
        return e[1]
    if k == "name":
        if e[1] in env:
            return env[e[1]]
        if e[1] == "pi":
            return math.pi
        if e[1] in ("true", "false"):
            return e[1] == "true"
        raise JlError(f"UndefVarError: `{e[1]}` not defined")
    if k == "if":
        return _jl_eval(e[2], env) if _jl_eval(e[1], env) else _jl_eval(e[3], env)
    if k == "or":
        return _jl_eval(e[1], env) or _jl_eval(e[2], env)
    if k == "and":
        return _jl_eval(e[1], env) and _jl_eval(e[2], env)
    if k == "cmp":
        left = _jl_eval(e[1], env)
        for op, r in e[2]:
            right = _jl_eval(r, env)
            ok = {"<": left < right, "<=": left <= right, ">": left > right, ">=": left >= right, "==": left == right, "!=": left != right}[op]
            if not ok:
                return False
            left = right
        return True
    if k in ("+", "-", "*", "/", "^"):
        a, b = _jl_eval(e[1], env), _jl_eval(e[2], env)
        if k == "+":
            return a + b
        if k == "-":
            return a - b
        if k == "*":
            return a * b
        if k == "/":
            if b == 0:
                return math.copysign(math.inf, a) if a != 0 else math.nan
            return a / b
        if a < 0 and float(b) != int(b):
            raise JlError("DomainError: negative base with a non-integer exponent")
        try:
            return float(a) ** b
        except ZeroDivisionError:
            return math.inf
    if k == "u-":
        return -_jl_eval(e[1], env)
    if k == "u+":
        return _jl_eval(e[1], env)
    if k == "u!":
        return not _jl_eval(e[1], env)
    if k == "call":
        if e[1] not in _JL_FUN:
            raise JlError(f"function {e[1]} is not in the checked Julia subset")
        return _JL_FUN[e[1]](*[_jl_eval(a, env) for a in e[2]])
    raise JlError(f"unknown node {k}")


def run_jl(prog, calls, lhs_names):
    """Evaluates the (name-repaired) Julia program on every call."""
    try:
        trees = [_JlParser(_jl_tokens(r)).parse() for r in prog["rhs"]]
    except JlError as e:
        return {"fatal": f"outside the checked Julia subset: {e}"}
    out = []
    for t, s, fv, _ov in calls:
        env = {"time": t}
        env.update(zip(prog["args"][2:], fv, strict=False))
        if prog["vars_form"] == "bare-name":
            env[prog["vars"][0]] = list(s)
        else:
            if len(prog["vars"] or []) != len(s):
                out.append({"error": "BoundsError: destructuring"})
                continue
            env.update(zip(prog["vars"], s, strict=True))
        try:
            for lhs, tree in zip(lhs_names, trees, strict=True):
                env[lhs] = _jl_eval(tree, env)
            res = []
            for x in prog["ret"]:
                if x not in env:
                    raise JlError(f"UndefVarError: `{x}` not defined")
                res.append(float(env[x]))
            out.append(res)
        except JlError as e:
            out.append({"error": str(e)})
        except (TypeError, OverflowError, ValueError) as e:
            out.append({"error": f"{type(e).__name__}: {e}"})
    return {"results": out}


# ---------------------------------------------------------------------------
# executing the emitted programs


def run_py(src, calls):
    ns = {}
    try:
        exec(compile(src, "<generated model>", "exec"), ns)  # noqa: S102
        fn = ns["model"]
    except Exception as e:  # noqa: BLE001
        return {"fatal": f"{type(e).__name__}: {e}"}
    out = []
    for t, s, fv, _ov in calls:
        try:
            r = fn(t, list(s), *fv)
            if isinstance(r, (int, float)):
                r = (r,)  # a bare number is accepted as the derivative of the one variable
            out.append([float(x) for x in r])
        except Exception as e:  # noqa: BLE001
            out.append({"error": f"{type(e).__name__}: {e}"})
    return {"results": out}


@functools.lru_cache(maxsize=1)
def find_node():
    """(path, strip_types_flag) - a node that can run TypeScript directly if there is one."""
    cands = []
    w = shutil.which("node")
    if w:
        cands.append(w)
    root = os.path.expanduser("~/.nvm/versions/node")
    if os.path.isdir(root):
        for d in sorted(os.listdir(root), key=lambda v: [int(x) for x in re.findall(r"\d+", v)], reverse=True):
            p = os.path.join(root, d, "bin", "node")
            if os.path.exists(p):
                cands.append(p)
    best = None
    for p in cands:
        try:
            v = subprocess.run([p, "--version"], capture_output=True, text=True, timeout=20).stdout.strip()
        except Exception:  # noqa: BLE001
            continue
        nums = [int(x) for x in re.findall(r"\d+", v)]
        if not nums:
            continue
        strip = nums[0] > 22 or (nums[0] == 22 and nums[1] >= 6)
        if best is None or (strip and not best[1]) or (strip == best[1] and nums > best[2]):
            best = (p, strip, nums)
    return (best[0], best[1], ".".join(map(str, best[2]))) if best else (None, False, None)


@functools.lru_cache(maxsize=1)
def find_rustc():
    p = shutil.which("rustc") or os.path.expanduser("~/.cargo/bin/rustc")
    return p if p and os.path.exists(p) else None


_DRIVER = r"""
import { readFileSync } from 'node:fs';
import { pathToFileURL } from 'node:url';
const jobs = JSON.parse(readFileSync(process.argv[2], 'utf8'));
const out = {};
const enc = (x) => (typeof x === 'number' && !Number.isFinite(x)) ? String(x) : x;
for (const job of jobs) {
  let mod;
  try { mod = await import(pathToFileURL(job.file).href); }
  catch (e) { out[job.id] = { fatal: `${e.name}: ${e.message}`.slice(0, 300) }; continue; }
  const res = [];
  for (const c of job.calls) {
    try {
      const r = mod.model(c[0], c[1], ...c[2]);
      res.push(Array.isArray(r) ? r.map(enc) : { error: `returned ${typeof r}` });
    } catch (e) { res.push({ error: `${e.name}: ${e.message}`.slice(0, 200) }); }
  }
  out[job.id] = { results: res };
}
console.log(JSON.stringify(out));
"""


def _strip_ts(src):
    """Fallback when no node with type stripping exists: erase the two annotation forms the generator emits."""
    return re.sub(r":\s*number(\[\])?", "", src)


def run_ts_batch(items, workdir):
    """items: [(id, src, calls)] -> {id: {'results'|'fatal'}}"""
    node, strip, _v = find_node()
    if node is None:
        return {i: {"skipped": "no node"} for i, _s, _c in items}
    jobs = []
    for i, src, calls in items:
        f = os.path.join(workdir, f"m_{i}.mts" if strip else f"m_{i}.mjs")
        with open(f, "w") as fh:
            fh.write((src if strip else _strip_ts(src)) + "\nexport { model };\n")
        jobs.append({"id": str(i), "file": f, "calls": [[t, s, fv] for t, s, fv, _ov in calls]})
    jf = os.path.join(workdir, "jobs.json")
    with open(jf, "w") as fh:
        json.dump(jobs, fh)
    drv = os.path.join(workdir, "driver.mjs")
    with open(drv, "w") as fh:
        fh.write(_DRIVER)
    cmd = [node, *(["--experimental-strip-types", "--no-warnings"] if strip else []), drv, jf]
    p = subprocess.run(cmd, capture_output=True, text=True, timeout=600, cwd=workdir)
    if p.returncode != 0 or not p.stdout.strip():
        raise CheckerError(f"node driver failed: {p.stderr[-400:]}")
    raw = json.loads(p.stdout.strip().splitlines()[-1])
    out = {}
    for i, _src, _calls in items:
        r = raw[str(i)]
        if "results" in r:
            r["results"] = [[float(x) for x in e] if isinstance(e, list) and all(x is not None for x in e) else
                            (e if isinstance(e, dict) else {"error": "non-numeric value"}) for e in r["results"]]
        out[i] = r
    return out


def _rs_lit(x):
    s = repr(float(x))
    if s in ("inf", "-inf", "nan"):
        return {"inf": "f64::INFINITY", "-inf": "f64::NEG_INFINITY", "nan": "f64::NAN"}[s]
    return s if ("." in s or "e" in s) else s + ".0"


def run_rs_batch(items, workdir):
    """One crate per batch: every model in its own module; models that do not compile are
    located through rustc's JSON diagnostics, reported, removed, and the rest is compiled again."""
    rustc = find_rustc()
    if rustc is None:
        return {i: {"skipped": "no rustc"} for i, _s, _c in items}
    out = {}
    live = list(items)
    for _round in range(8):
        if not live:
            break
        lines, spans = [], []
        for i, src, _calls in live:
            start = len(lines) + 1
            lines.append(f"mod m_{i} {{")
            body = re.sub(r"^\s*fn\s+model\b", "pub fn model", src, count=1)
            lines.extend(body.split("\n"))
            lines.append("}")
            spans.append((start, len(lines), i))
        lines.append("fn main() {")
        for i, _src, calls in live:
            for ci, (t, s, fv, _ov) in enumerate(calls):
                a = ", ".join([_rs_lit(t), "&[" + ", ".join(_rs_lit(x) for x in s) + "]", *[_rs_lit(x) for x in fv]])
                lines.append(f'    println!("R {i} {ci} {{:?}}", m_{i}::model({a}));')
        lines.append("}")
        f = os.path.join(workdir, "batch.rs")
        with open(f, "w") as fh:
            fh.write("\n".join(lines) + "\n")
        exe = os.path.join(workdir, "batch_bin")
        p = subprocess.run([rustc, "--edition", "2021", "-A", "warnings", "-C", "opt-level=0", "-C", "debuginfo=0", "--error-format=json",
                            "-o", exe, f], capture_output=True, text=True, timeout=900, cwd=workdir)
        if p.returncode == 0:
            r = subprocess.run([exe], capture_output=True, text=True, timeout=300)
            if r.returncode != 0:
                raise CheckerError(f"compiled rust batch failed at run time: {r.stderr[-300:]}")
            res = {i: [None] * len(calls) for i, _s, calls in live}
            for ln in r.stdout.splitlines():
                mt = re.match(r"R (\S+) (\d+) \[(.*)\]$", ln)
                if mt:
                    key = mt.group(1)
                    vals = [float(x.strip().replace("NaN", "nan")) for x in mt.group(3).split(",") if x.strip()]
                    for i in res:
                        if str(i) == key:
                            res[i][int(mt.group(2))] = vals
            for i, lst in res.items():
                out[i] = {"results": [v if v is not None else {"error": "no output"} for v in lst]}
            live = []
            break
        bad = {}
        for ln in p.stderr.splitlines():
            try:
                d = json.loads(ln)
            except ValueError:
                continue
            if d.get("level") != "error":
                continue
            code = (d.get("code") or {}).get("code") or "error"
            for sp in d.get("spans", []):
                for a, b, i in spans:
                    if a <= sp.get("line_start", -1) <= b:
                        bad.setdefault(i, [])
                        msg = f"{code}: {d.get('message', '')}"[:160]
                        if msg not in bad[i]:
                            bad[i].append(msg)
        if not bad:
            # an error that cannot be attributed (e.g. in main: wrong number of arguments)
            main_start = spans[-1][1] + 1 if spans else 0
            for ln in p.stderr.splitlines():
                try:
                    d = json.loads(ln)
                except ValueError:
                    continue
                if d.get("level") != "error":
                    continue
                for sp in d.get("spans", []):
                    ls = sp.get("line_start", -1)
                    if ls > main_start:
                        txt = lines[ls - 1]
                        mt = re.search(r'"R (\S+) ', txt)
                        if mt:
                            for _a, _b, i in spans:
                                if str(i) == mt.group(1):
                                    bad.setdefault(i, [])
                                    msg = f"{(d.get('code') or {}).get('code') or 'error'} (at the call): {d.get('message', '')}"[:160]
                                    if msg not in bad[i]:
                                        bad[i].append(msg)
        if not bad:
            raise CheckerError(f"rustc failed without attributable diagnostics: {p.stderr[-500:]}")
        for i, msgs in bad.items():
            out[i] = {"fatal": "does not compile: " + "; ".join(msgs[:3])}
        live = [it for it in live if it[0] not in bad]
    for i, _s, _c in live:
        out[i] = {"fatal": "does not compile (not isolated after 8 rounds)"}
    return out


# ---------------------------------------------------------------------------
# comparing execution results with the model


def judge(res, calls, expected, nvars):
    """-> None (agrees) | (symptom class, text, index of the first failing call)"""
    if "fatal" in res:
        mt = re.match(r"does not compile: (E\d+|error)", res["fatal"])
        if mt:
            return (f"does-not-compile({mt.group(1)})", res["fatal"], None)
        return ("cannot-be-loaded(" + res["fatal"].split(":")[0] + ")", res["fatal"], None)
    only_nonpos, only_alt = True, True
    first = None
    for i, (r, e, c) in enumerate(zip(res["results"], expected, calls, strict=True)):
        if e is None:
            continue
        if isinstance(r, dict):
            sym = ("raises:" + r["error"].split(":")[0], r["error"])
        elif len(r) != nvars:
            sym = (f"returns-{len(r)}-values-for-{nvars}-variables", f"returned {r}")
        elif not _close(r, e):
            sym = ("values-differ", f"returned {tuple(r)}, the model returns {e}")
        else:
            continue
        if first is None:
            first = (sym, i)
        if all(x > 0 for x in c[1]):
            only_nonpos = False
        if not c[3]:
            only_alt = False
    if first is None:
        return None
    (cls, txt), i = first
    if cls == "values-differ":
        if only_alt:
            cls += "(only-with-free-parameter-values-other-than-the-model's)"
        elif only_nonpos:
            cls += "(only-at-states-with-a-non-positive-component)"
    t, s, fv, _ov = calls[i]
    return (cls, f"at t={t}, variables={s}" + (f", free parameters={fv}" if fv else "") + f": {txt}", i)


# ---------------------------------------------------------------------------
# one case


def tags_of(spec):
    t = []
    names = [d[0] for d in spec["derived"]]
    for i, d in enumerate(spec["derived"]):
        if any(a in names[i + 1:] for a in d[2]):
            t.append("derived declared before a derived it uses")
        if any(a in [r[0] for r in spec["reactions"]] for a in d[2]):
            t.append("derived computed from a reaction rate")
    if len(spec["variables"]) == 1:
        t.append("exactly one variable")
    touched = {v for r in spec["reactions"] for v, _ in r[3]}
    if any(n not in touched for n, _ in spec["variables"]):
        t.append("variable without reaction")
    if any(_is_ia(v) for _n, v in spec["parameters"]):
        t.append("initial-assignment parameter")
    return t


def check_case(ax, exec_langs=("py", "jl")):
    """Generates the four programs for one model and checks W, R, V, F.
    Returns dict(spec, free, per-lang source, problems=[...], pending=[(lang, src)] for batch execution)."""
    spec, free = make_spec(ax)
    calls = make_calls(spec, free)
    expected = expected_values(spec, calls)
    nv = len(spec["variables"])
    out = {"ax": ax, "problems": [], "pending": {}, "calls": calls, "expected": expected, "nv": nv, "checked": 0,
           "nontrivial": sum(1 for e in expected if e is not None and any(abs(x) > 1e-9 for x in e)) > 0,
           "structural": {}, "spec": spec, "free": free, "shape_unknown": []}
    py_binds = None
    for lang in LANGS:
        src, exc, frame = generate(spec, free, lang)
        out["checked"] += 1
        if frame is not None:
            cls = "free-parameters-removed-from-get_parameter_values" if (
                free and set(frame["before"].get("get_parameter_values", {})) - set(frame["after"].get("get_parameter_values", {})) == set(free)
            ) else "+".join(frame["changed"])
            out["problems"].append({"lang": lang, "key": f"bounded:generation-changes-the-model:{cls}",
                                    "what": f"generate_model_code_{lang}(model{', free_parameters=' + str(free) if free is not None else ''}) changed the model: "
                                            + "; ".join(f"{k}: {frame['before'][k]} -> {frame['after'][k]}" for k in frame["changed"])[:300],
                                    "mode": "frame"})
        if exc is not None:
            out["problems"].append({"lang": lang, "key": f"bounded:{lang}:generation-raises-{type(exc).__name__}",
                                    "what": f"generate_model_code_{lang} raises {type(exc).__name__}: {str(exc)[:120]} for a model whose functions all translate",
                                    "mode": "gen", "minimise": True})
            continue
        try:
            prog = READ[lang](src)
        except Shape as e:
            prog = None
            out["shape_unknown"].append((lang, str(e)))
        probs, need_repair = ([], False) if prog is None else analyse(prog, lang, spec, free)
        if lang == "py" and prog is not None:
            py_binds = [b[0] for b in prog["binds"]]
        if lang == "jl" and prog is not None and need_repair:
            # every assignment binds `k`: take the intended names, by position, from the Python program of the same model and go on
            if py_binds is not None and len(py_binds) == len(prog["binds"]):
                prog2 = dict(prog)
                prog2["binds"] = [(n, b[1]) for n, b in zip(py_binds, prog["binds"], strict=True)]
                more, _ = analyse(prog2, lang, spec, free)
                probs += [p for p in more if p[0] not in {q[0] for q in probs}]
                prog = prog2
            else:
                prog = None
        out["structural"][lang] = [p[0] for p in probs]
        for suffix, text, _fatal in probs:
            out["problems"].append({"lang": lang, "key": f"bounded:{lang}:{suffix}", "what": f"generate_model_code_{lang}: {text}", "mode": "structure"})
        # execution
        if lang == "py":
            res = run_py(src, calls)
        elif lang == "jl":
            if prog is None:
                res = None
            else:
                p3 = dict(prog)
                if p3["vars_form"] == "star":
                    p3["vars_form"] = "sequence"  # reported above; evaluated as the destructuring it stands for
                res = run_jl(p3, calls, [b[0] for b in p3["binds"]])
        else:
            res = None
            if lang in exec_langs or prog is None:
                out["pending"][lang] = src
        if res is not None:
            _settle(out, lang, res)
    return out


def _settle(out, lang, res):
    """Compares one execution with the model and records what the structure did not already explain."""
    if "skipped" in res:
        return
    out["checked"] += 1
    out.setdefault("executed", []).append(lang)
    j = judge(res, out["calls"], out["expected"], out["nv"])
    st = out["structural"].get(lang, [])
    explains = [s for s in st if s not in ("every-assignment-binds-k", "variables-line-is-not-julia")]
    if j is None:
        if explains:
            # the defect in the text is not reached for this model (e.g. the branch that uses the name is
            # never taken for the baked-in parameter): no violation here, the reading is dropped and counted
            out.setdefault("benign", []).append((lang, explains))
            out["problems"] = [p for p in out["problems"] if not (p["lang"] == lang and p["mode"] == "structure" and p["key"].split(":", 2)[2] in explains)]
        return
    if explains:
        out.setdefault("confirmed", []).append((lang, explains))
        return
    cls, txt, _i = j
    label = "jl(evaluated after repairing the assignment names)" if lang == "jl" and st else lang
    out["problems"].append({"lang": lang, "key": f"bounded:{lang}:{cls}", "what": f"generate_model_code_{label}: {txt}", "mode": "exec", "minimise": True,
                            "symptom": cls})


def _axes_label(ax, only=None):
    keys = only if only is not None else [k for k in AXES if ax[k] != BASE[k]]
    return ",".join(f"{k}={ax[k]}" for k in AXES if k in keys) or "baseline"


def run_cases(axes_list, exec_langs, workdir):
    """Checks a chunk of cases; TS / Rust programs are executed in one batch each."""
    outs = [check_case(ax, exec_langs) for ax in axes_list]
    for lang, runner in (("ts", run_ts_batch), ("rs", run_rs_batch)):
        items = [(i, o["pending"][lang], o["calls"]) for i, o in enumerate(outs) if lang in o["pending"]]
        if not items:
            continue
        d = tempfile.mkdtemp(prefix=f"c07_{lang}_", dir=workdir)
        try:
            res = runner(items, d)
        finally:
            shutil.rmtree(d, ignore_errors=True)
        for i, r in res.items():
            _settle(outs[i], lang, r)
    return outs


def minimise(ax, prob, exec_langs):
    """Which axes are necessary for this failure?  Every non-baseline axis is reset in turn;
    the key names those whose reset makes the symptom disappear (all of them if none does alone)."""
    lang, key = prob["lang"], prob["key"]
    nonbase = [k for k in AXES if ax[k] != BASE[k]]
    necessary = []
    for k in nonbase:
        ax2 = dict(ax)
        ax2[k] = BASE[k]
        o = run_cases([ax2], (lang,), None)[0]
        if not any(p["lang"] == lang and p["key"] == key for p in o["problems"]):
            necessary.append(k)
    return necessary or nonbase


# ---------------------------------------------------------------------------
# clause X: functions without a faithful translation


def check_hard(name):
    """generation must raise, or the emitted code must compute what the model computes."""
    spec = {"variables": [["s", 1.0], ["p", 0.5]], "parameters": [["k1", 1.3], ["k2", 0.8]], "derived": [],
            "reactions": [["v1", name, ["k1", "s"], [["s", -1.0], ["p", 1.0]]], ["v2", "f_ma", ["k2", "p"], [["p", -1.0]]]]}
    calls = make_calls(spec, None, extra_states=[(30.0, 0.5), (0.5, 0.5)])
    expected = expected_values(spec, calls)
    problems = []
    outcome = {}
    for lang in LANGS:
        src, exc, _frame = generate(spec, None, lang)
        if exc is not None:
            outcome[lang] = f"raises {type(exc).__name__}"
            continue
        outcome[lang] = "emits code"
        if lang != "py":
            continue
        res = run_py(src, calls)
        j = judge(res, calls, expected, 2)
        if j is not None:
            line = next((ln.strip() for ln in src.split("\n") if ln.strip().startswith("v1")), "")
            problems.append({"lang": "py", "key": f"bounded:untranslatable-function-emits-code-that-computes-something-else:{name}",
                             "what": f"rate law {name} is emitted as `{line}` instead of raising; {j[1]}", "mode": "hard"})
    if len(set(outcome.values())) > 1:
        problems.append({"lang": "*", "key": f"bounded:untranslatable-function-raises-for-some-languages-only:{name}",
                         "what": f"{name}: {outcome}", "mode": "hard"})
    return {"name": name, "problems": problems, "outcome": outcome, "checked": len(LANGS) + 1}


# ---------------------------------------------------------------------------
# enumeration


def all_axes():
    for combo in itertools.product(*[AXES[k] for k in AXES]):
        yield dict(zip(AXES, combo, strict=True))


def star_cases():
    """Every single-axis and every two-axis deviation from the baseline, plus the same around
    two more centres - guarantees that each input class appears whatever the sample."""
    out, seen = [], set()

    def add(ax):
        k = json.dumps(ax, sort_keys=True)
        if k not in seen:
            seen.add(k)
            out.append(dict(ax))

    centres = [BASE, {**BASE, "topo": "three-branched", "derived": "chain-rev", "ia": "rate", "free": "two"},
               {**BASE, "topo": "one", "derived": "parchain-rev", "coef": "named-derived", "free": "one"}]
    for c in centres:
        add(c)
        for k in AXES:
            for v in AXES[k]:
                add({**c, k: v})
    for k1, k2 in itertools.combinations(AXES, 2):
        for v1 in AXES[k1]:
            for v2 in AXES[k2]:
                add({**BASE, k1: v1, k2: v2})
    return out


def _quiet():
    logging.disable(logging.CRITICAL)
    os.environ.setdefault("TQDM_DISABLE", "1")
    warnings.filterwarnings("ignore")


def _work(job):
    _quiet()
    axes_list, exec_langs, workdir = job
    t0 = _time.time()
    outs = run_cases(axes_list, exec_langs, workdir)
    slim = []
    for o in outs:
        slim.append({k: o.get(k) for k in ("ax", "problems", "checked", "nontrivial", "structural", "shape_unknown", "executed", "benign", "confirmed")})
        slim[-1]["tags"] = tags_of(o["spec"])
        slim[-1]["ncalls"] = len(o["calls"])
    return {"outs": slim, "wall": _time.time() - t0, "stats": dict(_STATS)}


def replay(witness):
    """Re-runs one witness on the real code; returns the failing keys."""
    _quiet()
    if "hard_fn" in witness:
        return [p["key"] for p in check_hard(witness["hard_fn"])["problems"]]
    ax = witness["axes"]
    lang = witness.get("lang")
    d = tempfile.mkdtemp(prefix="c07_replay_")
    try:
        o = run_cases([ax], tuple(x for x in (lang,) if x in ("ts", "rs")) or ("py", "jl"), d)[0]
    finally:
        shutil.rmtree(d, ignore_errors=True)
    return [p["key"] for p in o["problems"]]


def run(ctx: Ctx) -> None:
    _quiet()
    t0 = _time.time()
    rng = random.Random(seed())
    thorough = ctx.tier != "quick"
    star = star_cases()
    full = list(all_axes())
    seen = {json.dumps(a, sort_keys=True) for a in star}
    rest = [a for a in full if json.dumps(a, sort_keys=True) not in seen]
    rng.shuffle(rest)
    n_extra = 40000 if thorough else 1200
    cases = star + rest[:n_extra]
    # which cases are also executed with node / rustc
    # (both tiers: every single-axis deviation from the baseline; thorough: the whole star set and a sample of the rest)
    n_exec = 1500 if thorough else 60
    single = {json.dumps({**BASE, k: v}, sort_keys=True) for k in AXES for v in AXES[k]}
    exec_ids = {i for i, a in enumerate(star) if thorough or json.dumps(a, sort_keys=True) in single}
    pool_ids = list(range(len(star), len(cases)))
    exec_ids |= set(rng.sample(pool_ids, min(len(pool_ids), max(0, n_exec - len(exec_ids)))))
    node = find_node()
    rustc = find_rustc()
    exec_langs = tuple(x for x, ok in (("ts", node[0]), ("rs", rustc)) if ok)

    workers = max(1, min(14, (os.cpu_count() or 2) - 2))
    workdir = tempfile.mkdtemp(prefix="c07_")
    try:
        ex_cases = [cases[i] for i in sorted(exec_ids)]
        py_cases = [cases[i] for i in range(len(cases)) if i not in exec_ids]
        jobs = []
        per = max(4, math.ceil(len(ex_cases) / (workers * (4 if thorough else 1))))
        for i in range(0, len(ex_cases), per):
            jobs.append((ex_cases[i: i + per], ("py", "jl", *exec_langs), workdir))
        per = max(20, math.ceil(len(py_cases) / (workers * 6)))
        for i in range(0, len(py_cases), per):
            jobs.append((py_cases[i: i + per], ("py", "jl"), workdir))
        with ProcessPoolExecutor(max_workers=workers) as ex:
            results = list(ex.map(_work, jobs, chunksize=1))

        outs = [o for r in results for o in r["outs"]]
        evals = sum(r["stats"]["evals"] for r in results)
        if evals == 0:
            raise CheckerError("the contract wrapper around _generate_model_code was never evaluated (bypassed)")
        confirmed, benign = {}, {}
        for o in outs:
            for lang, ex_ in o.get("confirmed") or []:
                for e in ex_:
                    confirmed[(lang, e)] = confirmed.get((lang, e), 0) + 1
            for lang, ex_ in o.get("benign") or []:
                for e in ex_:
                    benign.setdefault((lang, e), []).append(o["ax"])
        never = {k: v[:2] for k, v in benign.items() if k not in confirmed}
        if never:
            raise CheckerError(f"the structural reading reports a problem that no execution confirms: {never}")
        executed = {lang: sum(1 for o in outs if lang in (o.get("executed") or [])) for lang in LANGS}
        if executed["py"] == 0 or (exec_langs and any(executed[x] == 0 for x in exec_langs)):
            raise CheckerError(f"a language was never executed: {executed}")

        # failures.  Structural readings: one per key (smallest model that shows it).  Failures seen only in
        # execution (and generation that raises) are attributed to the axes that are necessary for them:
        # one key per necessary axis setting, models already explained by a reported setting are skipped.
        by_key = {}
        for o in outs:
            size = sum(1 for k in AXES if o["ax"][k] != BASE[k])
            for pr in o["problems"]:
                by_key.setdefault(pr["key"], []).append((size, json.dumps(o["ax"], sort_keys=True), o, pr))
        for key, lst in sorted(by_key.items()):
            lst.sort(key=lambda t: (t[0], t[1]))
            conds = []
            for _size, _j, o, pr in lst:
                final_key = key
                if pr.get("minimise"):
                    if any(all(o["ax"][k] == v for k, v in c.items()) for c in conds):
                        continue
                    if len(conds) >= (4 if pr["lang"] in ("ts", "rs") else 10):
                        break
                    nec = minimise(o["ax"], pr, exec_langs)
                    conds.append({k: o["ax"][k] for k in nec})
                    final_key = f"{key}:{_axes_label(o['ax'], nec)}"
                w = {"axes": o["ax"], "lang": pr["lang"]}
                try:
                    replayed = key in replay(w)
                except Exception:  # noqa: BLE001
                    replayed = False
                spec, free = make_spec(o["ax"])
                ctx.fail(key=final_key, kind="bounded", what=pr["what"], witness={**w, "spec": spec, "free_parameters": free}, replayed=replayed,
                         detail={"mode": pr["mode"], "models_with_this_symptom": len(lst)})
                if not pr.get("minimise"):
                    break

        hard = [check_hard(h) for h in HARD]
        for h in hard:
            for p in h["problems"]:
                ctx.fail(key=p["key"], kind="bounded", what=p["what"], witness={"hard_fn": h["name"]},
                         replayed=p["key"] in replay({"hard_fn": h["name"]}), detail={"outcome": h["outcome"]})
        if not any("raises" in v for h in hard for v in h["outcome"].values()):
            raise CheckerError("no rate law made generation raise: clause X explored nothing")
    finally:
        shutil.rmtree(workdir, ignore_errors=True)

    checked = sum(o["checked"] for o in outs) + sum(h["checked"] for h in hard)
    nontrivial = sum(o["checked"] for o in outs if o["nontrivial"])
    shape_unknown = {}
    for o in outs:
        for lang, why in o.get("shape_unknown") or []:
            shape_unknown.setdefault(lang, [0, why])[0] += 1
    samples = []
    for o in outs[:: max(1, len(outs) // 3)][:3]:
        samples.append({"axes": o["ax"], "tags": o["tags"], "calls": o["ncalls"], "executed": o.get("executed"), "failing_keys": sorted({p["key"] for p in o["problems"]})[:4]})
    ctx.add_bounded(
        name="C07-generated-right-hand-sides",
        tool="enumerated models -> real generate_model_code_py/_ts/_rs/_jl; CPython exec, node, rustc, Julia-subset evaluator; oracle = Model.__call__ of a fresh model",
        bound=(f"{len(outs)} models x 4 languages ({len(star)} = all one- and two-axis deviations from the baseline and all one-axis deviations from two more centres, "
               f"{len(outs) - len(star)} sampled from the rest of the product (seeded); product = {len(full)}: "
               f"{len(TOPOS)} topologies with 1..3 variables incl. exactly one, no reaction at all, an untouched first/middle/last variable and reactions that mention variables against declaration order; "
               f"{len(LAWS)} rate laws incl. 8 conditionals against 0 / negative constants and a signed gate parameter baked in as +, 0, -; "
               f"{len(COEFS)} coefficient kinds; {len(DERIVED)} derived layouts with <= 2 derived in both declaration orders, static and state dependent, one computed from a rate; "
               "initial-assignment parameter yes/no; free_parameters None / [] / one / two in non-declaration order, the second feeding the initial assignment); "
               f"state grid {list(GRID)}^n x t in {list(TIMES)} plus each free parameter at {list(ALT)}; "
               f"executed: py {executed['py']}, jl(evaluator) {executed['jl']}, ts(node {node[2]}{' --experimental-strip-types' if node[1] else ' after erasing annotations'}) {executed['ts']}, rs(rustc) {executed['rs']}; "
               f"{len(HARD)} rate laws without a faithful translation; _generate_model_code contract evaluated {evals} times"),
        cases=checked, distinct_nontrivial=nontrivial,
        rule="one case = one generated program (model x language) read structurally, plus one per executed program compared with the model on the whole grid; "
             "non-trivial = the model's right-hand side is non-zero somewhere on the grid",
        exhaustive=False, samples=samples,
    )
    ctx.extra["C07"] = {"models": len(outs), "executed": executed, "shape_unknown": shape_unknown, "workers": workers, "wall_s": round(_time.time() - t0, 1),
                        "cpu_s": round(sum(r["wall"] for r in results), 1), "contract_evaluations": evals,
                        "frame_violations_seen_by_contract": sum(r["stats"]["frame_violations"] for r in results),
                        "structure_confirmed_by_execution": {f"{k[0]}:{k[1]}": v for k, v in sorted(confirmed.items())},
                        "structure_not_reached_in_execution": {f"{k[0]}:{k[1]}": len(v) for k, v in sorted(benign.items())},
                        "hard": {h["name"]: h["outcome"] for h in hard}}
    if shape_unknown.get("py") or shape_unknown.get("jl"):
        ctx.notes.append(f"programs whose shape the structural reader did not recognise: {shape_unknown}")
    ctx.trust("CPython exec, node (type erasure of .mts), rustc semantics", "sympy code printers emit what they were given (only observed through execution)")
    ctx.assume(f"numerical comparison rtol={RTOL} atol={ATOL}: the printers emit 15 significant digits (full_prec=False) and sympy may reassociate products/sums",
               "Julia is never run (no interpreter installed): the emitted text is read with a hand-written parser/evaluator for the subset the generator emits "
               "(numbers, names, + - * / ^ and their dotted forms, comparisons, ?:, calls of elementary functions); `*variables` is judged from the Julia grammar",
               "states where the model itself raises or returns a non-finite value are not compared",
               "a bare number returned for a model with one variable is accepted as its one derivative (py, jl)",
               "TS / Rust programs are executed for a subset of the models (all in the star set in the thorough tier); for the others the structural reading stands in")
