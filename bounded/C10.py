"""Bounded stand-in for C10 (labelled bounded, never counted as proved).

Contract (taken from the property statement), checked at run time on the REAL
`mxlpy.simulation.Simulation` over an enumerated / sampled small scope:

  for every result (1..4 segments, parameters changed between segments, computed
  stoichiometric coefficients, readouts, derived quantities, repeated time labels)
  and every view method x flag combination x normalisation shape:

  (V)  the value reported for a row is the model's value at that row's state and
       time under the parameters in force during the row's segment - also when the
       model's parameters are changed after the simulation (before the first read or
       between two reads);
  (N)  stoichiometry (at the row) x reported fluxes == reported derivatives;
  (S)  concatenated view == per-segment views stacked in order (same rows, same order,
       also with repeated time labels);
  (P)  producers / consumers of a variable are exactly the fluxes whose coefficient is
       positive / negative in the row's segment, multiplied by +-coefficient on request;
  (D)  normalise=c divides by c, normalise=[c_0..c_{n-1}] (one per segment) divides
       segment i by c_i, normalise=r (one per row) divides row j by r_j;
  (O)  reading views repeatedly in any order (all 24 permutations of four views, each
       read twice; 5 sampled permutations on the results checked at the lowest level) gives the same answers, and a model that held the last segment's
       parameters before reading holds them after every read.

The oracle is a plain-python interpreter of a declarative model *spec* (it shares no
code with `Model` or `Simulation`); for results produced by the real `Simulator` the
parameters in force are tracked from the history of edits, not read from the result.
"""
from __future__ import annotations

import hashlib
import itertools
import json
import logging
import math
import os
import random
import time
import warnings
from concurrent.futures import ProcessPoolExecutor

from vlib.core import CheckerError, Ctx, seed

RTOL, ATOL = 1e-9, 1e-12

# ---------------------------------------------------------------------------
# rate / derived functions (plain python; used both by the Model and the oracle)


def f_const(k):
    return k


def f_ma(k, s):
    return k * s


def f_add(a, b):
    return a + b


def f_mul(a, b):
    return a * b


def f_twice(a):
    return 2.0 * a


def f_decay(k, t):
    return k * math.exp(-0.5 * t) if t == t else float("nan")


def f_negp1(x):
    return -(1.0 + x)


def f_sq1(x):
    return 1.0 + x * x


def f_tcoef(t):
    return -(1.0 + 0.5 * t)


def f_sur(x, k):
    return (x * k, x + k)


# ---------------------------------------------------------------------------
# declarative model specs
#
# coefficient: float | "name" (parameter or derived) | ("fn", fn, [args])
# parameter value: float | ("ia", fn, [args])     (args: numeric parameters only)

SPECS = {
    # static model: derived variable, derived parameter, readout, time dependent flux,
    # coefficient named by a parameter (sign may change between segments)
    "chain": dict(
        variables={"x": 1.0, "y": 0.5},
        parameters={"k_in": 1.0, "k1": 1.0, "k2": 0.5, "yield_": 2.0, "x0": 0.25, "kia": ("ia", f_twice, ["x0"])},
        derived=[("total", f_add, ["x", "y"]), ("kd", f_mul, ["k1", "k2"]), ("kdd", f_add, ["kd", "kia"])],
        reactions=[
            ("v_in", f_const, ["k_in"], {"x": 1.0}),
            ("v1", f_ma, ["k1", "x"], {"x": -1.0, "y": "yield_"}),
            ("v2", f_ma, ["kd", "y"], {"y": -1.0, "x": 0.0}),  # zero coefficient: neither producer nor consumer
            ("v_t", f_decay, ["kia", "time"], {"y": ("fn", f_twice, ["k2"])}),
        ],
        readouts=[("signal", f_ma, ["k2", "total"]), ("ro_v", f_add, ["v1", "kdd"])],
        surrogates=[],
    ),
    # coefficients that depend on the state (sign constant for positive states)
    "statecoef": dict(
        variables={"x": 1.0, "s": 0.2},
        parameters={"k": 1.0, "k_in": 0.7},
        derived=[("c", f_negp1, ["x"])],
        reactions=[
            ("v_in", f_const, ["k_in"], {"x": 1.0}),
            ("v", f_ma, ["k", "x"], {"x": "c", "s": ("fn", f_sq1, ["x"])}),
            ("v_s", f_ma, ["k", "s"], {"s": -1.0}),
        ],
        readouts=[("ro", f_mul, ["c", "v"])],
        surrogates=[],
    ),
    # coefficient that depends on time
    "timecoef": dict(
        variables={"x": 1.0},
        parameters={"k": 1.0, "k_in": 0.7},
        derived=[],
        reactions=[
            ("v_in", f_const, ["k_in"], {"x": 1.0}),
            ("v", f_ma, ["k", "x"], {"x": ("fn", f_tcoef, ["time"])}),
        ],
        readouts=[],
        surrogates=[],
    ),
    # surrogate with one flux and one variable output, parameter dependent coefficient
    "surrogate": dict(
        variables={"x": 1.0, "y": 0.5},
        parameters={"k": 1.0, "yield_": 2.0, "k0": 1.0},
        derived=[("d", f_add, ["sv", "y"])],
        reactions=[
            ("v_in", f_const, ["k0"], {"x": 1.0}),
            ("v_out", f_ma, ["k", "y"], {"y": -1.0}),
        ],
        readouts=[("ro", f_ma, ["k", "d"])],
        surrogates=[("s", f_sur, ["x", "k"], ["sflux", "sv"], {"sflux": {"x": -1.0, "y": ("fn", f_const, ["yield_"])}})],
    ),
}


def _is_ia(v):
    return isinstance(v, (tuple, list)) and len(v) == 3 and v[0] == "ia"


def build_model(spec, params=None):
    """The real Model for a spec; `params` overrides parameter values (float or 'ia' triple)."""
    from mxlpy import Derived, InitialAssignment, Model
    from mxlpy.surrogates.abstract import MockSurrogate

    m = Model()
    m.add_variables(dict(spec["variables"]))
    pv = dict(spec["parameters"])
    pv.update(params or {})
    for k, v in pv.items():
        m.add_parameter(k, InitialAssignment(fn=v[1], args=list(v[2])) if _is_ia(v) else v)

    def coef(c):
        if isinstance(c, tuple):
            return Derived(fn=c[1], args=list(c[2]))
        return c

    for name, fn, args in spec["derived"]:
        m.add_derived(name, fn, args=list(args))
    for name, fn, args, outputs, stoichs in spec["surrogates"]:
        m.add_surrogate(
            name,
            MockSurrogate(
                fn=fn, args=list(args), outputs=list(outputs),
                stoichiometries={r: {v: (Derived(fn=f_const, args=[c]) if isinstance(c, str) else coef(c)) for v, c in st.items()} for r, st in stoichs.items()},
            ),
        )
    for name, fn, args, st in spec["reactions"]:
        m.add_reaction(name, fn, args=list(args), stoichiometry={v: coef(c) for v, c in st.items()})
    for name, fn, args in spec["readouts"]:
        m.add_readout(name, fn, args=list(args))
    return m


# ---------------------------------------------------------------------------
# independent evaluator


def numeric_parameters(spec, cur):
    """cur: name -> float | ia-triple.  Returns name -> float (initial assignments
    resolved from the numeric parameters, as the library documents)."""
    out = {k: float(v) for k, v in cur.items() if not _is_ia(v)}
    for k, v in cur.items():
        if _is_ia(v):
            out[k] = float(v[1](*[out[a] for a in v[2]]))
    return out


def categories(spec):
    pars = set(spec["parameters"])
    static = set(pars)
    dpar, dvar = [], []
    pending = list(spec["derived"])
    changed = True
    while changed:
        changed = False
        for d in list(pending):
            if all(a in static for a in d[2]):
                static.add(d[0])
                dpar.append(d[0])
                pending.remove(d)
                changed = True
    dvar = [d[0] for d in spec["derived"] if d[0] not in dpar]
    sflux, svar = [], []
    for _n, _fn, _a, outputs, stoichs in spec["surrogates"]:
        sflux += [o for o in stoichs]
        svar += [o for o in outputs if o not in stoichs]
    return {
        "variables": list(spec["variables"]),
        "parameters": list(spec["parameters"]),
        "derived_parameters": dpar,
        "derived_variables": dvar,
        "reactions": [r[0] for r in spec["reactions"]],
        "surrogate_variables": svar,
        "surrogate_fluxes": sflux,
        "readouts": [r[0] for r in spec["readouts"]],
    }


def stoich_table(spec):
    """var -> {flux: coefficient expression}"""
    tab = {v: {} for v in spec["variables"]}
    for name, _fn, _args, st in spec["reactions"]:
        for v, c in st.items():
            tab[v][name] = c
    for _n, _fn, _a, _o, stoichs in spec["surrogates"]:
        for r, st in stoichs.items():
            for v, c in st.items():
                tab[v][r] = c
    return tab


def truth(spec, pnum, state, t):
    """All values of the model at (state, t) under numeric parameters pnum."""
    env = dict(pnum)
    env.update(state)
    env["time"] = t
    pending = [("one", d[0], d[1], d[2]) for d in spec["derived"]]
    pending += [("one", r[0], r[1], r[2]) for r in spec["reactions"]]
    pending += [("many", s[3], s[1], s[2]) for s in spec["surrogates"]]
    while pending:
        n0 = len(pending)
        for item in list(pending):
            kind, name, fn, args = item
            if all(a in env for a in args):
                val = fn(*[env[a] for a in args])
                if kind == "one":
                    env[name] = float(val)
                else:
                    for o, v in zip(name, val, strict=True):
                        env[o] = float(v)
                pending.remove(item)
        if len(pending) == n0:
            raise CheckerError(f"spec not evaluable: {[p[1] for p in pending]}")
    coefs = {}
    dxdt = {}
    for var, row in stoich_table(spec).items():
        coefs[var] = {}
        acc = 0.0
        for flux, c in row.items():
            if isinstance(c, str):
                val = env[c]
            elif isinstance(c, tuple):
                val = float(c[1](*[env[a] for a in c[2]]))
            else:
                val = float(c)
            coefs[var][flux] = val
            acc += val * env[flux]
        dxdt[var] = acc
    for name, fn, args in spec["readouts"]:
        env[name] = float(fn(*[env[a] for a in args]))
    env.pop("time")
    return env, coefs, dxdt


# ---------------------------------------------------------------------------
# recipes -> real Simulation objects + independent description of the segments


class Skip(Exception):
    """The recipe cannot be realised for a reason outside C10 (integration failed, the
    simulator refused the history: those are C04/C15 matters)."""


def _t_end(i):
    return float(2 ** (i + 1) - 1)  # 1, 3, 7, 15: survives the time shift after update_variable


def realise(recipe):
    """Returns (Simulation, model, segs) with segs = [(index(list), states(list of dict), cur(dict name->float|ia))]."""
    import numpy as np
    import pandas as pd
    from mxlpy import InitialAssignment, Simulator
    from mxlpy.simulation import Simulation

    spec = SPECS[recipe["model"]]
    if recipe["kind"] == "real":
        m = build_model(spec)
        cur = dict(spec["parameters"])
        seg_cur = []
        s = Simulator(m)
        nseg = 0
        try:
            for op in recipe["ops"]:
                o = op[0]
                if o == "simulate":
                    s.simulate(_t_end(nseg), steps=op[1])
                    nseg += 1
                    seg_cur.append(dict(cur))
                elif o == "time_course":
                    t0 = 0.0 if nseg == 0 else _t_end(nseg - 1)
                    t1 = _t_end(nseg)
                    s.simulate_time_course([t0 + (t1 - t0) * f for f in op[1]])
                    nseg += 1
                    seg_cur.append(dict(cur))
                elif o == "steady":
                    s.simulate_to_steady_state()
                    nseg += 1
                    seg_cur.append(dict(cur))
                elif o == "protocol":
                    prot = pd.DataFrame(
                        [st[1] for st in op[1]],
                        index=pd.to_timedelta(np.cumsum([st[0] for st in op[1]]), unit="s"),
                    )
                    s.simulate_protocol(prot, time_points_per_step=2)
                    for st in op[1]:
                        cur.update(st[1])
                        nseg += 1
                        seg_cur.append(dict(cur))
                elif o == "update_parameter":
                    s.update_parameter(op[1], op[2])
                    cur[op[1]] = op[2]
                elif o == "update_parameters":
                    s.update_parameters(dict(op[1]))
                    cur.update(op[1])
                elif o == "scale_parameter":
                    s.scale_parameter(op[1], op[2])
                    cur[op[1]] = cur[op[1]] * op[2]
                elif o == "update_variable":
                    s.update_variable(op[1], op[2])
                elif o == "set_ia":  # parameter becomes an initial assignment
                    m.update_parameter(op[1], InitialAssignment(fn=f_twice, args=[op[2]]))
                    cur[op[1]] = ("ia", f_twice, [op[2]])
                else:
                    raise CheckerError(f"unknown op {op}")
        except ValueError as e:  # simulator refused the history (C04 territory)
            raise Skip(f"simulator refused: {e}") from e
        r = s.get_result()
        if r.value is None or not hasattr(r.value, "raw_variables"):
            raise Skip("integration failed")
        res = r.value
        if len(res.raw_variables) != len(seg_cur):
            raise Skip(f"{len(res.raw_variables)} segments reported for {len(seg_cur)} simulation steps")
        segs = []
        for df, c in zip(res.raw_variables, seg_cur, strict=True):
            if list(df.columns) != list(spec["variables"]) or not np.isfinite(df.to_numpy()).all() or len(df) == 0:
                raise Skip("non-finite or malformed states")
            if df.index.has_duplicates:
                raise Skip("duplicate time labels inside one segment")
            segs.append(([float(i) for i in df.index], [dict(zip(df.columns, map(float, row), strict=True)) for row in df.to_numpy()], c))
        return res, m, segs

    if recipe["kind"] == "hand":
        base = dict(spec["parameters"])
        base.update(recipe.get("base", {}))
        segs = []
        raw_v, raw_p = [], []
        cur = dict(base)
        for sg in recipe["segments"]:
            cur = dict(cur)
            cur.update(sg["p"])
            raw_v.append(pd.DataFrame(sg["rows"], index=[float(i) for i in sg["index"]], columns=list(spec["variables"]), dtype=float))
            if recipe["partial"]:
                raw_p.append(dict(sg["p"]))
            else:
                raw_p.append({k: v for k, v in cur.items() if not _is_ia(v)})
            segs.append(([float(i) for i in sg["index"]], [dict(zip(spec["variables"], map(float, row), strict=True)) for row in sg["rows"]], dict(cur)))
        # the model holds the last segment's parameters, as after a real simulation
        m = build_model(spec, params=cur)
        res = Simulation(model=m, raw_variables=raw_v, raw_parameters=raw_p)
        return res, m, segs

    if recipe["kind"] == "default":
        m = build_model(spec)
        res = Simulation.default(m, np.array(recipe["time_points"], dtype=float))
        nan = float("nan")
        segs = [([float(t) for t in recipe["time_points"]], [dict.fromkeys(spec["variables"], nan) for _ in recipe["time_points"]], dict(spec["parameters"]))]
        return res, m, segs
    raise CheckerError(f"unknown recipe kind {recipe['kind']}")


# ---------------------------------------------------------------------------
# expectation tables


class Oracle:
    def __init__(self, spec, segs):
        import pandas as pd

        self.spec = spec
        self.cats = categories(spec)
        self.segs = segs
        self.E, self.D, self.C = [], [], []
        self.pnum = []
        for index, states, cur in segs:
            pn = numeric_parameters(spec, cur)
            self.pnum.append(pn)
            rows, drows, crows = [], [], {v: [] for v in spec["variables"]}
            for t, st in zip(index, states, strict=True):
                env, coefs, dxdt = truth(spec, pn, st, t)
                rows.append(env)
                drows.append(dxdt)
                for v in crows:
                    crows[v].append(coefs[v])
            self.E.append(pd.DataFrame(rows, index=index, dtype=float))
            self.D.append(pd.DataFrame(drows, index=index, dtype=float)[list(spec["variables"])])
            self.C.append({v: pd.DataFrame(r, index=index, dtype=float) for v, r in crows.items()})
        self.nrows = [len(s[0]) for s in segs]
        self.total = sum(self.nrows)

    # feature tags used in failure keys -----------------------------------
    def tags(self):
        import numpy as np

        t = []
        signs = {}
        for ci in self.C:
            for v, df in ci.items():
                for flux in df.columns:
                    signs.setdefault((v, flux), set()).update(np.sign(df[flux].to_numpy()).tolist())
        if any(len({s for s in sg if s == s}) > 1 for sg in signs.values()):
            t.append("coefficient-sign-changes-between-segments")
        ia = [frozenset(k for k, v in cur.items() if _is_ia(v)) for _i, _s, cur in self.segs]
        if len(set(ia)) > 1:
            t.append("initial-assignment-status-of-a-parameter-changes")
        return t

    def names(self, flags):
        out = []
        for cat in ("variables", "parameters", "derived_variables", "derived_parameters", "reactions",
                    "surrogate_variables", "surrogate_fluxes", "readouts"):
            if flags.get(cat):
                out += self.cats[cat]
        return out

    def norm_value(self, norm):
        """norm descriptor -> (python object to pass, per-segment list of divisors (scalar or per-row column))"""
        import numpy as np
        import pandas as pd

        if norm is None:
            return None, None
        kind, container = norm
        if kind == "scalar":
            val = {"float": 2.5, "int": 4, "np.float64": np.float64(2.5), "np.int64": np.int64(4), "np.float32": np.float32(2.5)}[container]
            return val, [float(val)] * len(self.nrows)
        if kind == "per-segment":
            vals = [1.5 + i for i in range(len(self.nrows))]
            obj = {"list": list(vals), "ndarray": np.array(vals), "index": pd.Index(vals)}[container]
            return obj, vals
        if kind == "per-row":
            vals = [2.0 + 0.25 * j for j in range(self.total)]
            obj = {"list": list(vals), "ndarray": np.array(vals), "index": pd.Index(vals)}[container]
            per_seg, off = [], 0
            for n in self.nrows:
                per_seg.append(np.array(vals[off:off + n]).reshape(n, 1))
                off += n
            return obj, per_seg
        raise CheckerError(f"unknown normalise {norm}")

    def frames(self, view, kw):
        """Expected per-segment frames for a view (before normalisation), or raises Skip."""
        import numpy as np

        if view in ("variables",):
            cols = self.names(dict(variables=1, derived_variables=1, surrogate_variables=1, readouts=1))
            return [e[cols] for e in self.E]
        if view == "fluxes":
            cols = self.names(dict(reactions=1, surrogate_fluxes=1))
            return [e[cols] for e in self.E]
        if view == "get_args":
            d = dict(variables=True, parameters=False, derived_parameters=False, derived_variables=True, reactions=True,
                     surrogate_variables=False, surrogate_fluxes=False, readouts=False)
            d.update({k[len("include_"):]: v for k, v in kw.items() if k.startswith("include_")})
            return [e[self.names(d)] for e in self.E]
        if view == "get_variables":
            d = dict(derived_variables=True, readouts=True, surrogate_variables=True)
            d.update({k[len("include_"):]: v for k, v in kw.items() if k.startswith("include_")})
            d["variables"] = True
            return [e[self.names(d)] for e in self.E]
        if view == "get_fluxes":
            cols = self.names(dict(reactions=1, surrogate_fluxes=kw.get("include_surrogates", True)))
            return [e[cols] for e in self.E]
        if view == "get_combined":
            cols = self.names(dict(variables=1, derived_variables=1, surrogate_variables=1, readouts=1, reactions=1, surrogate_fluxes=1))
            return [e[cols] for e in self.E]
        if view == "get_right_hand_side":
            return list(self.D)
        if view in ("get_producers", "get_consumers"):
            var = kw["variable"]
            sgn = 1.0 if view == "get_producers" else -1.0
            out = []
            for e, c in zip(self.E, self.C, strict=True):
                cdf = c[var]
                names = []
                for flux in cdf.columns:
                    s = np.sign(cdf[flux].to_numpy() * sgn)
                    if (s > 0).all():
                        names.append(flux)
                    elif (s > 0).any() or np.isnan(s).any():
                        raise Skip("coefficient sign not constant inside one segment")
                fr = e[names].copy()
                if kw.get("scaled"):
                    fr = fr * (cdf[names] * sgn)
                out.append(fr)
            return out
        raise CheckerError(f"no oracle for {view}")


# ---------------------------------------------------------------------------
# calling the real views and comparing


def call_view(res, view, kw, norm_obj):
    kw = dict(kw)
    if view == "variables":
        return res.variables
    if view == "fluxes":
        return res.fluxes
    if view == "get_combined":
        return res.get_combined()
    if view == "get_new_y0":
        return res.get_new_y0()
    if norm_obj is not None:
        kw["normalise"] = norm_obj
    if view in ("get_producers", "get_consumers"):
        var = kw.pop("variable")
        return getattr(res, view)(var, **kw)
    return getattr(res, view)(**kw)


def cmp_frame(got, exp):
    """(None, None) if equal, else (symptom class, text)."""
    import numpy as np
    import pandas as pd

    if not isinstance(got, pd.DataFrame):
        return "type", f"returned {type(got).__name__}"
    if len(got) != len(exp) or not np.array_equal(got.index.to_numpy(dtype=float), exp.index.to_numpy(dtype=float)):
        return "rows", f"row labels {list(got.index)[:8]}, expected {list(exp.index)[:8]}"
    if got.columns.has_duplicates or set(got.columns) != set(exp.columns):
        return "columns", f"columns {list(got.columns)}, expected {list(exp.columns)}"
    if len(exp.columns) == 0:
        return None, None
    g = got.loc[:, list(exp.columns)].to_numpy(dtype=float)
    e = exp.to_numpy(dtype=float)
    if not np.allclose(g, e, rtol=RTOL, atol=ATOL, equal_nan=True):
        bad = np.argwhere(~np.isclose(g, e, rtol=RTOL, atol=ATOL, equal_nan=True))[0]
        cls = "columns" if (g[bad[0], bad[1]] != g[bad[0], bad[1]]) != (e[bad[0], bad[1]] != e[bad[0], bad[1]]) else "values"
        return cls, f"row {int(bad[0])} (t={exp.index[bad[0]]}) column {exp.columns[bad[1]]!r}: got {g[bad[0], bad[1]]!r}, expected {e[bad[0], bad[1]]!r}"
    return None, None


def cmp_result(got, exp_list, concatenated):
    import pandas as pd

    if concatenated:
        return cmp_frame(got, pd.concat(exp_list, axis=0))
    if not isinstance(got, list):
        return "type", f"returned {type(got).__name__}"
    if len(got) != len(exp_list):
        return "segments", f"{len(got)} frames for {len(exp_list)} segments"
    for i, (g, e) in enumerate(zip(got, exp_list, strict=True)):
        c, s = cmp_frame(g, e)
        if c:
            return c, f"segment {i}: {s}"
    return None, None


def same_answer(a, b):
    import numpy as np
    import pandas as pd

    if isinstance(a, Exception) or isinstance(b, Exception):
        return type(a) is type(b)
    if isinstance(a, dict):
        return isinstance(b, dict) and list(a) == list(b) and np.allclose(list(a.values()), list(b.values()), rtol=1e-12, atol=0, equal_nan=True)
    if isinstance(a, list):
        return isinstance(b, list) and len(a) == len(b) and all(same_answer(x, y) for x, y in zip(a, b, strict=True))
    if isinstance(a, pd.DataFrame):
        return (isinstance(b, pd.DataFrame) and a.shape == b.shape and list(a.columns) == list(b.columns)
                and np.array_equal(a.index.to_numpy(), b.index.to_numpy())
                and np.allclose(a.to_numpy(dtype=float), b.to_numpy(dtype=float), rtol=1e-12, atol=0, equal_nan=True))
    return a == b


def view_label(view, kw):
    return view + ("(scaled)" if kw.get("scaled") else "")


def model_parameter_state(m):
    from mxlpy import InitialAssignment

    return {k: ("ia" if isinstance(v.value, InitialAssignment) else float(v.value)) for k, v in m.get_raw_parameters(as_copy=False).items()}


def expected_parameter_state(cur):
    return {k: ("ia" if _is_ia(v) else float(v)) for k, v in cur.items()}


def posthoc_change(m, keys):
    """The user changes the model's parameter values after the simulation."""
    for k in keys:
        m.update_parameter(k, -3.25 if k.startswith("yield") else 97.0)


# ---------------------------------------------------------------------------
# the battery of calls for one result

GET_ARGS_FLAGS = ["include_variables", "include_parameters", "include_derived_parameters", "include_derived_variables",
                  "include_reactions", "include_surrogate_variables", "include_surrogate_fluxes", "include_readouts"]
NORMS_FULL = [("scalar", "float"), ("scalar", "int"), ("scalar", "np.float64"), ("scalar", "np.int64"), ("scalar", "np.float32"),
              ("per-segment", "list"), ("per-segment", "ndarray"), ("per-segment", "index"),
              ("per-row", "ndarray"), ("per-row", "list"), ("per-row", "index")]
NORMS_SMALL = [("scalar", "float"), ("per-segment", "list"), ("per-row", "ndarray")]


def battery(spec, level, rng):
    """List of (view, kwargs, [norm descriptors]) - level 2: exhaustive flags and
    normalisation shapes; 1: reduced; 0: smoke."""
    calls = []
    norms = NORMS_FULL if level == 2 else NORMS_SMALL
    all_true = tuple([True] * 8)
    combos = list(itertools.product([False, True], repeat=8))
    if level < 2:
        combos = [all_true, *rng.sample(combos[:-1], 10 if level == 1 else 3)]
    for ci, c in enumerate(combos):
        for conc in (True, False):
            kw = dict(zip(GET_ARGS_FLAGS, c, strict=True))
            kw["concatenated"] = conc
            calls.append(("get_args", kw, norms if (c == all_true or (level == 2 and ci % 37 == 0)) else []))
    calls.append(("get_args", {}, []))
    for c in itertools.product([False, True], repeat=3):
        for conc in (True, False):
            kw = dict(zip(["include_derived_variables", "include_readouts", "include_surrogate_variables"], c, strict=True))
            kw["concatenated"] = conc
            calls.append(("get_variables", kw, norms if level > 0 or c == (True, True, True) else []))
    calls.append(("get_variables", {}, []))
    for inc in (True, False):
        for conc in (True, False):
            calls.append(("get_fluxes", {"include_surrogates": inc, "concatenated": conc}, norms))
    calls.append(("get_fluxes", {}, []))
    for conc in (True, False):
        calls.append(("get_right_hand_side", {"concatenated": conc}, norms))
    calls.append(("get_right_hand_side", {}, []))
    first = next(iter(spec["variables"]))
    for view in ("get_producers", "get_consumers"):
        for var in spec["variables"]:
            for scaled in (False, True):
                for conc in (True, False):
                    calls.append((view, {"variable": var, "scaled": scaled, "concatenated": conc}, norms if level > 0 else norms[-1:]))
        calls.append((view, {"variable": first}, []))
        calls.append((view, {"variable": first, "scaled": True}, []))
    for v in ("variables", "fluxes", "get_combined", "get_new_y0"):
        calls.append((v, {}, []))
    return calls


def perm_views(spec):
    first = next(iter(spec["variables"]))
    return [("get_fluxes", {}), ("get_right_hand_side", {}), ("get_producers", {"variable": first, "scaled": True}), ("variables", {})]


class Case:
    """One realised result with its oracle."""

    def __init__(self, recipe):
        self.recipe = recipe
        self.spec = SPECS[recipe["model"]]
        self.res, self.m, self.segs = realise(recipe)
        self._raw_v = [df.copy() for df in self.res.raw_variables]
        self._raw_p = [dict(p) for p in self.res.raw_parameters]
        self.oracle = Oracle(self.spec, self.segs)
        self.features = self.oracle.tags()
        # input class used in failure keys: the history feature if there is one, else the model
        self.tag = "+".join(self.features) if self.features else recipe["model"]
        self.last_cur = self.segs[-1][2]
        self.last_state = expected_parameter_state(self.last_cur)
        keys = [k for k, v in self.last_cur.items() if all(not _is_ia(s[2][k]) for s in self.segs)]
        if recipe["kind"] == "hand" and recipe["partial"]:
            keys = [k for k in keys if all(k in sg["p"] for sg in recipe["segments"])]
        self.recorded_keys = keys  # parameters recorded in every segment: changing them afterwards must not matter
        self.check_params = recipe["kind"] != "default"

    def fresh(self):
        """A fresh copy of the same result: the same raw states and recorded parameters
        around a newly built model that holds the parameters the simulated model ended with."""
        from mxlpy.simulation import Simulation

        if self.recipe["kind"] != "real":
            res, m, _ = realise(self.recipe)
            return res, m
        m = build_model(self.spec, params=self.last_cur)
        return Simulation(model=m, raw_variables=[df.copy() for df in self._raw_v], raw_parameters=[dict(p) for p in self._raw_p]), m

    def witness(self, call, mode):
        return {"recipe": self.recipe, "posthoc": mode, "call": call}


def _call(res, view, kw, norm_obj):
    try:
        with warnings.catch_warnings():
            warnings.simplefilter("ignore")
            return call_view(res, view, kw, norm_obj)
    except Exception as e:  # noqa: BLE001
        return e


def check_call(cx, res, view, kw, norm, mode):
    """Performs one view call on the real result and compares with the oracle.
    Returns (got, failure dict | None); raises Skip when the oracle has no answer."""
    norm_obj, divisors = cx.oracle.norm_value(norm)
    exp = None
    if view != "get_new_y0":
        exp = cx.oracle.frames(view, kw)
        if divisors is not None:
            exp = [e / d for e, d in zip(exp, divisors, strict=True)]
    got = _call(res, view, kw, norm_obj)
    if isinstance(got, Exception):
        cls, txt = f"raises {type(got).__name__}", f"raises {type(got).__name__}: {str(got)[:120]}"
    elif view == "get_new_y0":
        want = cx.segs[-1][1][-1]
        okv = isinstance(got, dict) and set(got) == set(want) and all(
            (got[k] == want[k]) or (got[k] != got[k] and want[k] != want[k]) for k in want)
        cls, txt = (None, None) if okv else ("values", f"got {got}, expected {want}")
    else:
        cls, txt = cmp_result(got, exp, kw.get("concatenated", True))
    if cls is None:
        return got, None
    key = failure_key(cx, view, kw, norm, cls)
    if mode != "none":
        key += ":parameters-changed-afterwards"
    what = (f"{view}({_fmt(kw)}{', ' if kw else ''}normalise={list(norm) if norm else None}) on a {len(cx.segs)}-segment result of model "
            f"{cx.recipe['model']!r} ({cx.recipe['kind']}): {txt}")
    return got, {"key": key, "what": what, "witness": cx.witness([view, kw, list(norm) if norm else None], mode), "detail": {}}


def failure_key(cx, view, kw, norm, cls):
    """Stable identity of a failing class: view x symptom x input class.
    * normalisation failures (the same call passes without normalise): view family x shape;
    * results whose recorded parameters cannot express the history (a parameter became an
      initial assignment): one class for all views;
    * which fluxes are listed (columns) does not depend on `scaled`."""
    if norm is not None:
        nk = norm[0] + ("(numpy scalar)" if norm[0] == "scalar" and norm[1] in ("np.int64", "np.float32") else "")
        return f"bounded:{view}:normalise={nk}"
    if "initial-assignment-status-of-a-parameter-changes" in cx.features:
        return "bounded:any-view:initial-assignment-status-of-a-parameter-changes"
    label = view if cls == "columns" else view_label(view, kw)
    return f"bounded:{label}:{cls}:{cx.tag}"


def check_model_parameters(cx, m, view, kw, call, mode, after):
    """(O) a model that held the last segment's parameters still holds them after the read."""
    st = model_parameter_state(m)
    if st == cx.last_state:
        return None
    _restore(m, cx.last_cur)  # so that the next read is judged on its own
    label = f"{view_label(view, kw)}:{cx.tag}"
    if "initial-assignment-status-of-a-parameter-changes" in cx.features:
        label = "any-view:initial-assignment-status-of-a-parameter-changes"
    return {"key": f"bounded:model-parameters-changed-by-reading:{label}",
            "what": f"after {after or view_label(view, kw)} the model's parameters are {st}; it held the last segment's {cx.last_state} before",
            "witness": cx.witness(call, mode), "detail": {}}


def check_identity(cx, res, mode):
    """(N) stoichiometry x reported fluxes == reported derivatives, row by row."""
    import numpy as np

    fl = _call(res, "get_fluxes", {"concatenated": False}, None)
    rh = _call(res, "get_right_hand_side", {"concatenated": False}, None)
    if isinstance(fl, Exception) or isinstance(rh, Exception) or len(fl) != len(cx.segs) or len(rh) != len(cx.segs):
        return None  # reported by the view checks
    for i in range(len(cx.segs)):
        for var in cx.spec["variables"]:
            c = cx.oracle.C[i][var]
            try:
                lhs = (c.to_numpy() * fl[i].loc[:, list(c.columns)].to_numpy()).sum(axis=1) if len(c.columns) else np.zeros(len(c))
                rhs_ = rh[i].loc[:, var].to_numpy()
            except Exception:  # noqa: BLE001
                continue
            if lhs.shape != rhs_.shape or not np.allclose(lhs, rhs_, rtol=RTOL, atol=ATOL, equal_nan=True):
                return {"key": f"bounded:identity N*v=dxdt:{cx.tag}" + ("" if mode == "none" else ":parameters-changed-afterwards"),
                        "what": f"segment {i}, variable {var}: stoichiometry x reported fluxes = {lhs.tolist()} but reported derivatives = {rhs_.tolist()}",
                        "witness": cx.witness(["identity", {}, None], mode), "detail": {}}
    return None


def canonical_answers(cx, views):
    """Each view read alone on its own fresh result."""
    out = {}
    for view, kw in views:
        res, _m = cx.fresh()
        out[json.dumps([view, kw], sort_keys=True)] = _call(res, view, kw, None)
    return out


def check_order(cx, order, mode, canonical):
    """(O) read the views in the given order on a fresh result."""
    fails = []
    res, m = cx.fresh()
    if mode == "before":
        posthoc_change(m, cx.recorded_keys)
    names = [view_label(v, k) for v, k in order]
    for j, (view, kw) in enumerate(order):
        if mode == "between" and j == 1:
            posthoc_change(m, cx.recorded_keys)
        got = _call(res, view, kw, None)
        want = canonical[json.dumps([view, kw], sort_keys=True)]
        call = ["order", [[v, k] for v, k in order], j]
        if not same_answer(got, want):
            fails.append({"key": f"bounded:order-dependent:{view_label(view, kw)}:{cx.tag}" + ("" if mode == "none" else ":parameters-changed-afterwards"),
                          "what": f"{view}({_fmt(kw)}) read at position {j} of {names} differs from the same view read alone on a fresh result",
                          "witness": cx.witness(call, mode), "detail": {}})
        if mode == "none" and cx.check_params:
            if isinstance(got, Exception):
                _restore(m, cx.last_cur)  # a raising view is reported by the view checks
            else:
                f = check_model_parameters(cx, m, view, kw, call, mode, f"reading {names[: j + 1]}")
                if f:
                    fails.append(f)
    return fails


def _prepare(cx, mode):
    """A result in the given post-hoc mode, ready for one call (used by replay)."""
    res, m = cx.fresh()
    if mode == "before":
        posthoc_change(m, cx.recorded_keys)
    elif mode == "between":
        _call(res, "get_args", {}, None)  # fills the lazily computed argument tables
        posthoc_change(m, cx.recorded_keys)
    return res, m


def replay(witness):
    """Re-runs exactly one witness on the real code; returns the keys that fail."""
    _quiet()
    cx = Case(witness["recipe"])
    mode = witness["posthoc"]
    view, kw, norm = witness["call"]
    keys = []
    if view == "order":
        order = [(v, k) for v, k in kw]
        keys = [f["key"] for f in check_order(cx, order, mode, canonical_answers(cx, order))]
    elif view == "identity":
        res, _m = _prepare(cx, mode)
        f = check_identity(cx, res, mode)
        keys = [f["key"]] if f else []
    else:
        # on a fresh result and (as in the battery) on one whose argument tables are already filled
        for warm in (False, True):
            res, m = _prepare(cx, mode)
            if warm:
                _call(res, "get_args", {}, None)
            _got, f = check_call(cx, res, view, kw, tuple(norm) if norm else None, mode)
            if f:
                keys.append(f["key"])
            if mode == "none" and cx.check_params and not isinstance(_got, Exception):
                f = check_model_parameters(cx, m, view, kw, witness["call"], mode, "")
                if f:
                    keys.append(f["key"])
    return keys


def run_recipe(recipe, level):
    """Checks one result; returns {'cases', 'failures', 'skipped', 'nontrivial', 'norm_evals', ...}."""
    import pandas as pd
    import mxlpy.simulation as simmod

    _quiet()
    rng = random.Random(int(hashlib.sha256(json.dumps(recipe, sort_keys=True, default=str).encode()).hexdigest()[:8], 16))

    # run-time contract around the real normalisation helper (recording, not raising)
    orig = getattr(simmod._normalise_split_results, "__wrapped_c10__", simmod._normalise_split_results)
    stats = {"evals": 0, "violations": 0}

    def contracted(results, normalise):
        out = orig(results, normalise)
        stats["evals"] += 1
        ok = isinstance(out, list) and len(out) == len(results) and all(
            isinstance(o, pd.DataFrame) and o.shape == r.shape for o, r in zip(out, results, strict=False))
        if not ok:
            stats["violations"] += 1
        return out

    contracted.__wrapped_c10__ = orig
    simmod._normalise_split_results = contracted
    try:
        try:
            cx = Case(recipe)
        except Skip as e:
            return {"cases": 0, "failures": [], "skipped": str(e), "nontrivial": False, "norm_evals": 0}
        failures = []
        cases = 0
        calls = battery(cx.spec, level, rng)
        failed_in_none = set()
        modes = ["none", "before", "between"] if recipe["kind"] != "default" else ["none"]
        stride = {0: 3, 1: 2, 2: 2}[level]
        for mode in modes:
            if mode == "none":
                res, m, use = cx.res, cx.m, calls
            else:
                res, m = cx.fresh()
                ga = [c for c in calls[1:] if c[0] == "get_args"]
                other = [c for c in calls[1:] if c[0] != "get_args"]
                use = [calls[0], *ga[:: 16 if level == 2 else stride], *other[::stride]]
                if mode == "before":
                    posthoc_change(m, cx.recorded_keys)
            for ci, (view, kw, norms) in enumerate(use):
                if mode == "between" and ci == 1:
                    posthoc_change(m, cx.recorded_keys)
                for norm in [None, *norms]:
                    cid = json.dumps([view, kw, norm], sort_keys=True)
                    v0 = stats["violations"]
                    try:
                        _got, f = check_call(cx, res, view, kw, norm, mode)
                    except Skip:
                        break
                    cases += 1
                    if f:
                        if mode == "none":
                            failed_in_none.add(cid)
                            f["detail"]["normalise_contract_violations"] = stats["violations"] - v0
                            failures.append(f)
                        elif cid not in failed_in_none:  # specific to parameters changed afterwards
                            failures.append(f)
                    if mode == "none" and cx.check_params and isinstance(_got, Exception):
                        _restore(m, cx.last_cur)
                    elif mode == "none" and cx.check_params:
                        f2 = check_model_parameters(cx, m, view, kw, [view, kw, list(norm) if norm else None], mode, f"{view}({_fmt(kw)}{', ' if kw else ''}normalise={list(norm) if norm else None})")
                        if f2:
                            failures.append(f2)
                    if f and norm is None:
                        break  # normalised variants of a failing call tell nothing new
            cases += 1
            f = check_identity(cx, res, mode)
            if f:
                failures.append(f)

        # (O) all orders of reading four views, each read twice, on a fresh result
        if recipe["kind"] != "default":
            views = perm_views(cx.spec)
            canonical = canonical_answers(cx, views)
            perms = list(itertools.permutations(range(len(views))))
            if level == 0:
                perms = rng.sample(perms, 5)
            for pi, perm in enumerate(perms):
                mode = "none" if pi % 3 else ("before" if pi % 2 else "between")
                order = [views[i] for i in perm] * 2
                failures += check_order(cx, order, mode, canonical)
                cases += len(order)

        spec, segs = cx.spec, cx.segs
        nontrivial = len(segs) >= 2 and any(numeric_parameters(spec, segs[i][2]) != numeric_parameters(spec, segs[0][2]) for i in range(1, len(segs)))
        return {"cases": cases, "failures": failures, "skipped": None, "nontrivial": nontrivial,
                "norm_evals": stats["evals"], "segments": len(segs), "rows": cx.oracle.total}
    finally:
        simmod._normalise_split_results = orig


def _restore(m, cur):
    from mxlpy import InitialAssignment

    for k, v in cur.items():
        m.update_parameter(k, InitialAssignment(fn=v[1], args=list(v[2])) if _is_ia(v) else v)


def _fmt(kw):
    return ", ".join(f"{k}={v!r}" for k, v in kw.items())


def _quiet():
    logging.disable(logging.CRITICAL)
    os.environ.setdefault("TQDM_DISABLE", "1")
    warnings.filterwarnings("ignore")


# ---------------------------------------------------------------------------
# direct contract on the normalisation helper (D)


def check_normalise_helper(ctx):
    import numpy as np
    import pandas as pd
    from mxlpy.simulation import _normalise_split_results

    n = 0
    for lens in ([3], [2, 3], [1, 1, 1], [2, 1, 4], [1, 5]):
        frames, off = [], 0
        for ln in lens:
            frames.append(pd.DataFrame({"a": np.arange(off, off + ln) + 1.0, "b": (np.arange(off, off + ln) + 1.0) * 10}, index=np.arange(off, off + ln, dtype=float)))
            off += ln
        total = off
        shapes = [("scalar", 2.0, [2.0] * len(lens))]
        seg = [1.0 + i for i in range(len(lens))]
        shapes.append(("per-segment", list(seg), seg))
        row = np.array([2.0 + j for j in range(total)])
        offs = np.cumsum([0, *lens])
        shapes.append(("per-row", row, [row[offs[i]:offs[i + 1]].reshape(-1, 1) for i in range(len(lens))]))
        for kind, arg, div in shapes:
            n += 1
            copies = [f.copy() for f in frames]
            try:
                out = _normalise_split_results(copies, arg)
                if len(out) != len(frames):
                    sym = f"returned {len(out)} frames for {len(frames)} inputs"
                elif all(o.shape == f.shape and np.allclose(o.to_numpy(), (f / d).to_numpy(), rtol=RTOL, atol=ATOL) for o, f, d in zip(out, frames, div, strict=True)):
                    sym = None
                else:
                    sym = "wrong quotient"
            except Exception as e:  # noqa: BLE001
                sym = f"raises {type(e).__name__}"
            if sym:
                ctx.fail(key=f"bounded:_normalise_split_results:{kind}", kind="bounded",
                         what=f"_normalise_split_results(frames of lengths {lens}, {kind} factors): {sym}",
                         witness={"segment_lengths": lens, "normalise_kind": kind}, replayed=True)
    return n


# ---------------------------------------------------------------------------
# enumeration of recipes


def real_recipes(rng, tier):
    out = []
    seg_steps = [["simulate", 3], ["time_course", [0.25, 0.5, 1.0]], ["simulate", 1]]
    changes = {
        "chain": [None, ["update_parameter", "k1", 2.0], ["update_parameter", "yield_", -0.5], ["scale_parameter", "k2", 3.0],
                  ["update_variable", "x", 2.0], ["update_parameters", {"k_in": 0.5, "x0": 1.0}], ["set_ia", "k1", "x0"],
                  ["update_parameter", "kia", 0.75]],
        "statecoef": [None, ["update_parameter", "k", 2.0], ["update_variable", "x", 0.3], ["scale_parameter", "k_in", 2.0]],
        "timecoef": [None, ["update_parameter", "k", 2.0], ["update_parameter", "k_in", 0.2]],
        "surrogate": [None, ["update_parameter", "k", 2.0], ["update_parameter", "yield_", -1.0], ["update_parameters", {"yield_": 3.0, "k0": 0.5}]],
    }
    protocols = {
        "chain": ["protocol", [[1.0, {"k1": 2.0, "yield_": 1.0}], [2.0, {"k1": 0.5, "yield_": 3.0}]]],
        "statecoef": ["protocol", [[1.0, {"k": 2.0}], [2.0, {"k": 0.5}]]],
        "timecoef": ["protocol", [[1.0, {"k": 2.0}], [2.0, {"k": 0.5}]]],
        "surrogate": ["protocol", [[1.0, {"k": 2.0, "yield_": 1.0}], [2.0, {"k": 0.5, "yield_": 3.0}]]],
    }
    for model, chs in changes.items():
        # two segments: every change between pairs of segment-producing steps
        for ai, a in enumerate(seg_steps[:2]):
            for ci, ch in enumerate(chs):
                for bi, b in enumerate(seg_steps):
                    if tier == "quick" and (ai + ci + bi) % 2:
                        continue
                    out.append({"kind": "real", "model": model, "ops": [a, *([ch] if ch else []), b]})
        # steady-state runs: repeated time labels
        for ch1 in chs:
            if ch1 and ch1[0] == "update_variable":
                continue
            out.append({"kind": "real", "model": model, "ops": [["steady"], *([ch1] if ch1 else []), ["steady"], chs[1], ["steady"]]})
            if tier != "quick":
                out.append({"kind": "real", "model": model, "ops": [["steady"], *([ch1] if ch1 else []), ["steady"], chs[2], ["steady"]]})
                out.append({"kind": "real", "model": model, "ops": [["simulate", 2], *([ch1] if ch1 else []), ["steady"]]})
        out.append({"kind": "real", "model": model, "ops": [protocols[model]]})
        out.append({"kind": "real", "model": model, "ops": [["simulate", 2], chs[1], protocols[model]]})
        out.append({"kind": "real", "model": model, "ops": [["steady"]]})
        out.append({"kind": "real", "model": model, "ops": [["simulate", 3]]})
    if tier != "quick":
        # three and four segments, sampled
        for model, chs in changes.items():
            for _ in range(60):
                n = rng.choice([3, 3, 4])
                ops = []
                used_var = False
                for i in range(n):
                    if i:
                        ch = rng.choice(chs)
                        if ch and ch[0] == "update_variable" and used_var:
                            ch = None
                        if ch:
                            used_var |= ch[0] == "update_variable"
                            ops.append(ch)
                    ops.append(rng.choice(seg_steps))
                out.append({"kind": "real", "model": model, "ops": ops})
    return out


def hand_recipes(rng, tier):
    out = []
    change_pool = {
        "chain": {"k_in": [0.5, 2.0], "k1": [0.3, 2.0], "k2": [0.25, 1.5], "yield_": [-0.5, 3.0, -2.0], "x0": [1.0]},
        "statecoef": {"k": [0.5, 2.0], "k_in": [0.1, 1.4]},
        "timecoef": {"k": [0.5, 2.0], "k_in": [0.1, 1.4]},
        "surrogate": {"k": [0.5, 2.0], "yield_": [-1.0, 3.0], "k0": [0.5]},
    }
    per_model = 12 if tier == "quick" else 60
    for model, pool in change_pool.items():
        nvar = len(SPECS[model]["variables"])
        for j in range(per_model):
            nseg = 1 + j % 4 if tier != "quick" else 1 + j % 3
            index_mode = ["increasing", "same-label", "restart", "shared-boundary"][(j // 3) % 4]
            partial = (j % 5 == 4)
            keys = sorted(pool)
            pkeys = rng.sample(keys, rng.randint(1, len(keys)))
            segs, t = [], 0.0
            for i in range(nseg):
                n = rng.choice([1, 2, 3]) if index_mode != "same-label" else 1
                if index_mode == "increasing":
                    idx = [t + 0.5 * (r + 1) for r in range(n)]
                    t = idx[-1]
                elif index_mode == "same-label":
                    idx = [200.0]
                elif index_mode == "restart":
                    idx = [0.5 * r for r in range(n)]
                else:  # next segment starts at the label the previous one ended with
                    idx = [t + 0.5 * r for r in range(n)]
                    t = idx[-1]
                rows = [[round(rng.uniform(0.1, 3.0), 3) for _ in range(nvar)] for _ in range(n)]
                if partial:
                    p = {k: rng.choice(pool[k]) for k in pkeys}
                else:
                    p = {k: rng.choice(pool[k]) for k in pkeys if rng.random() < 0.7} if i else {}
                segs.append({"index": idx, "rows": rows, "p": p})
            out.append({"kind": "hand", "model": model, "partial": partial, "segments": segs})
    # the shape of the perturbation workflow (three steady states, one shared time label), by hand
    out.append({"kind": "hand", "model": "chain", "partial": False, "segments": [
        {"index": [50.0], "rows": [[1.0, 2.0]], "p": {}},
        {"index": [50.0], "rows": [[1.0, 1.0]], "p": {"k2": 1.0}},
        {"index": [50.0], "rows": [[3.0, 3.0]], "p": {"k_in": 3.0, "yield_": 3.0}}]})
    out.append({"kind": "default", "model": "chain", "time_points": [0.0, 1.0, 2.5]})
    return out


def _level(i, tier):
    if tier == "quick":
        return 2 if i % 40 == 0 else (1 if i % 8 == 1 else 0)
    return 2 if i % 12 == 0 else 1


def _work(args):
    recipe, level = args
    t0 = time.time()
    r = run_recipe(recipe, level)
    r["recipe"] = recipe
    r["level"] = level
    r["wall"] = time.time() - t0
    return r


def run(ctx: Ctx) -> None:
    _quiet()
    t0 = time.time()
    rng = random.Random(seed())
    recipes = real_recipes(rng, ctx.tier) + hand_recipes(rng, ctx.tier)
    rng.shuffle(recipes)  # spread kinds/models evenly over the levels
    jobs = [(r, _level(i, ctx.tier)) for i, r in enumerate(recipes)]
    jobs.sort(key=lambda j: -j[1])  # long jobs first
    workers = max(1, min(14, (os.cpu_count() or 2) - 2))
    with ProcessPoolExecutor(max_workers=workers) as ex:
        results = list(ex.map(_work, jobs, chunksize=1))

    cases = check_normalise_helper(ctx)
    skipped = [r for r in results if r["skipped"]]
    done = [r for r in results if not r["skipped"]]
    norm_evals = sum(r["norm_evals"] for r in done)
    if not done:
        raise CheckerError("no recipe could be realised")
    if norm_evals == 0:
        raise CheckerError("the contract wrapper around _normalise_split_results was never evaluated (bypassed)")
    if len(skipped) > len(results) // 4:
        raise CheckerError(f"{len(skipped)} of {len(results)} recipes skipped: {skipped[0]['skipped']}")
    seen = set()
    samples = []
    distinct = set()
    for r in done:
        cases += r["cases"]
        if r["nontrivial"]:
            distinct.add(hashlib.sha256(json.dumps(r["recipe"], sort_keys=True, default=str).encode()).hexdigest()[:12])
            if len(samples) < 3:
                samples.append({"recipe": r["recipe"], "segments": r["segments"], "rows": r["rows"], "view_calls_checked": r["cases"],
                                "failures": sorted({f["key"] for f in r["failures"]})[:4]})
        for f in r["failures"]:
            if f["key"] in seen:
                continue
            seen.add(f["key"])
            try:  # replay the single witness in this process on the real code
                replayed = f["key"] in replay(f["witness"])
            except Exception:  # noqa: BLE001
                replayed = False
            ctx.fail(key=f["key"], kind="bounded", what=f["what"], witness=f["witness"], replayed=replayed, detail=f["detail"])
    ctx.add_bounded(
        name="C10-result-views",
        tool="enumerated histories on the real Simulator + hand-built results; every view call compared with a plain-python evaluator of the model spec",
        bound=(f"{len(done)} results ({sum(1 for r in done if r['recipe']['kind'] == 'real')} simulated, "
               f"{sum(1 for r in done if r['recipe']['kind'] != 'real')} hand-built; 1..4 segments, 1..4 rows each; 4 models: static with parameter-named "
               "coefficient / state-dependent / time-dependent coefficient / surrogate) x view calls "
               f"(get_args 2^8 flags exhaustive on {sum(1 for r in done if r['level'] == 2)} results else sampled, get_variables 2^3, get_fluxes, "
               "get_right_hand_side, producers/consumers x variable x scaled, concatenated T/F, normalise None/scalar/per-segment/per-row in "
               "list/ndarray/Index form) x parameters changed afterwards (not / before first read / between reads) x permutations of 4 views each read twice "
               "(all 24 on level>=1 results, 5 sampled otherwise)"
               f"; {len(skipped)} recipes skipped (simulator refused the history / integration failed); "
               f"_normalise_split_results contract evaluated {norm_evals} times"),
        cases=cases, distinct_nontrivial=sum(r["cases"] for r in done if r["nontrivial"]),
        rule="one case = one view call (view, flags, normalisation shape, post-hoc mode, position in a reading order) on one result, compared with the oracle; "
             "non-trivial = the result has >= 2 segments whose parameters in force differ",
        exhaustive=False, samples=samples,
    )
    ctx.extra["C10_recipes"] = {"total": len(results), "skipped": len(skipped), "skip_reasons": sorted({r["skipped"][:60] for r in skipped})[:5],
                                "distinct_nontrivial_results": len(distinct), "wall_s": round(time.time() - t0, 1), "workers": workers,
                                "cpu_s": round(sum(r["wall"] for r in results), 1),
                                "slowest": [[round(r["wall"], 1), r.get("level"), json.dumps(r["recipe"])[:160]] for r in sorted(results, key=lambda r: -r["wall"])[:4]],
                                "avg_s_per_level": {lv: round(sum(r["wall"] for r in results if r.get("level") == lv) / max(1, sum(1 for r in results if r.get("level") == lv)), 2) for lv in (0, 1, 2)}}
    ctx.trust("pandas arithmetic/concat/loc semantics; numpy allclose")
    ctx.assume(f"numerical comparison rtol={RTOL} atol={ATOL}: oracle and library evaluate the same float expressions, only the order of a sum of <=4 products may differ",
               "states and time labels of a simulated result are taken from the result (they are the inputs of the views); parameters in force are tracked from the history of edits",
               "time labels are unique inside one segment (the Simulator never produces duplicates inside a segment); they may repeat across segments",
               "a producer/consumer check is skipped when a state-dependent coefficient changes sign inside one segment (no frame can express it)",
               "histories the Simulator refuses or fails to integrate (C04/C15 matters) are skipped and counted")
