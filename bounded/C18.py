"""Bounded stand-in for C18 (labelled bounded, never counted as proved).

Contract (taken from the property statement), checked at run time on the REAL
``mxlpy.mca`` / ``mxlpy.mc`` routines over enumerated power-law / mass-action networks:

  (EV) ``mca.variable_elasticities``: cell (reaction r, variable x) = d v_r / d x at the given
       state (x / v_r times that when normalized - the kinetic order for power laws);
  (EP) ``mca.parameter_elasticities``: the same for every parameter (rate constants, kinetic
       orders held as parameters, negative values included);
  (RC) ``mca.response_coefficients``: cell (variable or flux, parameter p) = d SS / d p of the
       steady-state concentration / flux of small pathways with closed-form steady states (one of
       them closed, so that its steady state depends on the start values given by ``variables=``)
       (p / SS times that when normalized);
  (FR) every routine leaves ``get_parameter_values()`` and ``get_initial_conditions()`` of the
       caller's model exactly as found (normalized or not, sequential or parallel, with or without
       ``variables=``); the same frame condition is attached as an ``icontract`` snapshot /
       post-condition to the real ``mca._response_coefficient_worker`` (monkey-patched);
  (SP) ``response_coefficients(parallel=False)`` == ``response_coefficients(parallel=True)``;
  (MC) the ``mxlpy.mc`` wrappers return, per Monte-Carlo row, the coefficients of the model with
       that row's parameters, and leave the caller's model untouched.

Oracle: every rate law is a module-level Python function; calling it with sympy symbols gives
its expression, ``sympy.diff`` the analytic derivative and the third derivative that bounds the
central-difference error ``(d p)^2/6 max|f'''|`` (plus a rounding term).  Steady states are
closed forms written by hand as sympy expressions and verified symbolically (N v(SS) = 0) in a
self-check; sensitivities by ``sympy.diff``.  No mxlpy code is involved in the oracle.
"""
from __future__ import annotations

import itertools
import logging
import math
import multiprocessing
import os
import random
import warnings
from concurrent.futures import ProcessPoolExecutor

import numpy as np

from vlib.core import CheckerError, Ctx, seed

ROUND = 2e-14  # relative rounding error of one flux evaluation (a few ulp, incl. pow / exp / log)
# assumed accuracy of a computed steady state of a *fast* network, relative to 1 + |y|:
#  default integrator: the search runs scipy's lsoda at its default rtol = 1e-6 whatever Scipy.rtol says; the
#  largest deviation from the closed form seen over 600 sampled parameter sets was 6e-8 (typically 1e-12)
#  "accurate": the integrator below, handed in through the public integrator= parameter
SS_ERR = {"default": 5e-7, "accurate": 2e-9}
DISPLACEMENTS = (1e-4, 1e-2, 1e-6)
MIN_RELAX = 0.3  # slowest relaxation rate admitted for response coefficients: e^(-0.3 * 100) ~ 1e-13 per search step


# ---------------------------------------------------------------------------
# rate laws: plain python, also evaluated on sympy symbols by the oracle


def r_const(k):
    return k


def r_ma(k, s):
    return k * s


def r_ma2(k, s, p):
    return k * s * p


def r_sq(k, s):
    return k * s**2


def r_pl(k, s, n):
    return k * s**n


def r_pl2(k, s, a, p, b):
    return k * s**a * p**b


def r_rev(kf, s, kr, p):
    return kf * s - kr * p


def r_timed(k, s, time):
    return k * s * (1 + 0.25 * time)


# ---------------------------------------------------------------------------
# an accurate steady-state provider handed to the routines through their public integrator=
# parameter (module level: picklable for the parallel runs).  It makes the finite-difference
# formulas of mca visible at ~1e-6 instead of ~1e-3 (see SS_ERR); it shares nothing with mxlpy.


class AccurateSteadyState:
    T_END = 400.0  # relaxation rates >= MIN_RELAX = 0.3: e^-120

    def __init__(self, rhs, y0, jacobian=None):
        self.rhs = rhs
        self.y0 = tuple(float(v) for v in y0)
        self.t0 = 0.0

    def reset(self):
        self.t0 = 0.0

    def _solve(self, t_eval):
        from scipy.integrate import solve_ivp

        from mxlpy.integrators.abstract import TimeCourse
        from mxlpy.types import IntegrationFailure, Result

        sol = solve_ivp(lambda t, y: np.asarray(self.rhs(t, y), dtype=float), (0.0, float(t_eval[-1])), self.y0,
                        method="LSODA", rtol=1e-12, atol=1e-14, t_eval=t_eval)
        if not sol.success:
            return Result(IntegrationFailure())
        return Result(TimeCourse(time=np.asarray(sol.t, dtype=float), values=np.asarray(sol.y.T, dtype=float)))

    def integrate(self, *, t_end, steps=None):
        return self._solve(np.linspace(0.0, t_end, 100 if steps is None else steps + 1))

    def integrate_time_course(self, *, time_points):
        tp = np.asarray(time_points, dtype=float)
        return self._solve(tp if tp[0] == 0 else np.insert(tp, 0, 0.0))

    def integrate_to_steady_state(self, *, tolerance, rel_norm):
        res = self._solve(np.array([0.0, self.T_END]))
        if isinstance(res.value, Exception):
            return res
        res.value.time = res.value.time[-1:]
        res.value.values = res.value.values[-1:]
        return res


# ---------------------------------------------------------------------------
# network specs.  reaction: (name, fn, [args], {variable: coefficient})

NETS = {
    # elasticity networks (no steady state needed)
    "powerlaw": dict(
        variables=("x", "y"),
        reactions=[
            ("v_pl", r_pl2, ["k1", "x", "a", "y", "b"], {"x": -1, "y": 1}),
            ("v_ma", r_ma, ["k2", "y"], {"y": -1}),
            ("v_bi", r_ma2, ["k3", "x", "y"], {"x": -1}),
            ("v_sq", r_sq, ["k4", "x"], {"x": -2, "y": 1}),
            ("v_in", r_const, ["k5"], {"x": 1}),
            ("v_t", r_timed, ["k6", "y", "time"], {"y": -1}),
        ],
    ),
    # pathways with closed-form steady states
    "plchain": dict(
        variables=("S", "P"),
        reactions=[
            ("v0", r_const, ["k0"], {"S": 1}),
            ("v1", r_pl, ["k1", "S", "n"], {"S": -1, "P": 1}),
            ("v2", r_ma, ["k2", "P"], {"P": -1}),
        ],
        steady=lambda p: {"S": (p["k0"] / p["k1"]) ** (1 / p["n"]), "P": p["k0"] / p["k2"]},
    ),
    "branch": dict(
        variables=("S", "A", "B"),
        reactions=[
            ("v0", r_const, ["k0"], {"S": 1}),
            ("v1", r_ma, ["k1", "S"], {"S": -1, "A": 1}),
            ("v2", r_ma, ["k2", "S"], {"S": -1, "B": 1}),
            ("v3", r_ma, ["k3", "A"], {"A": -1}),
            ("v4", r_ma, ["k4", "B"], {"B": -1}),
        ],
        steady=lambda p: {
            "S": p["k0"] / (p["k1"] + p["k2"]),
            "A": p["k1"] * p["k0"] / (p["k1"] + p["k2"]) / p["k3"],
            "B": p["k2"] * p["k0"] / (p["k1"] + p["k2"]) / p["k4"],
        },
    ),
    "reversible": dict(
        variables=("S", "P"),
        reactions=[
            ("v0", r_const, ["k0"], {"S": 1}),
            ("v1", r_rev, ["kf", "S", "kr", "P"], {"S": -1, "P": 1}),
            ("v2", r_ma, ["k2", "P"], {"P": -1}),
        ],
        steady=lambda p: {"S": (p["k0"] + p["kr"] * p["k0"] / p["k2"]) / p["kf"], "P": p["k0"] / p["k2"]},
    ),
    "feedback": dict(  # product inhibition of the entry step: kinetic order h < 0 held as a parameter
        variables=("S", "P"),
        reactions=[
            ("v0", r_pl, ["k0", "P", "h"], {"S": 1}),
            ("v1", r_ma, ["k1", "S"], {"S": -1, "P": 1}),
            ("v2", r_ma, ["k2", "P"], {"P": -1}),
        ],
        steady=lambda p: {
            "S": p["k2"] * (p["k0"] / p["k2"]) ** (1 / (1 - p["h"])) / p["k1"],
            "P": (p["k0"] / p["k2"]) ** (1 / (1 - p["h"])),
        },
    ),
    "closed": dict(  # conserved total S + P = T_ taken from the start values: the steady state depends on variables=
        variables=("S", "P"),
        reactions=[
            ("v1", r_rev, ["kf", "S", "kr", "P"], {"S": -1, "P": 1}),
        ],
        steady=lambda p: {"S": p["T_"] * p["kr"] / (p["kf"] + p["kr"]), "P": p["T_"] * p["kf"] / (p["kf"] + p["kr"])},
        conserved=True,
    ),
    "negrate": dict(  # degradation written as production with a negative rate constant
        variables=("S",),
        reactions=[
            ("v0", r_const, ["k0"], {"S": 1}),
            ("vd", r_ma, ["kd", "S"], {"S": 1}),
        ],
        steady=lambda p: {"S": -p["k0"] / p["kd"]},
    ),
}

ELAST_PARAMS = [
    {"k1": 2.0, "a": 0.5, "b": -1.0, "k2": 0.7, "k3": 1.3, "k4": 0.4, "k5": 1.1, "k6": 0.9},
    {"k1": 0.6, "a": 2.0, "b": 1.5, "k2": 3.0, "k3": 0.2, "k4": 2.5, "k5": 0.3, "k6": 1.7},
    {"k1": -1.5, "a": -0.5, "b": 2.0, "k2": -0.8, "k3": 2.2, "k4": -0.6, "k5": -2.0, "k6": 0.5},  # negative rate constants
    {"k1": 1.0, "a": -2.0, "b": 0.25, "k2": 1.0, "k3": 1.0, "k4": 1.0, "k5": 1.0, "k6": 1.0},
    {"k1": 3.0, "a": 1.0, "b": -0.3, "k2": 0.1, "k3": 5.0, "k4": 0.05, "k5": 4.0, "k6": 2.0},
]
ELAST_STATES = [
    {"x": 1.0, "y": 1.0},  # ln x = 0: kinetic-order parameters have zero elasticity
    {"x": 0.3, "y": 2.5},
    {"x": 7.0, "y": 0.4},
    {"x": 2.5, "y": 2.5},
    {"x": 0.05, "y": 12.0},
]

RESP_PARAMS = {
    "plchain": [
        {"k0": 1.2, "k1": 1.5, "k2": 2.0, "n": 0.5},
        {"k0": 2.0, "k1": 1.0, "k2": 3.0, "n": 2.0},
        {"k0": 0.8, "k1": 1.6, "k2": 1.0, "n": 1.0},
    ],
    "branch": [
        {"k0": 1.0, "k1": 2.0, "k2": 0.5, "k3": 1.5, "k4": 3.0},
        {"k0": 3.0, "k1": 0.7, "k2": 0.9, "k3": 0.6, "k4": 1.1},
    ],
    "reversible": [
        {"k0": 1.0, "kf": 3.0, "kr": 1.0, "k2": 2.0},
        {"k0": 2.5, "kf": 1.2, "kr": 2.0, "k2": 1.5},
    ],
    "feedback": [
        {"k0": 2.0, "k1": 1.5, "k2": 1.0, "h": -0.5},
        {"k0": 1.0, "k1": 2.0, "k2": 3.0, "h": -2.0},
        {"k0": 3.0, "k1": 1.0, "k2": 1.5, "h": -1.0},
    ],
    "closed": [
        {"kf": 2.0, "kr": 0.5},
        {"kf": 0.7, "kr": 1.9},
    ],
    "negrate": [
        {"k0": 1.0, "kd": -1.5},
        {"k0": 2.0, "kd": -0.8},
    ],
}
RESP_INIT = {"S": 0.3, "P": 0.1, "A": 0.2, "B": 0.4}
RESP_Y0 = {"S": 1.0, "P": 1.0, "A": 0.5, "B": 2.0}


def build_model(net: str, params: dict, init: dict):
    from mxlpy import Model

    spec = NETS[net]
    m = Model()
    m.add_parameters({k: float(v) for k, v in params.items()})
    m.add_variables({v: float(init[v]) for v in spec["variables"]})
    for name, fn, args, st in spec["reactions"]:
        m.add_reaction(name, fn, args=list(args), stoichiometry={k: float(c) for k, c in st.items()})
    return m


# ---------------------------------------------------------------------------
# oracle (sympy)

_SYM_CACHE: dict = {}


def _symbols(net):
    import sympy

    spec = NETS[net]
    names = set(spec["variables"]) | {"time"}
    for _n, _f, args, _s in spec["reactions"]:
        names |= set(args)
    if spec.get("conserved"):
        names.add("T_")
    return {n: sympy.Symbol(n, real=True) for n in sorted(names)}


def rate_exprs(net):
    """{reaction: sympy expression} obtained by calling the python rate law on symbols."""
    if ("rates", net) not in _SYM_CACHE:
        sy = _symbols(net)
        _SYM_CACHE[("rates", net)] = (sy, {name: fn(*[sy[a] for a in args]) for name, fn, args, _s in NETS[net]["reactions"]})
    return _SYM_CACHE[("rates", net)]


def _lam(key, build):
    if key not in _SYM_CACHE:
        _SYM_CACHE[key] = build()
    return _SYM_CACHE[key]


def elasticity_oracle(net, wrt, values, d):
    """For every reaction: (flux, analytic d v/d wrt, allowed absolute error of the central
    difference with relative displacement d) at `values` ({symbol name: number}, incl. time)."""
    import sympy

    sy, rates = rate_exprs(net)
    order = sorted(sy)

    def build():
        out = {}
        for r, e in rates.items():
            d1 = sympy.diff(e, sy[wrt])
            d3 = sympy.diff(e, sy[wrt], 3)
            out[r] = tuple(sympy.lambdify([sy[n] for n in order], x, modules="math") for x in (e, d1, d3))
        return out

    fns = _lam(("el", net, wrt), build)
    p = values[wrt]
    res = {}
    for r, (f0, f1, f3) in fns.items():
        def at(v, fn):
            vals = dict(values)
            vals[wrt] = v
            return float(fn(*[vals.get(n, 0.0) if n == "T_" else vals[n] for n in order]))  # T_ occurs in no rate law

        v = at(p, f0)
        d1 = at(p, f1)
        # |f'''| on the interval of the two evaluation points: the laws are power / exponential
        # functions, |f'''| is monotone on it, so the ends (and the middle, for safety) bound it
        m3 = max(abs(at(p * (1 + s * d), f3)) for s in (-1.0, 0.0, 1.0))
        fmax = max(abs(at(p * (1 + s * d), f0)) for s in (-1.0, 0.0, 1.0))
        tol = 1.05 * (d * p) ** 2 / 6 * m3 + ROUND * fmax / (d * abs(p)) + 1e-300
        res[r] = (v, d1, tol)
    return res


def steady_exprs(net):
    import sympy

    def build():
        sy, rates = rate_exprs(net)
        ss = NETS[net]["steady"]({n: s for n, s in sy.items()})
        flux = {r: e.subs({sy[k]: v for k, v in ss.items()}, simultaneous=True) for r, e in rates.items()}
        return sy, ss, flux

    return _lam(("ss", net), build)


def response_oracle(net, params, par, d, integrator="default"):
    """-> ({var: (SS, dSS/dp, tol)}, {reaction: (J, dJ/dp, tol)}): analytic sensitivities and the
    allowed absolute error of mxlpy's difference quotient (truncation + steady-state accuracy)."""
    import sympy

    sy, ss, flux = steady_exprs(net)
    pnames = sorted(params)

    def build():
        out = {}
        for kind, table in (("var", ss), ("flux", flux)):
            for name, e in table.items():
                out[(kind, name)] = tuple(
                    sympy.lambdify([sy[n] for n in pnames], x, modules="math") for x in (e, sympy.diff(e, sy[par]), sympy.diff(e, sy[par], 3))
                )
        return out

    fns = _lam(("resp", net, par), build)
    p = params[par]

    def at(v, fn):
        vals = dict(params)
        vals[par] = v
        return float(fn(*[vals[n] for n in pnames]))

    ssvals = {name: at(p, f[0]) for (kind, name), f in fns.items() if kind == "var"}
    ymax = max(abs(v) for v in ssvals.values())
    # a flux is k * (product of powers of) concentrations: its error is the concentration error times
    # its largest elasticity-like factor; bounded here by (1 + |J|/min|y|) * concentration error
    ymin = min(abs(v) for v in ssvals.values())
    out_v, out_f = {}, {}
    for (kind, name), (f0, f1, f3) in fns.items():
        val = at(p, f0)
        d1 = at(p, f1)
        m3 = max(abs(at(p * (1 + s * d), f3)) for s in (-1.0, 0.0, 1.0))
        eps = SS_ERR[integrator] * (1 + ymax)
        if kind == "flux":
            eps *= 1 + 4 * abs(val) / ymin
        tol = 1.05 * (d * p) ** 2 / 6 * m3 + eps / (d * abs(p))
        (out_v if kind == "var" else out_f)[name] = (val, d1, tol)
    return out_v, out_f


def relaxation_rate(net, params) -> float:
    """Slowest relaxation rate at the closed-form steady state: -max Re eig(N dv/dx)."""
    import sympy

    sy, ss, _flux = steady_exprs(net)
    _sy, rates = rate_exprs(net)
    spec = NETS[net]
    variables = list(spec["variables"])
    pnames = sorted(params)

    def build():
        jac = sympy.Matrix([[sum(st.get(v, 0) * sympy.diff(rates[name], sy[w]) for name, _f, _a, st in spec["reactions"]) for w in variables] for v in variables])
        jac = jac.subs({sy[k]: e for k, e in ss.items()}, simultaneous=True)
        return sympy.lambdify([sy[n] for n in pnames], jac, modules="numpy")

    fn = _lam(("jac", net), build)
    lam = np.linalg.eigvals(np.array(fn(*[params[n] for n in pnames]), dtype=float))
    if spec.get("conserved"):
        lam = lam[np.abs(lam) > 1e-12]  # the conserved total does not relax
    return float(-np.max(lam.real))


def oracle_params(net, params, start):
    """Parameters seen by the oracle: the model's, plus the conserved total of the start values."""
    if NETS[net].get("conserved"):
        return dict(params) | {"T_": float(sum(start[v] for v in NETS[net]["variables"]))}
    return dict(params)


def selfcheck_oracle() -> None:
    """Closed-form steady states satisfy N v = 0 symbolically-numerically; sympy derivatives
    agree with hand-written ones."""
    import sympy

    for net, psets in RESP_PARAMS.items():
        sy, ss, flux = steady_exprs(net)
        spec = NETS[net]
        for p in psets:
            p = oracle_params(net, p, RESP_Y0)
            subs = {sy[k]: v for k, v in p.items()}
            for var in spec["variables"]:
                tot = sum(st.get(var, 0) * flux[name] for name, _f, _a, st in spec["reactions"])
                val = float(sympy.N(tot.subs(subs)))
                if abs(val) > 1e-12:
                    raise CheckerError(f"C18 oracle self-check: {net} closed form is not a steady state (d{var}/dt = {val})")
            if relaxation_rate(net, p) < MIN_RELAX:
                raise CheckerError(f"C18 oracle self-check: {net} {p} relaxes slower than {MIN_RELAX} (steady-state accuracy assumption not justified)")
    # hand-written sensitivities of plchain
    p = RESP_PARAMS["plchain"][0]
    ov, of = response_oracle("plchain", p, "k1", 1e-4)
    s = (p["k0"] / p["k1"]) ** (1 / p["n"])
    if abs(ov["S"][1] - (-s / (p["n"] * p["k1"]))) > 1e-12 or abs(of["v1"][1]) > 1e-12 or abs(ov["P"][1]) > 1e-12:
        raise CheckerError("C18 oracle self-check: plchain dS/dk1")
    ov, of = response_oracle("plchain", p, "k0", 1e-4)
    if abs(ov["S"][1] - s / (p["n"] * p["k0"])) > 1e-12 or abs(of["v2"][1] - 1.0) > 1e-12:
        raise CheckerError("C18 oracle self-check: plchain dS/dk0")
    # hand-written elasticities of the power law
    vals = dict(ELAST_PARAMS[0]) | {"x": 0.3, "y": 2.5, "time": 0.0}
    o = elasticity_oracle("powerlaw", "x", vals, 1e-4)
    v = vals["k1"] * 0.3 ** vals["a"] * 2.5 ** vals["b"]
    if abs(o["v_pl"][0] - v) > 1e-14 or abs(o["v_pl"][1] - vals["a"] * v / 0.3) > 1e-13 or o["v_ma"][1] != 0:
        raise CheckerError("C18 oracle self-check: power-law elasticity")
    o = elasticity_oracle("powerlaw", "b", vals, 1e-4)
    if abs(o["v_pl"][1] - v * math.log(2.5)) > 1e-13:
        raise CheckerError("C18 oracle self-check: kinetic-order elasticity")


# ---------------------------------------------------------------------------
# run-time frame contract on the real worker

_EVALS = {"n": 0}
_ATTACHED = {"on": False, "orig": None}


def _content(model):
    return (dict(model.get_parameter_values()), dict(model.get_initial_conditions()))


def _frame_ok(model, OLD) -> bool:
    _EVALS["n"] += 1
    return _content(model) == OLD.before


def attach_contract() -> None:
    if _ATTACHED["on"]:
        return
    import icontract

    from mxlpy import mca

    orig = mca._response_coefficient_worker  # noqa: SLF001
    _ATTACHED["orig"] = orig
    wrapped = icontract.snapshot(lambda model: _content(model), name="before")(
        icontract.ensure(
            _frame_ok,
            description="_response_coefficient_worker leaves parameter values and initial values of the model it was given as it found them",
        )(orig)
    )
    mca._response_coefficient_worker = wrapped  # noqa: SLF001
    _ATTACHED["on"] = True


def detach_contract() -> None:
    if not _ATTACHED["on"]:
        return
    from mxlpy import mca

    mca._response_coefficient_worker = _ATTACHED["orig"]  # noqa: SLF001
    _ATTACHED["on"] = False


# ---------------------------------------------------------------------------
# cases on the real code


_TQDM = {"orig": None}


def quiet() -> None:
    warnings.filterwarnings("ignore")
    logging.disable(logging.CRITICAL)
    np.seterr(all="ignore")
    import mxlpy.parallel as mp

    if _TQDM["orig"] is None:  # the mc wrappers of the elasticities have no disable_tqdm argument
        real = _TQDM["orig"] = mp.tqdm
        mp.tqdm = lambda *a, **kw: real(*a, **{**kw, "disable": True})


def _sign_class(net, name, value):
    kind = "kinetic-order" if name in ("a", "b", "n", "h") else "rate-constant"
    return f"{kind}{'<0' if value < 0 else '>0'}"


def _order_class(net, reaction, var, values):
    """Sign of the kinetic order of `var` in `reaction` (for keys)."""
    for name, _fn, args, _st in NETS[net]["reactions"]:
        if name != reaction:
            continue
        if var not in args:
            return "not-an-argument"
        if _fn is r_pl2:
            o = values[args[2]] if var == args[1] else values[args[4]]
        elif _fn is r_pl:
            o = values[args[2]]
        elif _fn is r_sq:
            o = 2
        else:
            o = 1
        return "order<0" if o < 0 else ("order=0" if o == 0 else "order>0")
    return "?"


def _frame_failures(routine, before, model, cls):
    fails = []
    after = _content(model)
    if after[0] != before[0]:
        ch = {k: (before[0].get(k), after[0].get(k)) for k in set(before[0]) | set(after[0]) if before[0].get(k) != after[0].get(k)}
        fails.append({"clause": "model-changed:parameters", "routine": routine, "cls": cls,
                      "what": f"{routine}: parameter values of the caller's model changed {ch} (before, after)", "detail": {"changed": {k: list(v) for k, v in ch.items()}}})
    if after[1] != before[1]:
        ch = {k: (before[1].get(k), after[1].get(k)) for k in set(before[1]) | set(after[1]) if before[1].get(k) != after[1].get(k)}
        fails.append({"clause": "model-changed:initial-values", "routine": routine, "cls": cls,
                      "what": f"{routine}: initial values of the caller's model changed {ch} (before, after)", "detail": {"changed": {k: list(v) for k, v in ch.items()}}})
    return fails


def _cmp_elasticity(routine, frame, net, scanned, values, normalized, d, kind, fails, stats, index_prefix=None):
    """Compare a (reactions x scanned) frame with the oracle."""
    reactions = [r[0] for r in NETS[net]["reactions"]]
    for wrt in scanned:
        if wrt not in frame.columns:
            fails.append({"clause": "missing-column", "routine": routine, "cls": "normalized" if normalized else "unscaled",
                          "what": f"{routine}: no column {wrt!r} in the result (columns {list(frame.columns)})", "detail": {}})
            continue
        orc = elasticity_oracle(net, wrt, values, d)
        for r in reactions:
            got = float(frame.loc[r if index_prefix is None else (index_prefix, r), wrt])
            v, d1, tol = orc[r]
            want = d1
            if normalized:
                if v == 0:
                    continue
                scale = abs(values[wrt] / v)
                want, tol = d1 * values[wrt] / v, tol * scale * (1 + 4 * ROUND) + 4 * ROUND * abs(d1 * values[wrt] / v)
            err = abs(got - want)
            stats["cells"] += 1
            if want != 0:
                stats["nonzero_cells"] += 1
            stats["max_err_over_tol"] = max(stats["max_err_over_tol"], err / tol if tol > 0 else (0.0 if err == 0 else math.inf))
            if not err <= tol:
                cls = _order_class(net, r, wrt, values) if kind == "variable" else _sign_class(net, wrt, values[wrt])
                fails.append({
                    "clause": "value", "routine": routine,
                    "cls": f"{'normalized' if normalized else 'unscaled'}:{cls}",
                    "what": f"{routine}({'normalized' if normalized else 'unscaled'}, displacement {d:g}): d {r} / d {wrt} at "
                            f"{ {k: values[k] for k in sorted(values) if k != 'time'} }, time {values['time']:g}: got {got!r}, analytic {want!r} (allowed error {tol:.3g})",
                    "detail": {"reaction": r, "wrt": wrt, "got": got, "analytic": want, "tolerance": tol},
                })


def run_elasticity(case):
    from mxlpy import mca

    net, params, state, use_vars = case["net"], case["params"], case["state"], case["variables_given"]
    normalized, d, time, kind, to_scan = case["normalized"], case["displacement"], case["time"], case["which"], case["to_scan"]
    init = state if not use_vars else {k: 0.77 + i for i, k in enumerate(NETS[net]["variables"])}
    model = build_model(net, params, init)
    before = _content(model)
    kw = {"normalized": normalized, "displacement": d, "time": time}
    if use_vars:
        kw["variables"] = dict(state)
    if to_scan is not None:
        kw["to_scan"] = list(to_scan)
    routine = f"mca.{kind}_elasticities"
    fn = mca.variable_elasticities if kind == "variable" else mca.parameter_elasticities
    frame = fn(model, **kw)
    cls = f"{'variables-given' if use_vars else 'default-state'}:{'normalized' if normalized else 'unscaled'}"
    fails = _frame_failures(routine, before, model, cls)
    scanned = list(to_scan) if to_scan is not None else (list(NETS[net]["variables"]) if kind == "variable" else list(params))
    stats = {"cells": 0, "nonzero_cells": 0, "max_err_over_tol": 0.0}
    values = dict(params) | dict(state) | {"time": float(time)}
    if list(frame.columns) != scanned:
        fails.append({"clause": "columns", "routine": routine, "cls": "normalized" if normalized else "unscaled",
                      "what": f"{routine}: columns {list(frame.columns)} for to_scan {scanned}", "detail": {}})
    _cmp_elasticity(routine, frame, net, [s for s in scanned if s in frame.columns], values, normalized, d, kind, fails, stats)
    return {"failures": fails, "stats": stats}


def _cmp_response(routine, res, net, params, scanned, normalized, d, fails, stats, prefix=None, integrator="default"):
    for par in scanned:
        ov, of = response_oracle(net, params, par, d, integrator)
        for table, orc, what in ((res.variables, ov, "concentration"), (res.fluxes, of, "flux")):
            for name, (val, d1, tol) in orc.items():
                try:
                    # mca: rows = variables / fluxes, columns = parameters; mc: rows = (mc row, variable / flux)
                    got = float(table.loc[name, par]) if prefix is None else float(table.loc[(prefix, name), par])
                except KeyError:
                    fails.append({"clause": "missing-cell", "routine": routine, "cls": what,
                                  "what": f"{routine}: no cell ({name}, {par}) in the {what} table (index {list(table.index)}, columns {list(table.columns)})", "detail": {}})
                    continue
                want = d1
                if normalized:
                    if val == 0:
                        continue  # scaled coefficient of a vanishing steady-state flux (closed network) is undefined
                    want, tol = d1 * params[par] / val, tol * abs(params[par] / val) * 1.01
                err = abs(got - want)
                stats["cells"] += 1
                if abs(want) > 1e-9:
                    stats["nonzero_cells"] += 1
                stats["max_err_over_tol"] = max(stats["max_err_over_tol"], err / tol)
                stats.setdefault("max_err_over_tol_" + integrator, 0.0)
                stats["max_err_over_tol_" + integrator] = max(stats["max_err_over_tol_" + integrator], err / tol)
                if not err <= tol:
                    fails.append({
                        "clause": "value", "routine": routine,
                        "cls": f"{'normalized' if normalized else 'unscaled'}:{what}:{_sign_class(net, par, params[par])}",
                        "what": f"{routine}({'normalized' if normalized else 'unscaled'}): d {name}* / d {par} of {net} at {params}: got {got!r}, analytic {want!r} (allowed error {tol:.3g})",
                        "detail": {"target": name, "wrt": par, "got": got, "analytic": want, "tolerance": tol},
                    })


def _call_response(net, params, init, kw, contract: bool):
    """-> (result or None, model, before, frame-contract violation or None, exception or None)"""
    import icontract

    from mxlpy import mca

    model = build_model(net, params, init)
    before = _content(model)
    violation = None
    if contract:
        attach_contract()
    try:
        try:
            res = mca.response_coefficients(model, disable_tqdm=True, max_workers=2, **kw)
        except icontract.ViolationError as e:
            res, violation = None, " ".join(str(e).split())[:300]
    finally:
        detach_contract()
    return res, model, before, violation


def run_response(case):
    net, params = case["net"], case["params"]
    normalized, use_vars, to_scan, d, rel = case["normalized"], case["variables_given"], case["to_scan"], case["displacement"], case["rel_norm"]
    init = {k: RESP_INIT[k] for k in NETS[net]["variables"]}
    y0 = {k: RESP_Y0[k] for k in NETS[net]["variables"]}
    kw = {"normalized": normalized, "displacement": d, "rel_norm": rel}
    integ = case.get("integrator", "default")
    if integ == "accurate":
        kw["integrator"] = AccurateSteadyState
    if use_vars:
        kw["variables"] = dict(y0)
    if to_scan is not None:
        kw["to_scan"] = list(to_scan)
    scanned = list(to_scan) if to_scan is not None else list(params)
    routine = "mca.response_coefficients"
    base_cls = f"{'variables-given' if use_vars else 'default-state'}:{'normalized' if normalized else 'unscaled'}"
    fails = []
    stats = {"cells": 0, "nonzero_cells": 0, "max_err_over_tol": 0.0, "worker_contract_evals": 0}
    results = {}
    for parallel in (False, True):
        mode = "parallel" if parallel else "sequential"
        e0 = _EVALS["n"]
        # the contract is evaluated in this process only in sequential mode (parallel workers get a copy)
        res, model, before, violation = _call_response(net, params, init, kw | {"parallel": parallel}, contract=not parallel)
        stats["worker_contract_evals"] += _EVALS["n"] - e0
        if violation:
            fails.append({"clause": "worker-frame-contract", "routine": "mca._response_coefficient_worker", "cls": base_cls,
                          "what": f"run-time contract on the real worker (sequential mode, {net}, {kw}): {violation}", "detail": {}})
            res, model, before, _v = _call_response(net, params, init, kw | {"parallel": parallel}, contract=False)
        fails += _frame_failures(routine, before, model, f"{mode}:{base_cls}")
        results[mode] = res
        if list(res.variables.columns) != scanned or list(res.fluxes.columns) != scanned:
            fails.append({"clause": "columns", "routine": routine, "cls": mode,
                          "what": f"{routine}: columns {list(res.variables.columns)} / {list(res.fluxes.columns)} for to_scan {scanned}", "detail": {}})
        sub = []
        _cmp_response(routine, res, net, oracle_params(net, params, y0 if use_vars else init), scanned, normalized, d, sub, stats, integrator=integ)
        for f in sub:
            f["cls"] = f"{mode}:" + f["cls"]
            f["what"] = f"[{mode}] " + f["what"]
        fails += sub
    a, b = results["sequential"], results["parallel"]
    for ta, tb, what in ((a.variables, b.variables, "concentration"), (a.fluxes, b.fluxes, "flux")):
        same = ta.shape == tb.shape and list(ta.index) == list(tb.index) and list(ta.columns) == list(tb.columns)
        if same:
            x, y = ta.to_numpy(dtype=float), tb.to_numpy(dtype=float)
            same = bool(np.allclose(x, y, rtol=1e-12, atol=1e-15, equal_nan=True))
        if not same:
            fails.append({"clause": "sequential-differs-from-parallel", "routine": routine, "cls": f"{base_cls}:{what}",
                          "what": f"{routine}({net}, {params}, {kw}): sequential {what} coefficients\n{ta}\n differ from parallel\n{tb}", "detail": {}})
    return {"failures": fails, "stats": stats}


def run_mc(case):
    import pandas as pd

    from mxlpy import mc

    which, net, normalized, use_vars = case["which"], case["net"], case["normalized"], case["variables_given"]
    rows = case["rows"]  # list of parameter dicts (full sets)
    base = rows[0]
    fails = []
    stats = {"cells": 0, "nonzero_cells": 0, "max_err_over_tol": 0.0}
    frame = pd.DataFrame(rows)
    cls = f"{'variables-given' if use_vars else 'default-state'}:{'normalized' if normalized else 'unscaled'}"
    if which in ("variable", "parameter"):
        state = ELAST_STATES[1]
        init = {k: 0.77 + i for i, k in enumerate(NETS[net]["variables"])}
        model = build_model(net, base, init)
        before = _content(model)
        routine = f"mc.{which}_elasticities"
        scanned = ["x", "y"] if which == "variable" else ["k1", "a", "b", "k4"]
        fn = mc.variable_elasticities if which == "variable" else mc.parameter_elasticities
        out = fn(model, mc_to_scan=frame, to_scan=scanned, variables=dict(state), normalized=normalized, max_workers=2)
        fails += _frame_failures(routine, before, model, cls)
        for i, p in enumerate(rows):
            values = dict(p) | dict(state) | {"time": 0.0}
            _cmp_elasticity(routine, out, net, scanned, values, normalized, 1e-4, which, fails, stats, index_prefix=i)
    else:
        init = {k: RESP_INIT[k] for k in NETS[net]["variables"]}
        y0 = {k: RESP_Y0[k] for k in NETS[net]["variables"]}
        model = build_model(net, base, init)
        before = _content(model)
        routine = "mc.response_coefficients"
        scanned = list(base)[:2]
        integ = case.get("integrator", "default")
        out = mc.response_coefficients(model, mc_to_scan=frame, to_scan=scanned, variables=dict(y0) if use_vars else None,
                                       normalized=normalized, max_workers=2, disable_tqdm=True,
                                       integrator=AccurateSteadyState if integ == "accurate" else None)
        fails += _frame_failures(routine, before, model, cls)
        for i, p in enumerate(rows):
            _cmp_response(routine, out, net, oracle_params(net, p, y0 if use_vars else init), scanned, normalized, 1e-4, fails, stats, prefix=i, integrator=integ)
    return {"failures": fails, "stats": stats}


def run_case(case: dict) -> dict:
    quiet()
    try:
        if case["kind"] == "elasticity":
            return run_elasticity(case)
        if case["kind"] == "response":
            return run_response(case)
        if case["kind"] == "mc":
            return run_mc(case)
    except CheckerError:
        raise
    except Exception as e:  # noqa: BLE001
        import traceback

        return {"failures": [{"clause": f"unexpected-{type(e).__name__}", "routine": case["kind"] + ":" + str(case.get("which", "")), "cls": "",
                              "what": f"{type(e).__name__}: {e}", "detail": {"traceback": traceback.format_exc()[-1500:]}}],
                "stats": {"cells": 0, "nonzero_cells": 0, "max_err_over_tol": 0.0}}
    raise CheckerError(f"unknown case kind {case['kind']}")


def key_of(f: dict) -> str:
    return f"bounded:{f['routine']}:{f['clause']}" + (f":{f['cls']}" if f["cls"] else "")


# ---------------------------------------------------------------------------
# the enumerated scope


def make_cases(tier: str, rng: random.Random):
    cases = []
    # elasticities: parameter sets x states x which x normalized x (variables given | default) x displacement x to_scan
    combos = list(itertools.product(range(len(ELAST_PARAMS)), range(len(ELAST_STATES)), ("variable", "parameter"), (True, False), (False, True)))
    for pi, si, which, normalized, use_vars in combos:
        disp = DISPLACEMENTS if tier != "quick" else (DISPLACEMENTS[(pi + si) % 3],)
        for d in sorted(set(disp) | {1e-4}) if (pi + si) % 2 == 0 or tier != "quick" else disp:
            subset = None
            if (pi + si + (1 if normalized else 0)) % 3 == 0:
                subset = ["y"] if which == "variable" else ["a", "k3", "b"]
            cases.append({"kind": "elasticity", "which": which, "net": "powerlaw", "params": ELAST_PARAMS[pi], "state": ELAST_STATES[si],
                          "normalized": normalized, "variables_given": use_vars, "displacement": d, "time": 0.0 if (pi + si) % 2 else 2.0,
                          "to_scan": subset})
    # elasticities on the pathway networks (default state = initial values)
    for net, psets in RESP_PARAMS.items():
        for p in psets:
            for which in ("variable", "parameter"):
                for normalized in (True, False):
                    st = {k: RESP_Y0[k] * 1.3 for k in NETS[net]["variables"]}
                    cases.append({"kind": "elasticity", "which": which, "net": net, "params": p, "state": st, "normalized": normalized,
                                  "variables_given": normalized, "displacement": 1e-4, "time": 0.0, "to_scan": None})
    # response coefficients
    for net, psets in RESP_PARAMS.items():
        for pi, p in enumerate(psets):
            for normalized in (True, False):
                for use_vars in (False, True):
                    variants = [(None, 1e-4, False, "accurate")]
                    if tier != "quick" or pi == 0:
                        variants.append((None, 1e-4, False, "default"))
                        variants.append((list(p)[-2:], 1e-3, True, "accurate" if normalized else "default"))
                    for to_scan, d, rel, integ in variants:
                        cases.append({"kind": "response", "net": net, "params": p, "normalized": normalized, "variables_given": use_vars,
                                      "to_scan": to_scan, "displacement": d, "rel_norm": rel, "integrator": integ})
    # Monte-Carlo wrappers
    mc_rows = [ELAST_PARAMS[0], ELAST_PARAMS[2], ELAST_PARAMS[1]]
    for which in ("variable", "parameter"):
        for normalized in (True, False):
            cases.append({"kind": "mc", "which": which, "net": "powerlaw", "normalized": normalized, "variables_given": True, "rows": mc_rows})
    for net in ("plchain", "feedback", "closed") if tier == "quick" else tuple(RESP_PARAMS):
        for normalized in (True, False):
            for use_vars in (False, True):
                cases.append({"kind": "mc", "which": "response", "net": net, "normalized": normalized, "variables_given": use_vars, "rows": RESP_PARAMS[net],
                              "integrator": "accurate" if normalized == use_vars else "default"})
    if tier != "quick":
        # sampled parameter sets of the pathways (fast networks only: relaxation rate >= MIN_RELAX)
        for net in RESP_PARAMS:
            got = 0
            for _ in range(400):
                if got >= 20:
                    break
                p = {}
                for k in RESP_PARAMS[net][0]:
                    if k == "n":
                        p[k] = rng.choice((0.5, 0.75, 1.0, 1.5, 2.0, 3.0))
                    elif k == "h":
                        p[k] = -round(rng.uniform(0.3, 2.5), 2)
                    elif k == "kd":
                        p[k] = -round(rng.uniform(0.6, 4.0), 2)
                    else:
                        p[k] = round(rng.uniform(0.6, 4.0), 2)
                if relaxation_rate(net, oracle_params(net, p, RESP_Y0)) < MIN_RELAX:
                    continue
                got += 1
                cases.append({"kind": "response", "net": net, "params": p, "normalized": rng.random() < 0.5, "variables_given": rng.random() < 0.5,
                              "to_scan": None, "displacement": rng.choice((1e-4, 1e-3)), "rel_norm": rng.random() < 0.3,
                              "integrator": "accurate" if rng.random() < 0.7 else "default"})
        # sampled states / parameter values
        for _ in range(4000):
            p = {k: rng.choice((-1, 1)) * round(math.exp(rng.uniform(-2, 2)), 3) if k.startswith("k") else round(rng.uniform(-2.5, 2.5), 2) or 0.5 for k in ELAST_PARAMS[0]}
            s = {"x": round(math.exp(rng.uniform(-3, 3)), 3), "y": round(math.exp(rng.uniform(-3, 3)), 3)}
            cases.append({"kind": "elasticity", "which": rng.choice(("variable", "parameter")), "net": "powerlaw", "params": p, "state": s,
                          "normalized": rng.random() < 0.5, "variables_given": rng.random() < 0.5, "displacement": rng.choice(DISPLACEMENTS),
                          "time": rng.choice((0.0, 1.0, 5.0)), "to_scan": None})
    for i, c in enumerate(cases):
        c["id"] = i
    return cases


# ---------------------------------------------------------------------------
# driver


def _work(chunk):
    quiet()
    out = []
    for c in chunk:
        r = run_case(c)
        r["id"] = c["id"]
        out.append(r)
    return out


def run_pool(items, worker, n_workers):
    if n_workers <= 1 or len(items) < 8:
        return worker(items)
    chunks = [items[i::n_workers * 3] for i in range(n_workers * 3)]
    chunks = [c for c in chunks if c]
    try:
        mp = multiprocessing.get_context("fork")
        with ProcessPoolExecutor(max_workers=n_workers, mp_context=mp) as ex:
            return [r for part in ex.map(worker, chunks) for r in part]
    except (OSError, ValueError):  # pragma: no cover
        return worker(items)


def run(ctx: Ctx) -> None:
    import mxlpy  # noqa: F401  (import before forking)
    import sympy  # noqa: F401

    quiet()
    selfcheck_oracle()
    rng = random.Random(seed())
    cases = make_cases(ctx.tier, rng)
    light = [c for c in cases if c["kind"] == "elasticity"]
    heavy = [c for c in cases if c["kind"] != "elasticity"]  # create process pools of their own (max_workers=2)
    ncpu = min(16, os.cpu_count() or 1)
    results = run_pool(light, _work, ncpu) + run_pool(heavy, _work, max(1, ncpu // 2))
    by_id = {c["id"]: c for c in cases}

    cells = sum(r["stats"]["cells"] for r in results)
    nonzero = sum(r["stats"]["nonzero_cells"] for r in results)
    evals = sum(r["stats"].get("worker_contract_evals", 0) for r in results)
    n_resp = sum(1 for c in cases if c["kind"] == "response")
    if cells == 0 or nonzero == 0:
        raise CheckerError("C18: no coefficient was compared with the oracle")
    # a violated snapshot contract stops the sequential run at the first parameter: at least one evaluation per case
    if evals < n_resp:
        raise CheckerError(f"C18: frame contract on _response_coefficient_worker evaluated {evals} times over {n_resp} sequential runs: wrapper bypassed")

    seen: dict[str, tuple[dict, dict]] = {}
    n_fail = 0
    for r in sorted(results, key=lambda r: r["id"]):
        for f in r["failures"]:
            n_fail += 1
            k = key_of(f)
            if k not in seen:
                seen[k] = (r, f)
    for k, (r, f) in seen.items():
        case = by_id[r["id"]]
        again = run_case(case)
        replayed = any(key_of(g) == k for g in again["failures"])
        ctx.fail(key=k, kind="bounded", what=f["what"], witness={k2: v for k2, v in case.items() if k2 != "id"}, replayed=replayed,
                 detail=f["detail"] | {"failing_clause_instances_total": n_fail})

    worst = {}
    for r in results:
        kind = by_id[r["id"]]["kind"]
        worst[kind] = max(worst.get(kind, 0.0), r["stats"]["max_err_over_tol"])
        for k2, v2 in r["stats"].items():
            if k2.startswith("max_err_over_tol_"):
                k3 = "response/" + k2[len("max_err_over_tol_"):] + "-integrator"
                worst[k3] = max(worst.get(k3, 0.0), v2)
    kinds = {k: sum(1 for c in cases if c["kind"] == k) for k in ("elasticity", "response", "mc")}
    ctx.add_bounded(
        name="C18-control-coefficients",
        tool="small-scope enumeration + sampling; sympy derivatives of the rate laws / closed-form steady states as oracle; icontract snapshot post-condition on the real _response_coefficient_worker",
        bound=f"{kinds['elasticity']} elasticity calls (power-law network with 6 rate laws x {len(ELAST_PARAMS)} parameter sets incl. negative rate constants and "
        f"negative / fractional kinetic orders x {len(ELAST_STATES)} states x variable/parameter x normalized/unscaled x variables given/default x displacements "
        f"{DISPLACEMENTS} x to_scan all/subset x time 0/2; 5 pathway networks), {kinds['response']} response-coefficient cases (5 pathways with closed-form steady states, "
        f"{sum(len(v) for v in RESP_PARAMS.values())} parameter sets, each run sequentially and in parallel), {kinds['mc']} Monte-Carlo wrapper calls",
        cases=len(cases),
        distinct_nontrivial=sum(1 for r in results if r["stats"]["nonzero_cells"] > 0),
        rule="one case per (network, parameter set, state, routine, normalized, variables given, displacement, to_scan); a response case runs the routine "
        "sequentially and in parallel; non-trivial = at least one non-zero analytic coefficient compared",
        exhaustive=False,
        samples=[{k: v for k, v in c.items() if k != "id"} for c in (cases[0], next(c for c in cases if c["kind"] == "response"))],
    )
    ctx.extra["C18"] = {
        "coefficients_compared": cells,
        "non_zero_analytic_coefficients_compared": nonzero,
        "max_error_over_tolerance_by_kind": worst,
        "worker_frame_contract_evaluations": evals,
        "failing_clause_instances": n_fail,
    }
    ctx.trust(
        "sympy.diff / lambdify(modules='math') for the analytic derivatives; python float pow/log",
        "icontract.snapshot / ensure evaluate around every wrapped call (evaluations counted)",
        "pebble / multiprocessing deliver results of the parallel runs unchanged",
    )
    ctx.assume(
        "A-C18 central differences: |(f(p(1+d)) - f(p(1-d)))/(2 d p) - f'(p)| <= (d p)^2/6 max|f'''| on the interval (evaluated at both ends and the "
        f"middle; power / exponential laws are monotone there) x 1.05, plus rounding {ROUND:g} |f| / (d |p|)",
        f"steady states of the fast pathways (slowest relaxation rate >= {MIN_RELAX}, checked at the closed-form steady state) are computed within {SS_ERR['default']:g} (1 + |y|) by the default integrator (its search runs lsoda at scipy's default rtol 1e-6) and within "
        f"{SS_ERR['accurate']:g} (1 + |y|) by the accurate integrator handed in through integrator= (solve_ivp LSODA rtol 1e-12 to t = 400), so a "
        "difference quotient of two of them is off by at most that / (d |p|); fluxes carry the concentration error times (1 + 4 |J| / min |y|); largest "
        f"error / allowed error observed in this run: {worst}",
        "states and parameter values are non-zero (relative displacements are undefined at 0) and states positive (real powers)",
        "sequential and parallel runs execute the same floating-point operations: results compared with rtol 1e-12",
    )


def replay(witness: dict) -> list[dict]:
    import mxlpy  # noqa: F401

    quiet()
    case = dict(witness)
    case.setdefault("id", 0)
    r = run_case(case)
    return [f | {"key": key_of(f)} for f in r["failures"]]


if __name__ == "__main__":  # python -m bounded.C18 replays/C18-<hash>.json
    import json
    import sys

    w = json.load(open(sys.argv[1]))
    out = replay(w.get("witness", w))
    print(json.dumps(out, indent=1, default=str))
    sys.exit(1 if out else 0)
