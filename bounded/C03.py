"""Bounded stand-in for C03 (labelled bounded, never counted as proved).

The same contract as the deductive part, checked at run time on the REAL Model:
for every history of public edits up to a stated length, interleaved with queries,
  (a) the edited model answers every query exactly like a model freshly built from
      its final content,
  (b) an edit that raises leaves ids and all containers unchanged,
  (c) ids == disjoint union of the container key sets (+ surrogate outputs).
Small-scope exhaustive enumeration over a fixed alphabet of operations.
"""
from __future__ import annotations

import copy
import itertools
import random

import pandas as pd

from vlib.core import Ctx, seed


def _ops():
    from mxlpy.surrogates.abstract import MockSurrogate
    from mxlpy.types import InitialAssignment

    def one(x):
        return x

    def two(x, y):
        return x * y

    def sur(x):
        return (2 * x, x + 1)

    S = lambda: MockSurrogate(fn=sur, args=["x"], outputs=["so1", "so2"], stoichiometries={"so1": {"x": -1.0}})  # noqa: E731
    return [
        ("add_parameter k2", lambda m: m.add_parameter("k2", 3.0)),
        ("add_parameter x (dup kind)", lambda m: m.add_parameter("x", 3.0)),
        ("update_parameter k", lambda m: m.update_parameter("k", 5.0)),
        ("update_parameter IA", lambda m: m.update_parameter("k", InitialAssignment(fn=one, args=["x"]))),
        ("scale_parameter k", lambda m: m.scale_parameter("k", 2.0)),
        ("remove_parameter k2", lambda m: m.remove_parameter("k2")),
        ("remove_parameter x (wrong kind)", lambda m: m.remove_parameter("x")),
        ("add_variable y", lambda m: m.add_variable("y", 2.0)),
        ("update_variable x", lambda m: m.update_variable("x", 4.0)),
        ("remove_variable y", lambda m: m.remove_variable("y")),
        ("remove_variable k (wrong kind)", lambda m: m.remove_variable("k")),
        ("make_variable_static y", lambda m: m.make_variable_static("y")),
        ("make_parameter_dynamic k2", lambda m: m.make_parameter_dynamic("k2", stoichiometries={"v": 1.0})),
        ("make_parameter_dynamic k2 bad rxn", lambda m: m.make_parameter_dynamic("k2", stoichiometries={"nope": 1.0})),
        ("add_derived d", lambda m: m.add_derived("d", two, args=["x", "k"])),
        ("update_derived d", lambda m: m.update_derived("d", one, args=["k"])),
        ("remove_derived d", lambda m: m.remove_derived("d")),
        ("add_reaction w", lambda m: m.add_reaction("w", two, args=["x", "k"], stoichiometry={"x": 1.0})),
        ("add_reaction w named coef", lambda m: m.add_reaction("w", one, args=["x"], stoichiometry={"x": "k"})),
        ("update_reaction v", lambda m: m.update_reaction("v", one, args=["x"], stoichiometry={"x": -2.0})),
        ("remove_reaction w", lambda m: m.remove_reaction("w")),
        ("add_readout r", lambda m: m.add_readout("r", one, args=["x"])),
        ("remove_readout r", lambda m: m.remove_readout("r")),
        ("add_surrogate s", lambda m: m.add_surrogate("s", S())),
        ("update_surrogate s outputs", lambda m: m.update_surrogate("s", outputs=["so3", "so4"], stoichiometries={"so3": {"x": -1.0}})),
        ("update_surrogate s args", lambda m: m.update_surrogate("s", args=["x"])),
        ("update_surrogate s outputs (name taken)", lambda m: m.update_surrogate("s", outputs=["so3", "k"])),
        ("update_surrogate s replaced", lambda m: m.update_surrogate(
            "s", surrogate=MockSurrogate(fn=sur, args=["x"], outputs=["so5", "so2"], stoichiometries={"so5": {"x": -1.0}}))),
        ("remove_surrogate s", lambda m: m.remove_surrogate("s")),
        ("add_parameter so1 (surrogate output name)", lambda m: m.add_parameter("so1", 1.0)),
        ("add_data dat", lambda m: m.add_data("dat", pd.Series({"a": 1.0}))),
        ("update_data dat", lambda m: m.update_data("dat", pd.Series({"a": 2.0}))),
        ("update_data unknown", lambda m: m.update_data("nodat", pd.Series({"a": 2.0}))),
        ("remove_data dat", lambda m: m.remove_data("dat")),
        ("add_parameter time", lambda m: m.add_parameter("time", 1.0)),
    ]


def _base():
    from mxlpy import Model

    def mass(x, k):
        return k * x

    m = Model().add_variable("x", 1.0).add_parameter("k", 2.0)
    m.add_reaction("v", mass, args=["x", "k"], stoichiometry={"x": -1.0})
    return m


def _content(m):
    return (
        dict(m._ids),
        {k: list(getattr(m, c)) for k, c in [("v", "_variables"), ("p", "_parameters"), ("d", "_derived"),
                                              ("ro", "_readouts"), ("rx", "_reactions"), ("s", "_surrogates"), ("dat", "_data")]},
    )


def _rebuild(m):
    """A freshly built model with the same content: deep copy with the cache dropped
    (the dataclass fields are the content; `_cache` is derived state)."""
    f = copy.deepcopy(m)
    f._cache = None
    return f


def _answers(m):
    out = {}
    for name, fn in [
        ("ids", lambda: sorted(m.ids.items())),
        ("get_args", lambda: m.get_args().to_dict()),
        ("rhs", lambda: m.get_right_hand_side().to_dict()),
        ("init", lambda: dict(m.get_initial_conditions())),
        ("pars", lambda: dict(m.get_parameter_values())),
        ("dpn", lambda: list(m.get_derived_parameter_names())),
        ("call", lambda: tuple(m(0.0, list(m.get_initial_conditions().values())))),
    ]:
        try:
            out[name] = fn()
        except Exception as e:  # noqa: BLE001
            out[name] = f"raises {type(e).__name__}"
    return out


def _ns_ok(m) -> str | None:
    ids = dict(m._ids)
    expect = {}
    for kind, cont in [("variable", m._variables), ("parameter", m._parameters), ("derived", m._derived),
                       ("readout", m._readouts), ("reaction", m._reactions), ("data", m._data)]:
        for k in cont:
            if k in expect:
                return f"name {k!r} in two containers"
            expect[k] = kind
    for k, s in m._surrogates.items():
        expect[k] = "surrogate"
        for o in s.outputs:
            expect[o] = "surrogate"
    if expect != ids:
        return f"ids {ids} != containers {expect}"
    return None


def run(ctx: Ctx) -> None:
    ops = _ops()
    depth = 2 if ctx.tier == "quick" else 3
    rng = random.Random(seed())
    seqs = list(itertools.product(range(len(ops)), repeat=depth))
    if ctx.tier != "quick":
        rng.shuffle(seqs)
        seqs = seqs[:6000]
    cases = 0
    nontrivial = set()
    samples = []
    for seq in seqs:
        for query_after in (None, 0):  # populate the cache before the history / after its first edit
            m = _base()
            if query_after is None:
                _answers(m)
            hist = []
            accepted = 0
            for i, oi in enumerate(seq):
                name, op = ops[oi]
                before = _content(m)
                try:
                    op(m)
                    hist.append(name)
                    accepted += 1
                except (KeyError, NameError) as e:
                    hist.append(f"{name} -> {type(e).__name__}")
                    if _content(m) != before:
                        ctx.fail(key=f"bounded:rejected-edit-changed-content:{name}", kind="bounded",
                                 what=f"rejected edit {name!r} changed the model", witness={"history": hist},
                                 replayed=True, detail={"before": repr(before), "after": repr(_content(m))})
                if i == query_after:
                    _answers(m)
                bad = _ns_ok(m)
                if bad:
                    ctx.fail(key=f"bounded:name-space:{name}", kind="bounded", what=f"name space broken after {name!r}: {bad}",
                             witness={"history": hist}, replayed=True)
            cases += 1
            if accepted:
                nontrivial.add(tuple(hist))
            got, want = _answers(m), _answers(_rebuild(m))
            if got != want:
                diff = {k: (got[k], want[k]) for k in got if got[k] != want[k]}
                last = next((h for h in reversed(hist) if "->" not in h), hist[-1])
                ctx.fail(key=f"bounded:stale-answers-after:{last}", kind="bounded",
                         what=f"edited model answers differ from a fresh model with equal content after {hist}",
                         witness={"history": hist, "query_populated_cache": "before" if query_after is None else "after first edit"},
                         replayed=True, detail={"diff": repr(diff)[:1500]})
            if len(samples) < 3:
                samples.append({"history": hist, "answers_equal_fresh": got == want})
    ctx.add_bounded(
        name="C03-histories", tool="small-scope enumeration with run-time contract on the real Model",
        bound=f"all histories of length {depth} over {len(ops)} operations x cache populated before/after first edit"
              + (" (exhaustive)" if ctx.tier == "quick" else " (random sample of 6000 sequences)"),
        cases=cases, distinct_nontrivial=len(nontrivial),
        rule="history = tuple of operation names incl. rejected ones; non-trivial if at least one edit was accepted",
        exhaustive=ctx.tier == "quick", samples=samples,
    )
