"""Bounded stand-in for C13 (labelled bounded, never counted as proved).

Property: initial assignments resolve once, at t = 0, from the declared initial
state, after everything they name; a derived quantity is a derived parameter
exactly when it depends through any chain only on parameters; derived parameters
and assignment-defined parameters keep their value for every supplied state and
time, every other derived quantity, flux and computed coefficient is recomputed
from the supplied state; Simulator(model).y0 is the resolved initial state.

The same contract as the deductive part (DESIGN section 5 "C13"), checked at run time
on the REAL Model / Simulator over enumerated small models:

  (a) get_initial_conditions() and the values of assignment-defined parameters equal
      a recursive evaluation at time 0 and the declared initial state;
  (b) get_derived_parameter_names() == {d : every transitive dependency of d is a
      parameter (plain, assignment-defined, derived parameter)}; derived variables
      are the rest;
  (c) get_args(state, t) for a supplied state: names of (b) and assignment-defined
      parameters keep their t=0 value, every other derived / flux / surrogate output
      / computed coefficient equals a recomputation from the supplied state and time
      (coefficients observed through get_stoichiometries_of_variable,
      get_stoichiometries, get_right_hand_side and model(t, y));
  (d) Simulator(model).y0 == resolved initial state (and a sampled short simulation
      starts there);
  (e) a computed coefficient is kept static only if it is parameter-only
      (run-time postcondition on Model._create_cache, attached with `deal`);
  (f) the same after re-declaring plain initial values / parameter values on a model
      that has already been evaluated ("declared" initial state = current
      declaration).

The oracle (class Oracle) is written from the property statement and works on the
case description only (never on anything the library computed).  The rate functions
are integer-affine and all declared values are small integers or halves, so every
value is exact in binary floating point; library and oracle call the very same
Python function on the same floats, hence exact comparison is justified (a relative
1e-9 is allowed only for the right-hand-side sums, whose summation order differs).
"""
from __future__ import annotations

import hashlib
import itertools
import json
import logging
import os
import pickle
import random
import subprocess
import sys
import threading
import time

from vlib.core import CheckerError, Ctx, seed

# ---------------------------------------------------------------------------
# the fixed function vocabulary (pure, total, injective in every argument)


def c0():
    return 7.0


def a1(a):
    return 2.0 * a + 1.0


def a2(a, b):
    return 2.0 * a + 3.0 * b + 1.0


def q0():
    return 4.0


def q1(a):
    return 3.0 * a + 2.0


def q2(a, b):
    return a + 2.0 * b + 3.0


def ident(a):
    return a


def s0():
    return (4.0, 9.0)


def s1(a):
    return (2.0 * a + 3.0, 5.0 * a + 1.0)


def s2(a, b):
    return (a + 2.0 * b + 3.0, 5.0 * a + b + 1.0)


RATE = {0: c0, 1: a1, 2: a2}  # initial assignments, derived, reaction rates
COEF = {0: q0, 1: q1, 2: q2}  # computed stoichiometric coefficients
SUR = {0: s0, 1: s1, 2: s2}  # two-output surrogates
LEGEND = (
    "rate/derived/assignment fn by arity: c0()=7, a1(a)=2a+1, a2(a,b)=2a+3b+1; "
    "computed coefficient by arity: q0()=4, q1(a)=3a+2, q2(a,b)=a+2b+3; coefficient given as a "
    "string = value of that name; surrogate by arity: s0()=(4,9), s1(a)=(2a+3,5a+1), s2(a,b)=(a+2b+3,5a+b+1)"
)

# A case ("decl") is a list of component declarations in declaration order:
#   ["P",  name, value]                         plain parameter
#   ["PA", name, [args]]                        parameter defined by an initial assignment
#   ["V",  name, value]                         variable with a plain initial value
#   ["VA", name, [args]]                        variable initialised by an initial assignment
#   ["D",  name, [args]]                        derived quantity
#   ["R",  name, [args], [[cpd, coef], ...]]    reaction; coef = number | "name" | [args] (Derived)
#   ["S",  name, [args], [out1, out2], [[out, cpd, coef], ...]]   MockSurrogate


class Cyclic(Exception):
    pass


class Oracle:
    """Independent evaluation of a case, straight from the property statement."""

    def __init__(self, decl):
        self.cls = {"time": "T"}
        self.plain = {}
        self.fn = {}  # name -> (callable, args, output index | None)
        self.coefs = []  # (cpd, flux, coef)
        self.vars, self.params, self.derived, self.fluxes, self.sur_aux = [], [], [], [], []
        for c in decl:
            k, n = c[0], c[1]
            if k in ("P", "V"):
                self.cls[n] = k
                self.plain[n] = float(c[2])
            elif k in ("PA", "VA", "D"):
                self.cls[n] = k
                self.fn[n] = (RATE.get(len(c[2])), tuple(c[2]), None)
            elif k == "R":
                self.cls[n] = "R"
                self.fn[n] = (RATE.get(len(c[2])), tuple(c[2]), None)
                self.fluxes.append(n)
                for cpd, coef in c[3]:
                    self.coefs.append((cpd, n, coef))
            elif k == "S":
                flux_outs = {o for o, _, _ in c[4]}
                for i, o in enumerate(c[3]):
                    self.cls[o] = "S" if o in flux_outs else "SA"
                    self.fn[o] = (SUR.get(len(c[2])), tuple(c[2]), i)
                    (self.fluxes if o in flux_outs else self.sur_aux).append(o)
                for o, cpd, coef in c[4]:
                    self.coefs.append((cpd, o, coef))
            if k in ("P", "PA"):
                self.params.append(n)
            elif k in ("V", "VA"):
                self.vars.append(n)
            elif k == "D":
                self.derived.append(n)
        self._m0 = {}
        self._po = {}

    # -- t = 0, declared initial state ---------------------------------
    def eval0(self, n, stack=()):
        if n in self._m0:
            return self._m0[n]
        c = self.cls[n]
        if c == "T":
            v = 0.0
        elif c in ("P", "V"):
            v = self.plain[n]
        else:
            if n in stack:
                raise Cyclic(n)
            fn, args, i = self.fn[n]
            r = fn(*[self.eval0(a, stack + (n,)) for a in args])
            v = r if i is None else r[i]
        self._m0[n] = v
        return v

    # -- "depends, through any chain, only on parameters" -------------
    def param_only(self, n):
        if n in self._po:
            return self._po[n]
        c = self.cls[n]
        if c in ("P", "PA"):
            r = True
        elif c == "D":
            r = all(self.param_only(a) for a in self.fn[n][1])
        else:  # time, variables, reactions, surrogate outputs
            r = False
        self._po[n] = r
        return r

    def coef_param_only(self, coef):
        if isinstance(coef, str):
            return self.param_only(coef)
        if isinstance(coef, (list, tuple)):
            return all(self.param_only(a) for a in coef)
        return True

    # -- value at a supplied state and time ----------------------------
    def value(self, n, state, t, memo):
        if n in memo:
            return memo[n]
        c = self.cls[n]
        if c == "T":
            v = float(t)
        elif c in ("V", "VA"):
            v = state[n]
        elif c == "P":
            v = self.plain[n]
        elif c == "PA" or (c == "D" and self.param_only(n)):
            v = self.eval0(n)  # keeps its value for every state and time
        else:
            fn, args, i = self.fn[n]
            r = fn(*[self.value(a, state, t, memo) for a in args])
            v = r if i is None else r[i]
        memo[n] = v
        return v

    def coef_value(self, coef, state, t, memo):
        if isinstance(coef, str):
            return self.value(coef, state, t, memo)
        if isinstance(coef, (list, tuple)):
            return COEF[len(coef)](*[self.value(a, state, t, memo) for a in coef])
        return float(coef)

    def all_args(self, state, t):
        memo = {}
        names = ["time", *self.vars, *self.params, *self.derived, *self.fluxes, *self.sur_aux]
        return {n: self.value(n, state, t, memo) for n in names}, memo

    def init(self):
        return {v: self.eval0(v) for v in self.vars}

    # -- describing a name for failure keys ----------------------------
    def sig(self, args):
        return "+".join(sorted({self.cls[a] for a in args})) or "none"

    def reach(self, n, seen=None):
        """classes of the leaves reached through any chain of derived quantities."""
        seen = set() if seen is None else seen
        out = set()
        for a in self.fn.get(n, (None, (), None))[1]:
            if a in seen:
                continue
            seen.add(a)
            c = self.cls[a]
            out.add(c)
            if c == "D":  # everything else is a leaf for the classification
                out |= self.reach(a, seen)
        return out

    def describe(self, n):
        """coarse, deterministic class of a name for failure keys: kind + whether it names computed quantities."""
        c = self.cls[n]
        if n in self.fn:
            comp = any(self.cls[a] in ("PA", "VA", "D", "R", "S", "SA") for a in self.fn[n][1])
            return f"{c}[{'chained' if comp else 'direct'}]"
        return c

    def state_reach(self, n):
        """non-parameter leaves reached through any chain (what makes a derived quantity a derived variable)."""
        return "+".join(sorted(self.reach(n) - {"P", "PA", "D"})) or "none"

    def chained(self):
        """non-trivial: some assignment / derived / coefficient names something that is itself computed."""
        comp = {"PA", "VA", "D", "R", "S", "SA"}
        for n, (_, args, _) in self.fn.items():
            if self.cls[n] in ("PA", "VA", "D") and any(self.cls[a] in comp for a in args):
                return True
        for _, _, coef in self.coefs:
            names = [coef] if isinstance(coef, str) else coef if isinstance(coef, (list, tuple)) else []
            if any(self.cls[a] in comp for a in names):
                return True
        return False


def acyclic(decl):
    try:
        o = Oracle(decl)
        for n in o.fn:
            o.eval0(n)
    except Cyclic:
        return False
    return True


# ---------------------------------------------------------------------------
# building the real model


def build(decl):
    from mxlpy import Derived, InitialAssignment, Model
    from mxlpy.surrogates.abstract import MockSurrogate

    def cf(coef):
        if isinstance(coef, (list, tuple)):
            return Derived(fn=COEF[len(coef)], args=list(coef))
        return coef  # number, or a string (the library turns it into Derived(constant, [name]))

    m = Model()
    for c in decl:
        k, n = c[0], c[1]
        if k == "P":
            m.add_parameter(n, float(c[2]))
        elif k == "PA":
            m.add_parameter(n, InitialAssignment(fn=RATE[len(c[2])], args=list(c[2])))
        elif k == "V":
            m.add_variable(n, float(c[2]))
        elif k == "VA":
            m.add_variable(n, InitialAssignment(fn=RATE[len(c[2])], args=list(c[2])))
        elif k == "D":
            m.add_derived(n, RATE[len(c[2])], args=list(c[2]))
        elif k == "R":
            m.add_reaction(n, RATE[len(c[2])], args=list(c[2]), stoichiometry={cpd: cf(co) for cpd, co in c[3]})
        elif k == "S":
            st: dict = {}
            for o, cpd, co in c[4]:  # surrogate stoichiometries take float | Derived only: a name becomes Derived(ident, [name])
                st.setdefault(o, {})[cpd] = Derived(fn=ident, args=[co]) if isinstance(co, str) else cf(co)
            m.add_surrogate(n, MockSurrogate(fn=SUR[len(c[2])], args=list(c[2]), outputs=list(c[3]), stoichiometries=st))
    return m


# ---------------------------------------------------------------------------
# run-time contract on the real Model._create_cache (clause e + a), attached with deal

_CONTRACT = {"calls": 0, "evals": 0, "installed": False}


def _content_decl(model):
    """Case description read back from the model's declared CONTENT (never its cache)."""
    from mxlpy.types import Derived, InitialAssignment

    def args_of(el):
        return list(el.args)

    def co(f):
        return ("__derived__", f.fn, list(f.args)) if isinstance(f, Derived) else float(f)

    decl = []
    for n, p in model._parameters.items():  # noqa: SLF001
        decl.append(("PA", n, p.value.fn, args_of(p.value)) if isinstance(p.value, InitialAssignment) else ("P", n, p.value))
    for n, v in model._variables.items():  # noqa: SLF001
        iv = v.initial_value
        decl.append(("VA", n, iv.fn, args_of(iv)) if isinstance(iv, InitialAssignment) else ("V", n, iv))
    for n, d in model._derived.items():  # noqa: SLF001
        decl.append(("D", n, d.fn, args_of(d)))
    for n, r in model._reactions.items():  # noqa: SLF001
        decl.append(("R", n, r.fn, args_of(r), [(cpd, co(f)) for cpd, f in r.stoichiometry.items()]))
    for n, s in model._surrogates.items():  # noqa: SLF001
        decl.append(("S", n, s.fn, args_of(s), list(s.outputs),
                     [(o, cpd, co(f)) for o, st in s.stoichiometries.items() for cpd, f in st.items()]))
    return decl


class _ContentOracle(Oracle):
    """Same definitions as Oracle, but the functions come from the model content."""

    def __init__(self, cdecl):
        norm = []
        fns = {}
        for c in cdecl:
            k, n = c[0], c[1]
            if k in ("P", "V"):
                norm.append([k, n, c[2]])
            elif k in ("PA", "VA", "D"):
                norm.append([k, n, c[3]])
                fns[n] = c[2]
            elif k == "R":
                norm.append([k, n, c[3], [[cpd, 0.0] for cpd, _ in c[4]]])
                fns[n] = c[2]
            else:
                norm.append([k, n, c[3], c[4], [[o, cpd, 0.0] for o, cpd, _ in c[5]]])
                for o in c[4]:
                    fns[o] = c[2]
        super().__init__([c for c in norm])
        for n, f in fns.items():
            _, args, i = self.fn[n]
            self.fn[n] = (f, args, i)
        self.raw_coefs = []
        for c in cdecl:
            if c[0] == "R":
                self.raw_coefs += [(cpd, c[1], f) for cpd, f in c[4]]
            elif c[0] == "S":
                self.raw_coefs += [(cpd, o, f) for o, cpd, f in c[5]]


def _cache_post(self, result):
    """Postcondition of Model._create_cache (what the property needs from it)."""
    _CONTRACT["evals"] += 1
    try:
        o = _ContentOracle(_content_decl(self))
        init = o.init()
    except (Cyclic, KeyError, AttributeError):
        return True  # cyclic / dangling names / data sets / non-mock surrogates: outside this stand-in's scope
    got = getattr(result, "initial_conditions", None)
    if got is not None and dict(got) != init:
        return f"initial-conditions: cache {dict(got)} != evaluation at t=0 of the declared state {init}"
    frozen = getattr(result, "all_parameter_values", None)
    if frozen is not None:
        for n in o.params:
            if n not in frozen or frozen[n] != o.eval0(n):
                return f"parameter-value: {n} frozen as {frozen.get(n)!r}, t=0 value {o.eval0(n)}"
        for n in o.derived:
            if n in frozen and not o.param_only(n):
                return f"frozen-derived-not-parameter-only: {n} ({o.describe(n)})"
            if n in frozen and frozen[n] != o.eval0(n):
                return f"derived-parameter-value: {n} frozen as {frozen[n]!r}, t=0 value {o.eval0(n)}"
            if n not in frozen and o.param_only(n):
                return f"parameter-only-derived-not-frozen: {n} ({o.describe(n)})"
    static = getattr(result, "stoich_by_cpds", None)
    dyn = getattr(result, "dyn_stoich_by_cpds", None)
    if static is not None and dyn is not None:
        for cpd, flux, f in o.raw_coefs:
            if isinstance(f, tuple):  # computed coefficient
                po = all(o.param_only(a) for a in f[2])
                is_static = flux in static.get(cpd, {}) and flux not in dyn.get(cpd, {})
                if is_static and not po:
                    return f"static-coefficient-not-parameter-only: {cpd}/{flux} args={o.sig(f[2])}"
    return True


def install_contract():
    if _CONTRACT["installed"]:
        return
    import deal
    from mxlpy.model import Model

    checked = deal.ensure(_cache_post)(Model._create_cache)  # noqa: SLF001

    def _create_cache(self):
        _CONTRACT["calls"] += 1  # counted on entry, so that a bypassed wrapper is noticed even if the body raises
        return checked(self)

    Model._create_cache = _create_cache  # noqa: SLF001
    _CONTRACT["installed"] = True


# ---------------------------------------------------------------------------
# checking one case on the real code


def _eq(a, b, tol=0.0):
    try:
        a, b = float(a), float(b)
    except (TypeError, ValueError):
        return False
    if a == b:
        return True
    return tol > 0 and abs(a - b) <= tol * max(1.0, abs(a), abs(b))


def states_for(o, n):
    """n supplied (state, time) pairs; all different from the declared initial state."""
    vs = o.vars
    s1 = {v: [11.0, 13.0, 17.0][i % 3] for i, v in enumerate(vs)}
    s2 = {v: [-4.0, 0.5, 6.0][i % 3] for i, v in enumerate(reversed(vs))}  # other key order, time 0
    s3 = dict(o.init())  # the initial state itself, later time
    return [(s1, 3.0), (s2, 0.0), (s3, 5.0)][:n]


def _with_alarm(sec, f):
    import signal

    def h(*_a):
        raise TimeoutError

    try:
        old = signal.signal(signal.SIGALRM, h)
    except ValueError:  # not in the main thread
        return f()
    signal.setitimer(signal.ITIMER_REAL, sec)
    try:
        return f()
    finally:
        signal.setitimer(signal.ITIMER_REAL, 0)
        signal.signal(signal.SIGALRM, old)


SIMS = {"n": 0}


class Case:
    def __init__(self, decl, out, phase=""):
        self.decl, self.out, self.phase = decl, out, phase

    @property
    def sims(self):
        return SIMS["n"]

    @sims.setter
    def sims(self, v):
        SIMS["n"] = v

    def fail(self, key, what, **detail):
        self.out.append({"key": f"bounded:{self.phase}{key}", "what": what, "decl": self.decl, "detail": detail})


def _fast_args(m, state, t):
    """get_args without the pandas round trip (what get_args itself calls); None if the internals moved."""
    try:
        cache = m._cache if m._cache is not None else m._create_cache()  # noqa: SLF001
        return dict(m._get_args(variables=dict(state), time=t, cache=cache))  # noqa: SLF001
    except (AttributeError, TypeError):
        return None


def check_model(m, decl, out, *, light=False, phase="", do_sim=False, simulator=True):
    """All clauses on an already built model `m` whose current declaration is `decl`.

    full : public get_args / get_stoichiometries_of_variable / get_right_hand_side at the default state and one
           supplied state, get_stoichiometries at the supplied state, the cheap entry points (model(t, y), the dict
           form of get_args) at two more supplied states.
    light: cheap entry points only, default state and one supplied state (used for the bulk of declaration orders)."""
    import deal

    o = Oracle(decl)
    c = Case(decl, out, phase)
    init = o.init()

    def guarded(label, f):
        try:
            return True, f()
        except deal.PostContractError as e:
            msg = str(e.args[0] if e.args else e)
            c.fail(f"create-cache-post:{msg.split(':')[0]}", f"postcondition of Model._create_cache violated: {msg}")
            try:  # the cache was stored before the postcondition fired: go on with the behavioural clauses
                return True, f()
            except Exception:  # noqa: BLE001
                pass
        except Exception as e:  # noqa: BLE001
            c.fail(f"raises:{label}:{type(e).__name__}", f"{label} raised {type(e).__name__}: {e}")
        return False, None

    # (a) initial conditions
    ok, got = guarded("get_initial_conditions", lambda: dict(m.get_initial_conditions()))
    if not ok:
        return
    if set(got) != set(init):
        c.fail("initial-conditions:names", f"initial conditions for {sorted(got)} expected {sorted(init)}")
    for v in init:
        if v in got and not _eq(got[v], init[v]):
            c.fail(f"initial-value:{o.describe(v)}",
                   f"initial value of {v} is {got[v]}, evaluation at t=0 from the declared initial state gives {init[v]}",
                   got=got, expected=init)

    # (d) Simulator default start
    from mxlpy import Simulator

    ok, sim = guarded("Simulator", lambda: Simulator(m)) if simulator else (False, None)
    if ok:
        y0 = dict(sim.y0)
        if y0 != init:
            c.fail("simulator-y0", f"Simulator(model).y0 = {y0}, resolved initial state {init}", got=y0, expected=init)
        # a short simulation starts there (only for linear right-hand sides: with a state-dependent coefficient the
        # system is quadratic and may blow up in finite time, which is not this property's business)
        if do_sim and init and all(o.coef_param_only(co) for _, _, co in o.coefs):
            try:
                res = _with_alarm(3.0, lambda: sim.simulate(1e-4, steps=2).get_result().unwrap_or_err())
                first = res.variables.iloc[0].to_dict()
                if any(not _eq(first[v], init[v], 1e-12) for v in init):
                    c.fail("simulation-start", f"simulation starts at {first}, resolved initial state {init}")
                c.sims += 1
            except Exception:  # noqa: BLE001  integration problems are not this property
                pass

    # (b) classification
    ok, names = guarded("get_derived_*_names", lambda: (list(m.get_derived_parameter_names()), list(m.get_derived_variable_names())))
    if ok:
        dp, dv = names
        for d in o.derived:
            want = "parameter" if o.param_only(d) else "variable"
            got_cls = "+".join(x for x, lst in (("parameter", dp), ("variable", dv)) if d in lst) or "neither"
            if got_cls != want:
                c.fail(f"classify:reported={got_cls}:reaches={o.state_reach(d)}",
                       f"derived {d} reported as derived {got_cls}, depends only on parameters: {o.param_only(d)}",
                       derived_parameters=dp, derived_variables=dv)
        extra = [x for x in dp + dv if x not in o.derived]
        if extra or len(dp + dv) != len(set(dp + dv)):
            c.fail("classify:names", f"derived parameter/variable names {dp} / {dv} do not partition {o.derived}")

    # (c) supplied states
    pts = [(None, 0.0), *states_for(o, 1 if light else 3)]
    for si, (state, t) in enumerate(pts):
        st = init if state is None else state
        want, memo = o.all_args(st, t)
        public = not light and si <= 1
        ok, got = False, None
        if not public:
            got = _fast_args(m, st, t)
            ok = got is not None
            public = not ok
        if not ok:
            ok, got = guarded("get_args", lambda: (m.get_args() if state is None else m.get_args(dict(state), time=t)).to_dict())  # noqa: B023
        if ok:
            if public and set(got) != set(want):
                c.fail("get-args:names", f"get_args names {sorted(got)} expected {sorted(want)}")
            bad = {n for n, w in want.items() if n in got and not _eq(got[n], w)}
            missing = [n for n in want if n not in got]
            if missing and not (public and set(got) != set(want)):
                c.fail("get-args:names", f"get_args lacks {missing}")
            for n in sorted(bad):
                w = want[n]
                cl = o.cls[n]
                frozen = cl == "PA" or (cl == "D" and o.param_only(n))
                args = o.fn[n][1] if n in o.fn else ()
                # report where the error originates, not what merely inherits it
                if frozen and any(a in bad and o.cls[a] in ("PA", "D") for a in args):
                    continue
                if not frozen and any(a in bad for a in args):
                    continue
                if frozen:
                    c.fail(f"frozen-value:{o.describe(n)}",
                           f"{n} must have its t=0 value {w} (declared initial state) for every state and time, get_args gives {got[n]}",
                           state=state, time=t, got=got, expected=want)
                elif cl in ("D", "R", "S", "SA"):
                    how = "kept-t0-value" if _eq(got[n], o.eval0(n)) else "wrong-value"
                    c.fail(f"not-recomputed:{o.describe(n)}:{how}",
                           f"{n} must be recomputed from the supplied state: expected {w}, get_args gives {got[n]}",
                           state=state, time=t, got=got, expected=want)
                else:
                    c.fail(f"get-args:{cl}", f"{n} expected {w}, get_args gives {got[n]}", state=state, time=t, got=got, expected=want)
        else:
            bad = set(want)
        n_before_coef = len(out)

        # computed coefficients
        by_cpd: dict = {}
        for cpd, flux, coef in o.coefs:
            by_cpd.setdefault(cpd, {})[flux] = (coef, o.coef_value(coef, st, t, memo))

        def coef_fail(cpd, flux, gotv, src):
            coef, w = by_cpd[cpd][flux]
            args = [coef] if isinstance(coef, str) else list(coef) if isinstance(coef, (list, tuple)) else []
            if any(a in bad for a in args):
                return  # inherits an error already reported at its origin
            kind = "numeric" if not args else ("parameter-only" if o.coef_param_only(coef) else "state-dependent")
            how = "kept-t0-value" if args and gotv is not None and _eq(gotv, o.coef_value(coef, init, 0.0, {})) else "wrong-value"
            c.fail(f"coefficient:{kind}(args={o.sig(args)}):{how}",
                   f"coefficient of {flux} on {cpd}: {src} gives {gotv}, recomputation from the supplied state gives {w}",
                   state=state, time=t, coefficient=coef)

        for cpd in by_cpd:
            if cpd not in o.vars or not public:
                continue
            kw = {} if state is None else {"variables": dict(state), "time": t}
            ok, got = guarded("get_stoichiometries_of_variable", lambda: dict(m.get_stoichiometries_of_variable(cpd, **kw)))  # noqa: B023
            if ok:
                for flux, (_, w) in by_cpd[cpd].items():
                    if not _eq(got.get(flux), w):
                        coef_fail(cpd, flux, got.get(flux), "get_stoichiometries_of_variable")
        if public and si == 1 and by_cpd:
            ok, df = guarded("get_stoichiometries", lambda: m.get_stoichiometries(dict(state), time=t))  # noqa: B023
            if ok:
                for cpd in by_cpd:
                    for flux, (_, w) in by_cpd[cpd].items():
                        try:
                            g = float(df.loc[cpd, flux])
                        except Exception:  # noqa: BLE001
                            g = None
                        if not _eq(g, w):
                            coef_fail(cpd, flux, g, "get_stoichiometries")

        # derivatives = sum coefficient x flux with recomputed coefficients
        # (reported only when every value and coefficient above was right, i.e. when this is where the error shows first)
        if all(cpd in o.vars for cpd in by_cpd) and not bad and len(out) == n_before_coef:
            rhs = dict.fromkeys(o.vars, 0.0)
            for cpd, d in by_cpd.items():
                for flux, (_, w) in d.items():
                    rhs[cpd] += w * memo[flux]
            ok, got = guarded("__call__", lambda: tuple(m(t, [st[v] for v in o.vars])))  # noqa: B023
            if ok and any(not _eq(g, rhs[v], 1e-9) for g, v in zip(got, o.vars)):
                c.fail("rhs:__call__", f"model(t, y) = {got}, expected {rhs} from recomputed coefficients and fluxes",
                       state=state, time=t)
            if public:
                ok, got = guarded("get_right_hand_side", lambda: (m.get_right_hand_side() if state is None else m.get_right_hand_side(dict(state), time=t)).to_dict())  # noqa: B023
                if ok and any(not _eq(got.get(v), rhs[v], 1e-9) for v in o.vars):
                    c.fail("rhs:get_right_hand_side", f"get_right_hand_side = {got}, expected {rhs}", state=state, time=t)


def redeclared(decl):
    """Re-declare every plain initial value / parameter value (history step of clause f)."""
    new, edits = [], []
    for c in decl:
        if c[0] in ("P", "V"):
            nv = float(c[2]) + (10.0 if c[0] == "V" else 20.0)
            new.append([c[0], c[1], nv])
            edits.append((c[0], c[1], nv))
        else:
            new.append(c)
    return new, edits


def check_case(decl, *, light=False, redeclare=True, do_sim=False):
    """Build the real model for `decl`, check all clauses; returns a list of failures."""
    out: list = []
    try:
        m = build(decl)
    except Exception as e:  # noqa: BLE001
        out.append({"key": f"bounded:build-raises:{type(e).__name__}", "what": f"building the model raised {e}", "decl": decl, "detail": {}})
        return out
    check_model(m, decl, out, light=light, do_sim=do_sim)
    if redeclare:
        new, edits = redeclared(decl)
        if edits:
            try:
                vs = {n: v for k, n, v in edits if k == "V"}
                ps = [(n, v) for k, n, v in edits if k == "P"]
                if len(vs) > 1:
                    m.update_variables(vs)
                elif vs:
                    (n, v), = vs.items()
                    m.update_variable(n, v)
                for n, v in ps:
                    m.update_parameter(n, v)
            except Exception as e:  # noqa: BLE001
                out.append({"key": f"bounded:redeclare-raises:{type(e).__name__}", "what": f"update raised {e}", "decl": decl, "detail": {}})
                return out
            n0 = len(out)
            check_model(m, new, out, light=True, phase="after-redeclare:", simulator=not light)
            for f in out[n0:]:
                f["decl"] = decl
                f["detail"]["redeclared_after_first_evaluation"] = edits
    return out


# ---------------------------------------------------------------------------
# enumeration


def _arg_choices(pool, arities):
    for a in arities:
        yield from (list(t) for t in itertools.product(pool, repeat=a))


def _coef_choices(pool, modes):
    for md in modes:
        if md == "num":
            yield -1.0
        elif md == "name":
            yield from pool
        else:
            yield from (list(t) for t in itertools.product(pool, repeat=md))


def enum_family(fam):
    """All acyclic models of a family.  A family is a list of templates:
       ("P", name, value) | ("V", name, value, ia_arities) | ("PA", name, arities, optional)
       | ("D", name, arities, optional) | ("R", name, arities, cpd, coef_modes, optional)
       | ("S", name, arities, (o1, o2), flux_outs, cpd, coef_modes, optional)."""
    # stage 1: which components are present / in which mode
    modes = []
    for tp in fam:
        k = tp[0]
        if k == "P":
            modes.append([("P",)])
        elif k == "V":
            modes.append([("V",)] + ([("VA",)] if tp[3] else []))
        else:
            modes.append([("on",)] + ([("off",)] if tp[-1] else []))
    for md in itertools.product(*modes):
        present = [(tp, m_[0]) for tp, m_ in zip(fam, md) if m_[0] != "off"]
        pool = ["time"]
        for tp, _ in present:
            pool += list(tp[3]) if tp[0] == "S" else [tp[1]]
        slots = []
        for tp, mode in present:
            k, n = tp[0], tp[1]
            if mode == "P" or mode == "V":
                slots.append([[k, n, tp[2]]])
            elif mode == "VA":
                slots.append([["VA", n, a] for a in _arg_choices([x for x in pool if x != n], tp[3])])
            elif k in ("PA", "D"):
                slots.append([[k, n, a] for a in _arg_choices([x for x in pool if x != n], tp[2])])
            elif k == "R":
                slots.append([["R", n, a, [[tp[3], co]]]
                              for a in _arg_choices([x for x in pool if x != n], tp[2])
                              for co in _coef_choices(pool, tp[4])])
            elif k == "S":
                inner = [x for x in pool if x not in tp[3]]
                slots.append([["S", n, a, list(tp[3]), [[o, tp[5], co] for o in tp[4]]]
                              for a in _arg_choices(inner, tp[2])
                              for co in _coef_choices(pool, tp[6])])
        for combo in itertools.product(*slots):
            decl = [list(c) for c in combo]
            if acyclic(decl):
                yield decl


def families(tier):
    """name -> (templates, stride, all_orders_max).  stride > 1 keeps every stride-th model of the family; every
    declaration order is tried for models with <= all_orders_max components, a fixed + seeded selection otherwise."""
    q = tier == "quick"
    k, x, y = ("P", "k", 2.0), ("V", "x", 5.0, None), ("V", "y", 6.0, None)
    xa = ("V", "x", 5.0, [1])
    fams = {
        # every arity-1 pattern, assignment on the variable and/or a parameter, one derived, one reaction with
        # numeric / named / computed coefficient
        "E0": ([k, xa, ("PA", "p", [1], True), ("D", "d1", [1], False),
                ("R", "v1", [1], "x", ["num", "name", 1], False)], 1, 4 if q else 5),
        # chains through two derived quantities and an assignment-defined parameter (arity 0/1/2 on one derived)
        "E1": ([k, x, ("PA", "p", [1], False), ("D", "d1", [0, 1, 2], False), ("D", "d2", [1], False),
                ("R", "v1", [1], "x", ["num", 1], True)], 12 if q else 1, 4),
        # two-output surrogate (one flux, one auxiliary output) feeding derived quantities and assignments
        "E2": ([k, xa, ("PA", "p", [1], True), ("D", "d1", [1], False),
                ("S", "s", [1], ("so1", "so2"), ("so1",), "x", ["num", 1], False)], 3 if q else 1, 4 if q else 5),
        # two variables, assignments chained through each other and through a rate of arity 1 or 2
        "E3": ([k, xa, ("V", "y", 6.0, [1]), ("PA", "p", [1], True),
                ("R", "v1", [1, 2], "y", ["num"], False)], 1, 4 if q else 5),
    }
    if not q:
        # three derived quantities in a chain, two variables
        fams["E4"] = ([k, xa, y, ("D", "d1", [1], False), ("D", "d2", [1], False), ("D", "d3", [1], False),
                       ("R", "v1", [1], "x", ["num", 1], False)], 2, 4)
        # binary patterns everywhere
        fams["E5"] = ([k, ("V", "x", 5.0, [1, 2]), ("D", "d1", [2], False), ("R", "v1", [1], "x", [2], False)], 1, 3)
        # surrogate of arity 1/2 with numeric / named / computed coefficient and two derived quantities
        fams["E6"] = ([k, x, ("D", "d1", [1], False), ("D", "d2", [1], False),
                       ("S", "s", [1, 2], ("so1", "so2"), ("so1",), "x", ["num", "name", 1], False)], 1, 4)
    return fams


def orders_for(decl, idx, tier, rng_seed, all_max):
    n = len(decl)
    ident = list(range(n))
    if n <= all_max:
        return [list(p) for p in itertools.permutations(ident)], True
    rng = random.Random(rng_seed * 1000003 + idx)
    out = [ident, ident[::-1]]
    for _ in range(2 if tier == "quick" else 4):
        p = ident[:]
        rng.shuffle(p)
        if p not in out:
            out.append(p)
    return out, False


def random_model(rng):
    """One acyclic model inside the full bound: <= 2 plain parameters, <= 2 assignment-defined parameters,
    <= 2 variables, <= 3 derived, <= 2 reactions, optional 2-output surrogate; random declaration order."""
    vals = [1.0, 2.0, 3.0, 5.0, 0.5, -2.0]
    plain_p = [f"k{i + 1}" for i in range(rng.randint(0, 2))]
    ia_p = [f"p{i + 1}" for i in range(rng.randint(0, 2))]
    vars_ = ["x", "y"][: rng.randint(1, 2)]
    ia_v = [v for v in vars_ if rng.random() < 0.5]
    der = [f"d{i + 1}" for i in range(rng.randint(0, 3))]
    rxn = [f"v{i + 1}" for i in range(rng.randint(0, 2))]
    sur = rng.random() < 0.35
    decl = [["P", n, rng.choice(vals)] for n in plain_p] + [["V", n, rng.choice(vals)] for n in vars_ if n not in ia_v]
    avail = ["time", *plain_p, *[v for v in vars_ if v not in ia_v]]
    dep = [("PA", n) for n in ia_p] + [("VA", n) for n in ia_v] + [("D", n) for n in der] + [("R", n) for n in rxn]
    if sur:
        dep.append(("S", "s"))
    rng.shuffle(dep)  # priority: an element may only name what comes earlier -> acyclic, and every acyclic model is reachable
    pool_all = ["time", *plain_p, *ia_p, *vars_, *der, *rxn, *(["so1", "so2"] if sur else [])]

    def coef():
        r = rng.random()
        if r < 0.3:
            return rng.choice([-1.0, 1.0, 2.0])
        if r < 0.45:
            return rng.choice(pool_all)
        return [rng.choice(pool_all) for _ in range(rng.choice([1, 1, 2]))]

    for k, n in dep:
        ar = rng.choice([0, 1, 1, 1, 2, 2]) if k == "D" else rng.choice([1, 1, 2])
        # prefer recently defined names so that chains get long
        args = [avail[-1 - min(int(rng.expovariate(0.6)), len(avail) - 1)] if rng.random() < 0.6 else rng.choice(avail) for _ in range(ar)]
        if k == "R":
            cpds = rng.sample(vars_, rng.randint(1, len(vars_)))
            decl.append(["R", n, args, [[c, coef()] for c in cpds]])
            avail.append(n)
        elif k == "S":
            fl = rng.choice([["so1"], ["so1", "so2"], ["so2"], []])
            decl.append(["S", n, args, ["so1", "so2"], [[o, rng.choice(vars_), coef()] for o in fl]])
            avail += ["so1", "so2"]
        else:
            decl.append([k, n, args])
            avail.append(n)
    rng.shuffle(decl)
    return decl


def _canon(decl):
    return json.dumps(decl, separators=(",", ":"))


# ---------------------------------------------------------------------------
# worker


def _quiet():
    logging.disable(logging.CRITICAL)
    os.environ.setdefault("TQDM_DISABLE", "1")
    import warnings

    warnings.filterwarnings("ignore")


def _work(job):
    tier, shard, nshards, sd, n_random = job
    _quiet()
    install_contract()
    stats = {"cases": 0, "nontrivial": 0, "by_family": {}, "models": 0, "all_orders_models": 0, "sim": 0}
    fails: dict = {}
    samples = []
    rnd_hashes = []

    def record(fs):
        for f in fs:
            e = fails.setdefault(f["key"], {"n": 0, "first": f})
            e["n"] += 1
            if len(_canon(f["decl"])) < len(_canon(e["first"]["decl"])):
                e["first"] = f

    def one(fam, decl, *, full, sim=False):
        o = Oracle(decl)
        fs = check_case(decl, light=not full, redeclare=True, do_sim=sim)
        stats["cases"] += 1
        stats["by_family"][fam] = stats["by_family"].get(fam, 0) + 1
        if fam != "R" and o.chained():
            stats["nontrivial"] += 1
        record(fs)
        return o.chained()

    mi = 0
    kept = 0
    for fam, (tpl, stride, all_max) in families(tier).items():
        for decl in enum_family(tpl):
            mi += 1
            if mi % stride:
                continue
            kept += 1
            if kept % nshards != shard:
                continue
            stats["models"] += 1
            perms, exhaustive = orders_for(decl, mi, tier, sd, all_max)
            stats["all_orders_models"] += exhaustive
            for oi, p in enumerate(perms):
                d = [decl[i] for i in p]
                sim = oi == 0 and (kept // nshards) % 10 == 0
                one(fam, d, full=oi == 0, sim=sim)
            if len(samples) < 2 and Oracle(decl).chained():
                samples.append({"family": fam, "decl": decl, "orders": len(perms)})
    for j in range(n_random):
        if j % nshards != shard:
            continue
        decl = random_model(random.Random(sd * 7919 + j))
        stats["models"] += 1
        ch = one("R", decl, full=True, sim=(j // nshards) % 10 == 0)
        rnd_hashes.append((hashlib.sha256(_canon(decl).encode()).hexdigest()[:16], ch))
        if j < 2:
            samples.append({"family": "R", "decl": decl})
    stats["sim"] = SIMS["n"]
    stats["cpu_s"] = round(time.process_time(), 1)
    return {"stats": stats, "fails": fails, "samples": samples, "rnd": rnd_hashes, "contract_evals": _CONTRACT["evals"], "contract_calls": _CONTRACT["calls"]}


def _replay_many(decls):
    """Fresh re-run of the witnesses; returns per witness the keys that fail."""
    _quiet()
    install_contract()
    return [sorted({f["key"] for f in check_case(d, light=False, do_sim=True) + check_case(d, light=True)}) for d in decls]


def _in_subprocesses(fn_name, jobs):
    """Run bounded.C13.<fn_name>(job) for every job, each in its own fresh interpreter, all in parallel.

    Plain subprocesses instead of multiprocessing: no fork of a parent that already holds threads (mxlpy pulls in
    IPython's history thread) and no re-import of whatever the parent's __main__ happens to be."""
    env = dict(os.environ)
    env["PYTHONPATH"] = os.pathsep.join([p for p in sys.path if p])  # same mxlpy tree, same vlib
    env["PYTHONDONTWRITEBYTECODE"] = "1"
    # the result travels on the original stdout; everything a library may print goes to stderr instead
    code = ("import os, sys, pickle; fd = os.dup(1); os.dup2(2, 1); from bounded import C13; "
            "job = pickle.load(sys.stdin.buffer); out = getattr(C13, sys.argv[1])(job); "
            "f = os.fdopen(fd, 'wb'); pickle.dump(out, f); f.close()")
    procs = []
    for job in jobs:
        pr = subprocess.Popen([sys.executable, "-W", "ignore", "-c", code, fn_name], stdin=subprocess.PIPE,
                              stdout=subprocess.PIPE, stderr=subprocess.PIPE, env=env)
        pr.stdin.write(pickle.dumps(job))
        pr.stdin.close()
        procs.append(pr)
    outs = []
    readers = []
    for pr in procs:  # drain stdout/stderr concurrently so that no worker blocks on a full pipe
        box: dict = {}

        def rd(pr=pr, box=box):
            box["out"] = pr.stdout.read()

        def rde(pr=pr, box=box):
            box["err"] = pr.stderr.read()

        ts = [threading.Thread(target=rd), threading.Thread(target=rde)]
        for t in ts:
            t.start()
        readers.append((pr, box, ts))
    for pr, box, ts in readers:
        for t in ts:
            t.join()
        rc = pr.wait()
        if rc != 0:
            raise CheckerError(f"C13 worker failed (exit {rc}): {box.get('err', b'')[-1500:].decode(errors='replace')}")
        outs.append(pickle.loads(box["out"]))
    return outs


# ---------------------------------------------------------------------------


def run(ctx: Ctx) -> None:
    sd = seed()
    nshards = max(1, min(16, os.cpu_count() or 1))
    n_random = 10000 if ctx.tier == "quick" else 200000
    jobs = [(ctx.tier, s, nshards, sd, n_random) for s in range(nshards)]
    results = _in_subprocesses("_work", jobs)
    merged: dict = {}
    for r in results:
        for key, e in r["fails"].items():
            cur = merged.setdefault(key, {"n": 0, "first": e["first"]})
            cur["n"] += e["n"]
            a, b = _canon(e["first"]["decl"]), _canon(cur["first"]["decl"])
            if (len(a), a) < (len(b), b):
                cur["first"] = e["first"]
    keys = sorted(merged)
    # every witness is re-run from scratch in a fresh interpreter before it is reported
    replays = _in_subprocesses("_replay_many", [[merged[k]["first"]["decl"] for k in keys]])[0] if keys else []
    for key, again in zip(keys, replays):
        e = merged[key]
        f = e["first"]
        ctx.fail(key=key, kind="bounded", what=f["what"],
                 witness={"decl": f["decl"], "legend": LEGEND,
                          **{k: v for k, v in f["detail"].items() if k in ("state", "time", "redeclared_after_first_evaluation", "coefficient")}},
                 replayed=key in again,
                 detail={"failing_cases": e["n"], "replay_keys": again,
                         **{k: v for k, v in f["detail"].items() if k in ("got", "expected", "derived_parameters", "derived_variables")}})

    cases = sum(r["stats"]["cases"] for r in results)
    nontrivial = sum(r["stats"]["nontrivial"] for r in results)
    models = sum(r["stats"]["models"] for r in results)
    all_orders = sum(r["stats"]["all_orders_models"] for r in results)
    sims = sum(r["stats"]["sim"] for r in results)
    evals = sum(r["contract_evals"] for r in results)
    byfam: dict = {}
    for r in results:
        for k, v in r["stats"]["by_family"].items():
            byfam[k] = byfam.get(k, 0) + v
    rnd = [h for r in results for h in r["rnd"]]
    dup = len(rnd) - len({h for h, _ in rnd})
    nontrivial += len({h for h, ch in rnd if ch})
    calls = sum(r["contract_calls"] for r in results)
    if calls == 0 or (calls < cases and not merged):
        raise CheckerError(f"contract wrapper on Model._create_cache entered {calls} times for {cases} cases (bypassed?)")
    if evals < cases and not merged:
        raise CheckerError(f"postcondition of Model._create_cache evaluated {evals} times for {cases} cases although nothing failed")
    samples = [s for r in results for s in r["samples"]][:3]
    ctx.extra["C13_bounded"] = {"cases_by_family": byfam, "models": models, "models_with_all_declaration_orders": all_orders,
                                "random_models": len(rnd), "random_duplicates": dup, "short_simulations": sims,
                                "create_cache_postcondition_evaluations": evals, "create_cache_wrapper_calls": calls,
                                "worker_cpu_s": {"max": max(r["stats"]["cpu_s"] for r in results),
                                                 "sum": round(sum(r["stats"]["cpu_s"] for r in results), 1)}}
    ctx.add_bounded(
        name="C13-small-models",
        tool="small-scope enumeration + seeded sampling; independent recursive oracle; deal postcondition on the real Model._create_cache",
        bound=(f"families {sorted(k for k in byfam if k != 'R')}: every argument pattern (arity as stated per family, names incl. time) of all acyclic "
               f"models with 1-2 plain parameters, <=1 assignment-defined parameter, 1-2 variables (plain or assignment-initialised), "
               f"<=3 derived, <=1 reaction (numeric / named / computed coefficient), optional 2-output MockSurrogate; all declaration orders "
               f"for {all_orders} models (<= 4 components, in the thorough tier <= 5 in E0/E2/E3), identity+reversed+seeded orders otherwise; "
               f"plus {len(rnd)} seeded random models (family R) from the full bound <=2 plain + <=2 assigned parameters, <=2 variables, "
               f"<=3 derived, <=2 reactions, optional surrogate, arity 0-2, random order; each x default state + up to 3 supplied (state, time) "
               f"pairs x re-declaration of every plain value after the first evaluation"),
        cases=cases, distinct_nontrivial=nontrivial,
        rule="case = (model description, declaration order), distinct by construction (random family deduplicated by hash); "
             "non-trivial iff some assignment, derived quantity or coefficient names another computed quantity (a chain)",
        exhaustive=False, samples=samples,
    )
    ctx.trust("deal.ensure calls the validator with the bound arguments and `result` after the wrapped function returned",
              "pandas Series/DataFrame round-trip of Python floats is exact",
              "MockSurrogate.predict zips outputs with the tuple returned by fn")
    ctx.assume("rate functions are pure and total (fixed affine vocabulary); all values exact in binary floating point, comparisons exact "
               "(relative 1e-9 only for right-hand-side sums, whose summation order is not part of the property)",
               "dependency graphs are acyclic and every argument resolves (cyclic / dangling graphs are C02's subject)")
    ctx.notes.append("C13 bounded: exhaustive only per listed family and arity set, not for the whole bound; the full bound is sampled")
