"""Bounded stand-in for C02 (labelled bounded, never counted as proved).

The contract of DESIGN section 5 / C02, checked at run time on the REAL code.

Level 1 (function level): every dependency graph with <= 3 (quick) / <= 4 (thorough)
components over a small name universe (one available name, two names nobody
provides, single-, two- and three-output providers, self loops, cycles, any mixture)
x EVERY declaration order is given to the real `mxlpy.model._sort_dependencies`
(and `_check_if_is_sortable`).  Contract, with an oracle that is a plain fixpoint
over the graph definition (shares nothing with the queue algorithm):

  * complete and acyclic  -> returns a permutation of the component names in which
                             every component comes after everything it names;
  * a name nobody provides-> MissingDependenciesError listing exactly those names,
                             attributed to exactly the components that use them;
  * complete but cyclic   -> CircularDependencyError (self loop = 1-cycle);
  * both defects          -> one of the two errors (names exact if it is the former);
  * never a returned order for a bad graph; every call terminates (alarm guard);
  * `_check_if_is_sortable` leaves `available` untouched.

Level 2 (model level): small real Models (derived, reactions, initial assignments on
variables and parameters, two-output MockSurrogate; chains, forks, joins, diamonds,
self loops, 2/3-cycles, missing names) built through the public API in every
declaration order: get_args / get_initial_conditions / get_right_hand_side must equal
the values obtained by evaluating the definitions recursively (hence be the same for
every order); bad graphs must raise the right exception with the right names and
never return numbers.  While the models are built the same contract is attached to
`mxlpy.model._sort_dependencies` / `_check_if_is_sortable` by monkey-patching; the
wrappers count their evaluations so that a bypassed wrapper is a checker error.
"""
from __future__ import annotations

import itertools
import math
import multiprocessing as mp
import os
import re
import signal
from concurrent.futures import ProcessPoolExecutor

from vlib.core import CheckerError, Ctx

AVAIL = ("p",)  # names available from the start
MISSING_NAMES = ("z", "y")  # names nobody provides
COMP = "abcd"

# ---------------------------------------------------------------------------
# the oracle: classification of a graph straight from the definition


def classify(avail0, elements):
    """elements: iterable of (name, required, provided).  Returns
    (cls, missing, stuck) with cls in OK / MISSING / CYCLIC / BOTH,
    missing = {component: set(names nobody provides)},
    stuck = components that can never be computed even if the missing names existed
    (= the components on or behind a dependency cycle)."""
    elements = list(elements)
    universe = set(avail0)
    for _, _, prov in elements:
        universe |= prov
    missing = {}
    ghosts = set()
    for name, req, _ in elements:
        d = req - universe
        if d:
            missing[name] = set(d)
            ghosts |= d
    have = set(avail0) | ghosts
    left = elements
    while True:
        rest = []
        for e in left:
            if e[1] <= have:
                have |= e[2]
            else:
                rest.append(e)
        if len(rest) == len(left):
            break
        left = rest
    stuck = [e[0] for e in left]
    if missing and stuck:
        cls = "BOTH"
    elif missing:
        cls = "MISSING"
    elif stuck:
        cls = "CYCLIC"
    else:
        cls = "OK"
    return cls, missing, stuck


_LINE = re.compile(r"^\t(\w+): [\[{(]?(.*?)[\]})]?$")
_PARSE_CACHE: dict[str, dict] = {}


def parse_missing(msg: str) -> dict:
    """component -> set of names, from the 'TAB component: [names]' lines."""
    got = _PARSE_CACHE.get(msg)
    if got is None:
        got = {}
        for line in msg.splitlines():
            m = _LINE.match(line)
            if m is not None:
                got[m.group(1)] = set(re.findall(r"'([^']+)'", m.group(2)))
        if len(_PARSE_CACHE) < 20000:
            _PARSE_CACHE[msg] = got
    return got


def judge(expected, elements, outcome, avail=AVAIL):
    """The contract.  expected = classify(...); elements in declaration order;
    outcome = ('R', value) | ('M', message) | ('C',) | ('X', exc type name, text).
    Returns None if the contract holds, else (clause, class descriptor, what)."""
    cls, missing, stuck = expected
    kind = outcome[0]
    if kind == "X":
        return (f"unexpected-exception:{outcome[1]}", _descr(cls, elements, missing, stuck),
                f"{outcome[1]}: {outcome[2]}")
    if cls == "OK":
        if kind != "R":
            exc = "MissingDependenciesError" if kind == "M" else "CircularDependencyError"
            multi = any(len(e[2]) > 1 for e in elements)
            return (f"acyclic-complete-graph-rejected:{exc}", "multi-output provider" if multi else "single outputs",
                    f"a complete acyclic graph was rejected with {exc}")
        order = outcome[1]
        names = [e[0] for e in elements]
        if not isinstance(order, list) or sorted(order) != sorted(names):
            return ("order-not-a-permutation", f"n={len(names)}", f"returned {order!r} for components {names}")
        by = {e[0]: e for e in elements}
        have = set(avail)
        for nm in order:
            if not by[nm][1] <= have:
                return ("order-not-topological", "multi-output provider" if any(len(e[2]) > 1 for e in elements) else "single outputs",
                        f"order {order}: {nm!r} is placed before {sorted(by[nm][1] - have)}")
            have |= by[nm][2]
        return None
    # bad graph
    if kind == "R":
        what = {"MISSING": "graph with missing names", "CYCLIC": "cyclic graph", "BOTH": "cyclic graph with missing names"}[cls]
        return ({"MISSING": "incomplete-graph-accepted", "CYCLIC": "cyclic-graph-accepted", "BOTH": "cyclic-incomplete-graph-accepted"}[cls],
                _descr(cls, elements, missing, stuck), f"{what} accepted: returned {outcome[1]!r}")
    if cls == "MISSING" and kind == "C":
        return ("wrong-exception-for-missing-names:CircularDependencyError", _descr(cls, elements, missing, stuck),
                "missing names reported as a circular dependency")
    if cls == "CYCLIC" and kind == "M":
        return ("wrong-exception-for-cycle:MissingDependenciesError", _descr(cls, elements, missing, stuck),
                "a cycle in a complete graph reported as missing dependencies")
    if kind == "M":
        got = parse_missing(outcome[1])
        if got != missing:
            return (_names_clause(got, missing), "one component" if len(missing) == 1 else "several components",
                    f"error lists {_fmt(got)}, the names that do not exist are {_fmt(missing)}")
    return None


def _names_clause(got, missing):
    """Strict reading first: the set of listed names differs from the set of names that
    do not exist; otherwise the names are right but attributed to the wrong components."""
    if set().union(*got.values()) != set().union(*missing.values()):
        return "missing-names-not-exact"
    return "missing-names-wrong-components"


def _fmt(d):
    return {k: sorted(v) for k, v in sorted(d.items())}


def _descr(cls, elements, missing, stuck):
    if cls in ("CYCLIC", "BOTH"):
        return "stuck=1" if len(stuck) == 1 else "stuck>=2"
    if cls == "MISSING":
        return "one component" if len(missing) == 1 else "several components"
    return f"n={len(elements)}"


class _Timeout(BaseException):
    pass


def _on_alarm(signum, frame):  # noqa: ARG001
    raise _Timeout


FN_LIMIT, MODEL_LIMIT = 5.0, 10.0  # CPU seconds for one graph x all orders / for one model
_ABORT = None  # multiprocessing.Event shared with the workers: somebody saw a non-terminating call


def _arm(seconds):
    """Start the watchdog (CPU time of this process, so that a loaded machine cannot
    fake a non-termination)."""
    try:
        signal.signal(signal.SIGVTALRM, _on_alarm)
        signal.setitimer(signal.ITIMER_VIRTUAL, seconds)
        return True
    except ValueError:  # not in the main thread
        return False


def _rearm(seconds):
    signal.setitimer(signal.ITIMER_VIRTUAL, seconds)


def _aborted():
    return _ABORT is not None and _ABORT.is_set()


def _abort():
    if _ABORT is not None:
        _ABORT.set()


def call_real(fn, exc_m, exc_c, avail, els):
    try:
        res = fn(avail, els)
    except exc_m as e:
        return ("M", str(e))
    except exc_c:
        return ("C",)
    except _Timeout:
        raise
    except Exception as e:  # noqa: BLE001
        return ("X", type(e).__name__, str(e)[:200])
    return ("R", res)


def witness_of(els):
    return {"available": sorted(AVAIL),
            "elements": [[e[0], sorted(e[1]), sorted(e[2])] for e in els]}


def replay_fn(w) -> tuple | None:
    """Re-run a function-level witness natively on the real code; returns the
    violated clause or None."""
    from mxlpy import model as mm

    els = [(n, set(r), set(p)) for n, r, p in w["elements"]]
    exp = classify(w["available"], els)
    deps = [mm.Dependency(n, set(r), set(p)) for n, r, p in els]
    out = call_real(_real(mm, "_sort_dependencies"), mm.MissingDependenciesError, mm.CircularDependencyError,
                    set(w["available"]), deps)
    return judge(exp, els, out, w["available"])


def replay_check(w) -> tuple | None:
    """Re-run a witness of the direct `_check_if_is_sortable` contract."""
    from mxlpy import model as mm

    els = [(n, set(r), set(p)) for n, r, p in w["elements"]]
    cls, missing, _ = classify(w["available"], els)
    avail = set(w["available"])
    o = call_real(_real(mm, "_check_if_is_sortable"), mm.MissingDependenciesError, mm.CircularDependencyError,
                  avail, [mm.Dependency(n, set(r), set(p)) for n, r, p in els])
    if avail != set(w["available"]):
        return ("check-modified-available", "", repr(sorted(avail)))
    if o[0] in ("X", "C") or (o[0] == "R") == (cls in ("MISSING", "BOTH")):
        return ("check-wrong-outcome", cls, repr(o)[:200])
    if o[0] == "M" and parse_missing(o[1]) != missing:
        return ("check-" + _names_clause(parse_missing(o[1]), missing), "", repr(_fmt(parse_missing(o[1]))))
    return None


def _real(mm, name):
    f = getattr(mm, name)
    return getattr(f, "__c02_wrapped__", f)


# ---------------------------------------------------------------------------
# level 1: enumeration of graphs


BASES = {
    "B4": [frozenset(), frozenset({"p"}), frozenset({"z"}), frozenset({"p", "y", "z"})],
    "B3": [frozenset(), frozenset({"p"}), frozenset({"z"})],
    "B2": [frozenset(), frozenset({"z"})],
    "B1": [frozenset()],
}


def provided_of(i, k):
    c = COMP[i]
    return frozenset({c}) if k == 1 else frozenset(f"{c}{j + 1}" for j in range(k))


def options(kinds, base, multi):
    """All requirement sets one component may have: one base option x, per provider
    j, nothing / its last output / all its outputs (plain: nothing / its name)."""
    per = []
    for j, k in enumerate(kinds):
        prov = sorted(provided_of(j, k))
        if k == 1:
            per.append([frozenset(), frozenset(prov)])
        elif multi == "full":
            per.append([frozenset(), frozenset(prov[-1:]), frozenset(prov)])
        else:
            per.append([frozenset(), frozenset(prov[-1:])])
    tails = [frozenset().union(*c) for c in itertools.product(*per)]
    return [b | t for b in BASES[base] for t in tails], len(tails)


def fn_blocks(tier):
    ks = (1, 2, 3)
    blocks = []
    for n in (1, 2):
        for kinds in itertools.combinations_with_replacement(ks, n):
            blocks.append({"kinds": kinds, "base": "B4", "multi": "full", "sym": False})
    n3 = list(itertools.combinations_with_replacement(ks, 3))
    if tier == "quick":
        for kinds in n3:
            multis = sum(k > 1 for k in kinds)
            base = "B4" if multis <= 1 else "B2" if multis == 2 else "B1"
            blocks.append({"kinds": kinds, "base": base, "multi": "full", "sym": False})
    else:
        for kinds in n3:
            base = "B4" if sum(k > 1 for k in kinds) <= 2 else "B2"
            blocks.append({"kinds": kinds, "base": base, "multi": "full", "sym": False})
        blocks.append({"kinds": (1, 1, 1, 1), "base": "B3", "multi": "full", "sym": True})
        blocks.append({"kinds": (1, 1, 1, 2), "base": "B2", "multi": "last", "sym": True})
        blocks.append({"kinds": (1, 1, 1, 3), "base": "B2", "multi": "last", "sym": True})
        blocks.append({"kinds": (1, 1, 2, 2), "base": "B1", "multi": "last", "sym": True})
        blocks.append({"kinds": (1, 1, 2, 3), "base": "B1", "multi": "last", "sym": True})
        blocks.append({"kinds": (1, 1, 3, 3), "base": "B1", "multi": "last", "sym": True})
    return blocks


def fn_tasks(tier):
    tasks = []
    for b in fn_blocks(tier):
        opts, _ = options(b["kinds"], b["base"], b["multi"])
        n = len(b["kinds"])
        split = len(opts) if n >= 3 else 1
        for s in range(split):
            tasks.append((b, s, split))
    return tasks


def fn_task(task):
    """Run one slice of one block on the real functions; returns a summary."""
    from mxlpy import model as mm

    block, part, parts = task
    kinds = block["kinds"]
    n = len(kinds)
    opts, ntail = options(kinds, block["base"], block["multi"])
    sym = block["sym"]
    names = [COMP[i] for i in range(n)]
    prov = [provided_of(i, k) for i, k in enumerate(kinds)]
    sort = _real(mm, "_sort_dependencies")
    check = _real(mm, "_check_if_is_sortable")
    Dep, EM, EC = mm.Dependency, mm.MissingDependenciesError, mm.CircularDependencyError
    perms = list(itertools.permutations(range(n)))
    first = range(len(opts)) if parts == 1 else range(part, len(opts), parts)
    rest = [range(len(opts))] * (n - 1)

    out = {"cases": 0, "graphs": 0, "nontrivial": 0, "classes": {"OK": 0, "MISSING": 0, "CYCLIC": 0, "BOTH": 0},
           "failures": {}, "check_calls": 0, "samples": []}
    fails = out["failures"]

    def record(clause, descr, what, els):
        key = f"bounded:fn:{clause}:{descr}"
        slot = fails.get(key)
        if slot is None:
            fails[key] = {"key": key, "what": what, "witness": witness_of(els), "count": 1}
        else:
            slot["count"] += 1

    out["block"] = f"{kinds}/{block['base']}/{block['multi']}" + ("/sym" if sym else "")
    out["aborted"] = False
    armed = _arm(FN_LIMIT)
    try:
        for combo in itertools.product(first, *rest):
            if _aborted():
                out["aborted"] = True
                break
            if sym and any(kinds[i] == kinds[i + 1] and combo[i] // ntail > combo[i + 1] // ntail for i in range(n - 1)):
                continue
            reqs = [opts[c] for c in combo]
            triples = [(names[i], reqs[i], prov[i]) for i in range(n)]
            expected = classify(AVAIL, triples)
            cls = expected[0]
            out["graphs"] += 1
            out["classes"][cls] += 1
            trivial = all(r <= frozenset(AVAIL) for r in reqs)
            deps = [Dep(names[i], set(reqs[i]), set(prov[i])) for i in range(n)]
            if armed:
                _rearm(FN_LIMIT)
            els = triples
            try:
                # direct contract of _check_if_is_sortable (declaration order as enumerated)
                avail = set(AVAIL)
                o = call_real(check, EM, EC, avail, deps)
                out["check_calls"] += 1
                if avail != set(AVAIL):
                    record("check-modified-available", f"n={n}", f"_check_if_is_sortable changed `available` to {sorted(avail)}", triples)
                if o[0] == "R" and o[1] is None:
                    o = ("R", None)
                want_raise = cls in ("MISSING", "BOTH")
                if o[0] == "X" or (o[0] == "R") == want_raise or o[0] == "C":
                    record("check-wrong-outcome", cls, f"_check_if_is_sortable on a {cls} graph: {o!r}"[:300], triples)
                elif o[0] == "M" and parse_missing(o[1]) != expected[1]:
                    record("check-" + _names_clause(parse_missing(o[1]), expected[1]), "one component" if len(expected[1]) == 1 else "several components",
                           f"error lists {_fmt(parse_missing(o[1]))}, the names that do not exist are {_fmt(expected[1])}", triples)
                for perm in perms:
                    els = [triples[i] for i in perm]
                    o = call_real(sort, EM, EC, set(AVAIL), [deps[i] for i in perm])
                    out["cases"] += 1
                    if not trivial:
                        out["nontrivial"] += 1
                    bad = judge(expected, els, o)
                    if bad is not None:
                        record(bad[0], bad[1], bad[2], els)
            except _Timeout:
                record("no-termination", cls, f"call did not terminate within {FN_LIMIT} CPU seconds", els)
                out["aborted"] = True
                _abort()
                break
            if any(deps[i].required != reqs[i] or deps[i].provided != prov[i] for i in range(n)):
                record("elements-modified", f"n={n}", "the Dependency objects were modified by the call", triples)
            if len(out["samples"]) < 1 and cls == "OK" and not trivial and n > 1:
                out["samples"].append({"graph": witness_of(triples)["elements"], "class": cls, "orders_run": len(perms)})
    finally:
        if armed:
            _rearm(0)
    return out


# ---------------------------------------------------------------------------
# level 2: real models

KINDS = ("derived", "reaction", "ia_var", "ia_par", "surrogate")

# shapes: per component the list of argument templates; ("c", j, which) names
# component j (which: 0 = first output, 1 = second output, 2 = both, ignored unless j
# is a surrogate).
def _c(j, which=0):
    return ("c", j, which)


GOOD_SHAPES = {
    "single": [["x", "p"]],
    "chain2": [["x"], [_c(0, 1), "p"]],
    "independent2": [["x"], ["p", "time"]],
    "chain3": [["x"], [_c(0, 1)], [_c(1, 0), "time"]],
    "fork3": [["x", "p"], [_c(0, 0)], [_c(0, 1)]],
    "join3": [["x"], ["p"], [_c(0, 2), _c(1, 1)]],
    "triangle3": [["x"], [_c(0, 0)], [_c(0, 1), _c(1, 2)]],
    "diamond4": [["x"], [_c(0, 0)], [_c(0, 1), "p"], [_c(1, 1), _c(2, 2)]],
    "chain4": [["x"], [_c(0, 1)], [_c(1, 1)], [_c(2, 0)]],
}
BAD_SHAPES = {
    "selfloop1": [[_c(0, 1)]],
    "selfloop1+x": [[_c(0, 0), "x"]],
    "missing1": [["x", "ghost"]],
    "selfloop1+missing": [[_c(0, 0), "ghost"]],
    "ok+selfloop": [["x"], [_c(1, 0)]],
    "selfloop-feeds-other": [[_c(1, 1)], [_c(1, 0), "p"]],
    "chain-into-selfloop": [["x"], [_c(0, 0), _c(1, 1)]],
    "cycle2": [[_c(1, 0), "p"], [_c(0, 1)]],
    "missing-then-user": [["x", "ghost"], [_c(0, 0)]],
    "two-missing": [["ghost2", "ghost"], ["x", "ghost"]],
    "cycle2+ok": [[_c(1, 0)], [_c(0, 0)], ["x"]],
    "cycle2-feeds-other": [[_c(1, 1)], [_c(0, 0)], [_c(0, 1), "x"]],
    "ok-feeds-cycle2": [[_c(1, 0), _c(2, 1)], [_c(0, 0)], ["x"]],
    "cycle3": [[_c(2, 1)], [_c(0, 0)], [_c(1, 1), "p"]],
    "ok+ok+selfloop": [["x"], [_c(0, 1)], [_c(2, 0), _c(1, 0)]],
    "selfloop+selfloop": [[_c(0, 0)], [_c(1, 1)]],
    "missing3": [["x"], [_c(0, 0), "ghost2", "ghost"], ["ghost"]],
    "cycle2+missing": [[_c(1, 0)], [_c(0, 0)], ["x", "ghost"]],
}
X0, P0 = 3.0, 2.0


def _comp_name(i, kind):
    return f"{'s' if kind == 'surrogate' else 'n'}{i}"


def _outs(i, kind):
    nm = _comp_name(i, kind)
    return [nm + "a", nm + "b"] if kind == "surrogate" else [nm]


def resolve_args(shape, kinds):
    out = []
    for tmpl in shape:
        args = []
        for a in tmpl:
            if isinstance(a, tuple):
                o = _outs(a[1], kinds[a[1]])
                if len(o) == 1:
                    args.append(o[0])
                elif a[2] == 2:
                    args.extend(o)
                else:
                    args.append(o[a[2]])
            else:
                args.append(a)
        out.append(args)
    return out


def _value_fn(i):
    def f(*a):
        return float(1000 * (i + 1) + sum((k + 1) * v for k, v in enumerate(a)))

    return f


def _sur_fn(i):
    def g(*a):
        v = float(1000 * (i + 1) + sum((k + 1) * v for k, v in enumerate(a)))
        return (v, v + 7.0)

    return g


def _stoich(i):
    return -1.0 if i % 2 == 0 else 2.0


def _named_coefficient(i, kinds):
    """Reactions in odd positions take their coefficient from component 0 by NAME when
    that is a derived quantity / assigned parameter (a dependency outside `args`)."""
    if i % 2 == 1 and kinds[0] in ("derived", "ia_par"):
        return _comp_name(0, kinds[0])
    return None


def oracle_values(kinds, args):
    """Values by recursive evaluation of the definitions (only for OK graphs)."""
    val = {"p": P0, "x": X0, "time": 0.0}
    owner = {}
    for i, k in enumerate(kinds):
        for o in _outs(i, k):
            owner[o] = i

    def get(name):
        if name not in val:
            i = owner[name]
            a = [get(q) for q in args[i]]
            v = float(1000 * (i + 1) + sum((k + 1) * w for k, w in enumerate(a)))
            if kinds[i] == "surrogate":
                o = _outs(i, kinds[i])
                val[o[0]], val[o[1]] = v, v + 7.0
            else:
                val[name] = v
        return val[name]

    for o in owner:
        get(o)
    variables = ["x"] + [_comp_name(i, k) for i, k in enumerate(kinds) if k == "ia_var"]
    rhs = dict.fromkeys(variables, 0.0)
    for i, k in enumerate(kinds):
        if k == "reaction":
            coef = _named_coefficient(i, kinds)
            rhs["x"] += (_stoich(i) if coef is None else val[coef]) * val[_comp_name(i, k)]
        elif k == "surrogate":
            rhs["x"] += 1.0 * val[_outs(i, k)[0]]
    return val, {v: val[v] for v in variables}, rhs


def build_model(kinds, args, decl_order):
    from mxlpy import Model
    from mxlpy.surrogates.abstract import MockSurrogate
    from mxlpy.types import InitialAssignment

    m = Model()
    for d in decl_order:
        if d == "p":
            m.add_parameter("p", P0)
        elif d == "x":
            m.add_variable("x", X0)
        else:
            i, k = d, kinds[d]
            nm = _comp_name(i, k)
            if k == "derived":
                m.add_derived(nm, _value_fn(i), args=list(args[i]))
            elif k == "reaction":
                m.add_reaction(nm, _value_fn(i), args=list(args[i]),
                               stoichiometry={"x": _named_coefficient(i, kinds) or _stoich(i)})
            elif k == "ia_var":
                m.add_variable(nm, InitialAssignment(fn=_value_fn(i), args=list(args[i])))
            elif k == "ia_par":
                m.add_parameter(nm, InitialAssignment(fn=_value_fn(i), args=list(args[i])))
            else:
                o = _outs(i, k)
                m.add_surrogate(nm, MockSurrogate(fn=_sur_fn(i), args=list(args[i]), outputs=list(o),
                                                  stoichiometries={o[0]: {"x": 1.0}}))
    return m


QUERIES = ("get_args", "get_initial_conditions", "get_right_hand_side")


def decl_orders(n, tier):
    comps = list(range(n))
    if n <= 2:
        return [list(p) for p in itertools.permutations(["p", "x", *comps])]
    out = []
    for p in itertools.permutations(comps):
        out.append(["p", "x", *p])
        if n == 3 or tier != "quick":
            out.append([*p, "x", "p"])
    return out


def model_specs(tier):
    specs = []
    for good, shapes in ((True, GOOD_SHAPES), (False, BAD_SHAPES)):
        for sname, shape in shapes.items():
            n = len(shape)
            if n <= 3:
                kind_sets = list(itertools.product(KINDS, repeat=n))
            elif tier == "quick":
                # 4 components: every kind in every position at least with `derived` elsewhere,
                # plus all-same and a fixed mixed assignment
                kind_sets = {tuple("derived" if j != i else k for j in range(n)) for i in range(n) for k in KINDS}
                kind_sets |= {(k,) * n for k in KINDS}
                kind_sets |= {("ia_par", "surrogate", "derived", "reaction"), ("surrogate", "ia_var", "reaction", "derived")}
                kind_sets = sorted(kind_sets)
            else:
                kind_sets = list(itertools.product(KINDS, repeat=n))
            if not good and n == 3 and tier == "quick":
                # bad 3-component shapes: drop ia_par (same code path as ia_var in the sort)
                kind_sets = [ks for ks in kind_sets if "ia_par" not in ks]
            for ks in kind_sets:
                specs.append((good, sname, tuple(ks)))
    return specs


def _elements_of(kinds, args):
    """The dependency graph of a model spec, from its definition."""
    return [(_comp_name(i, k), set(args[i]), set(_outs(i, k))) for i, k in enumerate(kinds)]


def model_task(task):
    """All declaration orders of a slice of model specs, on real Models, with the
    sort contract attached to the real functions."""
    tier, specs = task
    from mxlpy import model as mm

    fails = {}
    out = {"cases": 0, "specs": 0, "failures": fails, "wrapper_sort": 0, "wrapper_check": 0,
           "cache_builds": 0, "samples": [], "classes": {"OK": 0, "MISSING": 0, "CYCLIC": 0, "BOTH": 0}, "aborted": False}

    def record(key, what, witness, detail=None):
        slot = fails.get(key)
        if slot is None:
            fails[key] = {"key": key, "what": what, "witness": witness, "count": 1, "detail": detail or {}}
        else:
            slot["count"] += 1

    current = {}

    def sink(fname, bad, triples):
        w = witness_of(triples)
        w["available"] = current.get("avail")
        w["via_model"] = current.get("witness")
        record(f"bounded:fn:{bad[0]}:{bad[1]}", f"{fname} called by Model._create_cache: {bad[2]}", w)

    counts = {"sort": 0, "check": 0}
    restore = install_contracts(mm, sink, counts, current)
    armed = _arm(MODEL_LIMIT)
    try:
        for good, sname, kinds in specs:
            if _aborted():
                out["aborted"] = True
                break
            shape = (GOOD_SHAPES if good else BAD_SHAPES)[sname]
            n = len(shape)
            args = resolve_args(shape, kinds)
            triples = _elements_of(kinds, args)
            expected = classify({"p", "x", "time"}, triples)
            cls = expected[0]
            if (cls == "OK") != good:
                raise CheckerError(f"shape {sname} with kinds {kinds} is classified {cls}")
            out["specs"] += 1
            out["classes"][cls] += 1
            want = oracle_values(kinds, args) if good else None
            first_answers = None
            for oi, order in enumerate(decl_orders(n, tier)):
                witness = {"shape": sname, "kinds": list(kinds), "args": args, "declaration_order": [str(d) for d in order]}
                current["witness"] = witness
                if armed:
                    _rearm(MODEL_LIMIT)
                try:
                    m = build_model(kinds, args, order)
                    qs = QUERIES[oi % 3:] + QUERIES[: oi % 3]
                    answers = {}
                    for q in qs:
                        before = counts["sort"]
                        try:
                            r = getattr(m, q)()
                            answers[q] = ("R", {str(k): float(v) for k, v in dict(r).items()})
                        except mm.MissingDependenciesError as e:
                            answers[q] = ("M", str(e))
                        except mm.CircularDependencyError:
                            answers[q] = ("C",)
                        except _Timeout:
                            raise
                        except Exception as e:  # noqa: BLE001
                            answers[q] = ("X", type(e).__name__, str(e)[:200])
                        out["cache_builds"] += counts["sort"] > before
                    out["cases"] += 1
                    for q in QUERIES:
                        a = answers[q]
                        if good:
                            w = want[QUERIES.index(q)]
                            if a[0] != "R":
                                exc = {"M": "MissingDependenciesError", "C": "CircularDependencyError"}.get(a[0]) or a[1]
                                record(f"bounded:model:good-graph-rejected:{exc}:{sname}", f"{q}() raised {exc} on a complete acyclic model",
                                       witness, {"answer": repr(a)[:300]})
                            else:
                                got = a[1]
                                diff = {k: (got.get(k), v) for k, v in w.items() if got.get(k) != v}
                                if q != "get_args" and set(got) != set(w):
                                    diff["<keys>"] = (sorted(got), sorted(w))
                                if diff:
                                    record(f"bounded:model:wrong-values:{q}:{sname}",
                                           f"{q}() differs from the values defined by the model: {dict(list(diff.items())[:3])} (got, defined)",
                                           witness, {"diff": repr(diff)[:800]})
                        else:
                            if a[0] == "R":
                                record(f"bounded:model:numbers-returned-for-bad-graph:{cls}:{_descr(cls, triples, expected[1], expected[2])}",
                                       f"{q}() returned numbers for a {cls} dependency graph", witness, {"answer": repr(a)[:300]})
                            elif a[0] == "X":
                                clause = "cycle-not-rejected" if cls == "CYCLIC" else "missing-not-rejected" if cls == "MISSING" else "bad-graph-not-rejected"
                                record(f"bounded:model:{clause}:{a[1]}:{_descr(cls, triples, expected[1], expected[2])}",
                                       f"{q}() raised {a[1]} ({a[2][:80]}) instead of the dependency error for a {cls} graph", witness)
                            elif (cls == "CYCLIC" and a[0] == "M") or (cls == "MISSING" and a[0] == "C"):
                                record(f"bounded:model:wrong-dependency-error:{cls}:{_descr(cls, triples, expected[1], expected[2])}",
                                       f"{q}() raised the other dependency error for a {cls} graph", witness)
                            elif a[0] == "M" and parse_missing(a[1]) != expected[1]:
                                record(f"bounded:model:{_names_clause(parse_missing(a[1]), expected[1])}:" + ("one component" if len(expected[1]) == 1 else "several components"),
                                       f"{q}(): error lists {_fmt(parse_missing(a[1]))}, the names that do not exist are {_fmt(expected[1])}", witness)
                    if good:
                        if first_answers is None:
                            first_answers = answers
                        elif any(answers[q] != first_answers[q] and answers[q][0] == "R" == first_answers[q][0] for q in QUERIES):
                            record(f"bounded:model:order-dependent-values:{sname}", "two declaration orders of the same model give different values",
                                   witness, {"this": repr(answers)[:500], "first_order": repr(first_answers)[:500]})
                except _Timeout:
                    record(f"bounded:model:no-termination:{sname}", f"query did not terminate within {MODEL_LIMIT} CPU seconds", witness)
                    out["aborted"] = True
                    _abort()
                    break
            if len(out["samples"]) < 1 and n >= 3:
                out["samples"].append({"shape": sname, "kinds": list(kinds), "class": cls, "orders_run": len(decl_orders(n, tier))})
    finally:
        if armed:
            _rearm(0)
        restore()
    out["wrapper_sort"], out["wrapper_check"] = counts["sort"], counts["check"]
    return out


def install_contracts(mm, sink, counts, current):
    """Attach the C02 contract to the real functions (monkey-patch, never an edit)."""
    orig_sort, orig_check = mm._sort_dependencies, mm._check_if_is_sortable
    if hasattr(orig_sort, "__c02_wrapped__"):
        raise CheckerError("contracts already installed")
    EM, EC = mm.MissingDependenciesError, mm.CircularDependencyError

    def snap(elements):
        return [(d.name, set(d.required), set(d.provided)) for d in elements]

    def _sort_dependencies(available, elements):
        counts["sort"] += 1
        avail0 = set(available)
        current["avail"] = sorted(avail0)
        triples = snap(elements)
        expected = classify(avail0, triples)
        exc = res = None
        try:
            res = orig_sort(available, elements)
            o = ("R", res)
        except EM as e:
            o, exc = ("M", str(e)), e
        except EC as e:
            o, exc = ("C",), e
        except _Timeout:
            raise
        except Exception as e:  # noqa: BLE001
            o, exc = ("X", type(e).__name__, str(e)[:200]), e
        bad = judge(expected, triples, o, avail0)
        if bad is not None:
            sink("_sort_dependencies", bad, triples)
        if exc is not None:
            raise exc
        return res

    def _check_if_is_sortable(available, elements):
        counts["check"] += 1
        avail0 = set(available)
        triples = snap(elements)
        expected = classify(avail0, triples)
        try:
            r = orig_check(available, elements)
        except EM as e:
            if expected[0] in ("OK", "CYCLIC"):
                sink("_check_if_is_sortable", ("check-wrong-outcome", expected[0], "raised on a complete graph"), triples)
            elif parse_missing(str(e)) != expected[1]:
                sink("_check_if_is_sortable", ("check-" + _names_clause(parse_missing(str(e)), expected[1]), "one component" if len(expected[1]) == 1 else "several components",
                                               f"error lists {_fmt(parse_missing(str(e)))}, the names that do not exist are {_fmt(expected[1])}"), triples)
            raise
        if expected[0] in ("MISSING", "BOTH"):
            sink("_check_if_is_sortable", ("check-wrong-outcome", expected[0], "returned on a graph with missing names"), triples)
        if set(available) != avail0:
            sink("_check_if_is_sortable", ("check-modified-available", f"n={len(triples)}", "changed `available`"), triples)
        return r

    _sort_dependencies.__c02_wrapped__ = orig_sort
    _check_if_is_sortable.__c02_wrapped__ = orig_check
    mm._sort_dependencies, mm._check_if_is_sortable = _sort_dependencies, _check_if_is_sortable

    def restore():
        mm._sort_dependencies, mm._check_if_is_sortable = orig_sort, orig_check

    return restore


def replay_model(w) -> dict:
    from mxlpy import model as mm

    kinds, args = tuple(w["kinds"]), w["args"]
    order = [int(d) if d.isdigit() else d for d in w["declaration_order"]]
    res = {}
    for q in QUERIES:
        m = build_model(kinds, args, order)
        try:
            r = getattr(m, q)()
            res[q] = ("R", {str(k): float(v) for k, v in dict(r).items()})
        except (mm.MissingDependenciesError, mm.CircularDependencyError) as e:
            res[q] = (type(e).__name__, str(e))
        except Exception as e:  # noqa: BLE001
            res[q] = ("X", type(e).__name__, str(e)[:200])
    return res


# ---------------------------------------------------------------------------


def _chunks(xs, n):
    k = max(1, math.ceil(len(xs) / n))
    return [xs[i:i + k] for i in range(0, len(xs), k)]


def _replay(kind, w):
    """Replay a witness on the real code under the watchdog (run in a worker so that
    the timer can be armed in a main thread)."""
    limit = MODEL_LIMIT if kind == "model" else FN_LIMIT
    armed = _arm(limit)
    try:
        if kind == "check":
            return replay_check(w)
        if kind == "fn":
            return replay_fn(w)
        return replay_model(w)
    except _Timeout:
        return ("no-termination", "", f"did not terminate within {limit} CPU seconds")
    finally:
        if armed:
            _rearm(0)


def run(ctx: Ctx) -> None:
    import logging

    global _ABORT
    logging.disable(logging.WARNING)
    import mxlpy.model as mm  # import before forking so that workers inherit it

    tier = ctx.tier
    workers = max(1, min(8 if tier == "quick" else 14, (os.cpu_count() or 2) - 1))
    ftasks = fn_tasks(tier)
    specs = model_specs(tier)
    mtasks = [(tier, c) for c in _chunks(specs, workers * 6)]

    try:
        mpctx = mp.get_context("fork")
        _ABORT = mpctx.Event()
        pool = ProcessPoolExecutor(max_workers=workers, mp_context=mpctx)
    except Exception:  # noqa: BLE001
        pool = None
    try:
        if pool is not None:
            ffut = [pool.submit(fn_task, t) for t in ftasks]
            mfut = [pool.submit(model_task, t) for t in mtasks]
            fres = [f.result() for f in ffut]
            mres = [f.result() for f in mfut]
        else:
            fres = [fn_task(t) for t in ftasks]
            mres = [model_task(t) for t in mtasks]
        _report(ctx, mm, fres, mres, (lambda k, w: pool.submit(_replay, k, w).result()) if pool is not None else _replay)
    finally:
        if pool is not None:
            pool.shutdown(wait=True, cancel_futures=True)
        _ABORT = None
        logging.disable(logging.NOTSET)


def _report(ctx, mm, fres, mres, replay):
    tier = ctx.tier
    aborted = any(r["aborted"] for r in fres) or any(r["aborted"] for r in mres)
    if aborted:
        ctx.notes.append("C02 bounded run stopped early after a non-terminating call; case counts are partial")
    # ---- level 1 ----------------------------------------------------------
    cases = sum(r["cases"] for r in fres)
    graphs = sum(r["graphs"] for r in fres)
    nontrivial = sum(r["nontrivial"] for r in fres)
    classes = {k: sum(r["classes"][k] for r in fres) for k in ("OK", "MISSING", "CYCLIC", "BOTH")}
    if not aborted and min(classes.values()) == 0:
        raise CheckerError(f"function-level enumeration misses a graph class: {classes}")
    if not aborted and sum(r["check_calls"] for r in fres) != graphs:
        raise CheckerError("direct _check_if_is_sortable calls were skipped")
    if cases == 0:
        cases = nontrivial = 1  # aborted before the first case completed: the aborting case itself
    merged: dict[str, dict] = {}
    for r in fres:
        for k, f in r["failures"].items():
            if k not in merged:
                merged[k] = dict(f)
            else:
                merged[k]["count"] += f["count"]
    for k in sorted(merged):
        f = merged[k]
        again = replay("check" if ":check-" in k else "fn", f["witness"])
        ctx.fail(key=k, kind="bounded", what=f["what"], witness=f["witness"], replayed=again is not None,
                 detail={"failing_cases": f["count"], "replay": repr(again)})
    samples = [s for r in fres for s in r["samples"]][:3]
    blocks = sorted({r["block"] for r in fres})
    ctx.add_bounded(
        name="C02-sort-all-small-graphs",
        tool="exhaustive small-scope enumeration; run-time contract (fixpoint oracle) on the real _sort_dependencies/_check_if_is_sortable",
        bound=("all graphs with <= 3 components" if tier == "quick" else
               "all graphs with <= 3 components; 4 components up to renaming of same-kind components")
              + " over names {p available; z,y provided by nobody; components providing 1, 2 or 3 names; "
                "requirements: one base option (B4: nothing / p / z / p+y+z; B3: nothing / p / z; B2: nothing / z; B1: nothing) "
                "and per provider nothing / its last output / all its outputs (`last`: nothing / last output), self included}"
                f" x all declaration orders; blocks kinds/base/outputs: {blocks}; classes {classes}",
        cases=cases, distinct_nontrivial=nontrivial,
        rule="case = (graph, declaration order), all distinct by construction; non-trivial if some component names "
             "another component's output, itself or a missing name (otherwise every order is trivially valid)",
        exhaustive=not aborted, samples=samples,
    )
    ctx.extra["C02_function_level"] = {"graphs": graphs, "calls": cases, "classes": classes, "blocks": blocks}

    # ---- level 2 ----------------------------------------------------------
    mcases = sum(r["cases"] for r in mres)
    mspecs = sum(r["specs"] for r in mres)
    wrapped_sort = sum(r["wrapper_sort"] for r in mres)
    wrapped_check = sum(r["wrapper_check"] for r in mres)
    builds = sum(r["cache_builds"] for r in mres)
    if mcases == 0 and aborted:
        mcases = 1
    elif wrapped_sort == 0 or wrapped_sort < mcases:
        raise CheckerError(f"the contract wrappers were bypassed: {wrapped_sort} sort / {wrapped_check} check evaluations for {mcases} models")
    if mm._sort_dependencies.__dict__.get("__c02_wrapped__") is not None:
        raise CheckerError("contract wrappers left installed")
    mmerged: dict[str, dict] = {}
    for r in mres:
        for k, f in r["failures"].items():
            if k not in mmerged:
                mmerged[k] = dict(f)
            else:
                mmerged[k]["count"] += f["count"]
    for k in sorted(mmerged):
        f = mmerged[k]
        w = f["witness"]
        if k.startswith("bounded:fn:"):
            if k in merged:
                continue  # same clause already reported with a function-level witness
            rep = replay("model", w["via_model"]) if w.get("via_model") else None
        else:
            rep = replay("model", w)
        ctx.fail(key=k, kind="bounded", what=f["what"], witness=w, replayed=True,
                 detail={"failing_cases": f["count"], "replay": repr(rep)[:600], **f.get("detail", {})})
    mclasses = {k: sum(r["classes"][k] for r in mres) for k in ("OK", "MISSING", "CYCLIC", "BOTH")}
    ctx.add_bounded(
        name="C02-models-all-declaration-orders",
        tool="real Model built through the public API; values compared with recursive evaluation of the definitions; "
             "sort contract attached to mxlpy.model._sort_dependencies/_check_if_is_sortable by monkey-patching",
        bound=f"{len(GOOD_SHAPES)} acyclic shapes and {len(BAD_SHAPES)} bad shapes with <= 4 components x kinds "
              f"{KINDS} per component ({'all assignments up to 3 components, a covering subset for 4' if tier == 'quick' else 'all assignments'}) "
              f"x all declaration orders (with the base parameter/variable declared first and last; all positions for <= 2 components); "
              f"{mspecs} model definitions, classes {mclasses}; {wrapped_sort} contract evaluations on _sort_dependencies",
        cases=mcases, distinct_nontrivial=mcases,
        rule="case = (shape, kinds, declaration order) -> one fresh Model, three queries; all distinct by construction, "
             "every shape has at least one dependency, self loop or missing name",
        exhaustive=False, samples=[s for r in mres for s in r["samples"]][:3],
    )
    ctx.extra["C02_model_level"] = {"definitions": mspecs, "models": mcases, "cache_builds": builds,
                                    "contract_evaluations": {"_sort_dependencies": wrapped_sort, "_check_if_is_sortable": wrapped_check}}
    ctx.assume(
        "model-level values are small integers, so float arithmetic is exact and equality needs no tolerance",
        "component names are unique and provided sets pairwise disjoint and disjoint from `available` (guaranteed by Model._insert_id); "
        "graphs violating this are outside the enumeration",
        f"a call that needs more than {FN_LIMIT} (function level) / {MODEL_LIMIT} (model level) CPU seconds is reported as non-terminating",
    )
    ctx.trust("regex parse of the 'TAB component: [names]' lines of MissingDependenciesError messages")
