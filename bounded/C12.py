"""Bounded stand-in for C12 (labelled bounded, never counted as proved).

Contract (taken from the property statement), checked at run time on the REAL
`mxlpy.symbolic.to_symbolic_model`, `SymbolicModel.jacobian` and
`mxlpy.Simulator(use_jacobian=True)` over an enumerated small scope of surrogate-free
models:

  (C)  `to_symbolic_model(M)` returns or raises.  It must return for a model built only
       from the shipped rate-law library `mxlpy.fns` in EVERY declaration order of its
       derived quantities if it returns for one of them (the property names the
       declaration order as the thing that must not matter; everything else may raise);
  (O)  on return: one equation per variable, `variables` in the model's variable order;
  (E)  the equations, lambdified over (variables, parameters), evaluate to the numeric
       right-hand side `M(t, y)` in variable order
         - at random states with the model's own parameter values,
         - at random states AND random parameter values (numeric reference: a fresh copy
           of the model with `update_parameters(theta)`),
         - after `M.update_parameters(theta)` followed by a new conversion;
  (J)  `jacobian()` lambdified equals the derivative of the numeric right-hand side,
       obtained sympy-free by Richardson-extrapolated central differences of `M(t, y)`;
  (S)  for method in Radau, BDF, LSODA: `Simulator(M, use_jacobian=True,
       integrator=partial(Scipy, method=method))` either uses a Jacobian and produces the
       trajectory of `use_jacobian=False` (and of an independent tight-tolerance
       integration of `M`), also across an `update_parameter` between two simulations, or
       has fallen back (integrator without Jacobian) after logging a warning.  It never
       raises where `use_jacobian=False` works.

The reference for E/J/S is the numeric model itself (`Model.__call__`, the function the
integrators call; its correctness is C01).
"""
from __future__ import annotations

import hashlib
import itertools
import json
import logging
import math
import os
import random
import time as _time
import warnings
from concurrent.futures import ProcessPoolExecutor
from functools import partial

from vlib.core import CheckerError, Ctx, seed

RTOL_E, ATOL_E = 1e-9, 1e-12  # equations: same arithmetic, different association
RTOL_J, ATOL_J = 1e-6, 1e-8  # Jacobian vs extrapolated central differences
RTOL_S, ATOL_S = 2e-5, 2e-7  # trajectories (integrators run with rtol=atol=1e-8)
METHODS = ["Radau", "BDF", "LSODA"]

# ---------------------------------------------------------------------------
# user-written rate laws (smooth, rational, total on positive states; formal parameter
# names differ from every model name, so that C06's argument-renaming defect only shows
# in the one model that is about it)


# module-level floats that share their names with formal parameters of the rate laws
# below (the common script style `km = 0.35` ... `def rate(s, km)`); no model binds these
# values, so a translation that prefers the constant over the argument is visible
kf = 12.0
kms = 0.35
ki = 1.0 / 1.8


def u_ma(s, kf):
    return kf * s


def u_mm(s, vmax, kms):
    return vmax * s / (kms + s)


def u_inh(s, i, kf, ki):
    return kf * s / (1.0 + i / ki)


def u_const(c):
    return c


def u_lin2(p1, p2):
    return p1 + 2.0 * p2


def u_sq1(q1):
    return 1.0 + q1 * q1


def u_decay(kf, t):
    return kf / (1.0 + t)


def u_prod(p1, p2):
    return p1 * p2


u_lambda = lambda s, kf: kf * s  # noqa: E731


def u_exp(s, kf):
    return kf * math.exp(-s)


def _fn(name):
    from mxlpy import fns

    if name.startswith("fns."):
        return getattr(fns, name[4:])
    return globals()[name]


# ---------------------------------------------------------------------------
# model specs: variables / parameters: name -> value (parameter value may be
# ["ia", fn, args]); derived: [name, fn, args] (declaration order!); reactions:
# [name, fn, args, {var: coef}] with coef float | "name" | ["fn", fn, args]

LIB_FAMILIES = {
    # derived chain of depth 3 + an independent derived parameter
    "lib-chain3": dict(
        variables={"s": 1.0, "p": 0.5},
        parameters={"k1": 1.0, "k2": 0.5, "f": 0.25},
        derived=[["tot", "fns.add", ["s", "p"]], ["ktot", "fns.mul", ["k1", "tot"]], ["kk", "fns.mul", ["k2", "f"]]],
        reactions=[["v1", "fns.mass_action_1s", ["s", "ktot"], {"s": -1.0, "p": 1.0}],
                   ["v2", "fns.mass_action_1s", ["p", "kk"], {"p": -1.0}]],
    ),
    # four derived quantities, chain of depth 4
    "lib-chain4": dict(
        variables={"s": 1.0, "p": 0.5},
        parameters={"k1": 1.0, "k2": 2.0, "f": 0.25, "vm": 1.5, "kms": 0.7},
        derived=[["a1", "fns.add", ["s", "p"]], ["a2", "fns.mul", ["a1", "k1"]], ["a3", "fns.div", ["a2", "k2"]], ["a4", "fns.add", ["a3", "f"]]],
        reactions=[["v1", "fns.michaelis_menten_1s", ["s", "a4", "kms"], {"s": -1.0, "p": 1.0}],
                   ["v2", "fns.mass_action_1s", ["p", "vm"], {"p": -1.0}],
                   ["v0", "fns.constant", ["f"], {"s": 1.0}]],
    ),
    # conserved moiety: derived variable, ratio of variable and derived variable, derived vmax
    "lib-moiety": dict(
        variables={"atp": 1.0},
        parameters={"total": 4.0, "vmax": 2.0, "kms": 0.8, "kuse": 0.6},
        derived=[["adp", "fns.moiety_1s", ["atp", "total"]], ["ratio", "fns.div", ["atp", "adp"]], ["veff", "fns.mul", ["vmax", "ratio"]]],
        reactions=[["v_syn", "fns.michaelis_menten_1s", ["adp", "veff", "kms"], {"atp": 1.0}],
                   ["v_use", "fns.mass_action_1s", ["atp", "kuse"], {"atp": -1.0}]],
    ),
    # reversible steps; reactions added back to front, products listed before substrates
    "lib-reversible": dict(
        variables={"sa": 2.0, "sb": 0.5, "sc": 0.1},
        parameters={"kin": 1.3, "kf": 0.7, "keq": 3.0, "kout": 0.9, "kd": 0.4},
        derived=[["kr", "fns.div", ["kf", "keq"]], ["kd2", "fns.twice", ["kd"]], ["krd", "fns.mul", ["kr", "kd2"]]],
        reactions=[["v_out", "fns.mass_action_1s", ["sc", "kout"], {"sc": -1.0}],
                   ["v2", "fns.diffusion_1s_1p", ["sc", "sb", "krd"], {"sc": 2.0, "sb": -1.0}],
                   ["v1", "fns.mass_action_1s_1p", ["sa", "sb", "kf", "kr"], {"sb": 1.0, "sa": -1.0}],
                   ["v_in", "fns.constant", ["kin"], {"sa": 1.0}]],
    ),
}

USER_MODELS = {
    # variables declared a, b, c; last pathway step added first, product listed before substrate
    "user-reaction-order": dict(
        variables={"a": 2.0, "b": 0.5, "c": 0.1},
        parameters={"kin": 1.3, "k1": 0.7, "vm": 2.1, "kms": 0.45, "kout": 0.9, "ki": 1.5},
        derived=[],
        reactions=[["v_out", "u_ma", ["c", "kout"], {"c": -1.0}],
                   ["v2", "u_mm", ["b", "vm", "kms"], {"c": 2.0, "b": -1.0}],
                   ["v1", "u_inh", ["a", "c", "k1", "ki"], {"b": 1.0, "a": -1.0}],
                   ["v_in", "u_const", ["kin"], {"a": 1.0}]],
    ),
    "user-variable-without-reaction": dict(
        variables={"a": 2.0, "idle": 1.0, "b": 0.5},
        parameters={"k1": 0.7, "kout": 0.9},
        derived=[],
        reactions=[["v1", "u_ma", ["a", "k1"], {"a": -1.0, "b": 1.0}], ["v_out", "u_ma", ["b", "kout"], {"b": -1.0}]],
    ),
    "user-coefficient-named-by-parameter": dict(
        variables={"a": 2.0, "b": 0.5},
        parameters={"k1": 0.7, "kout": 0.9, "yield_": 2.0},
        derived=[],
        reactions=[["v1", "u_ma", ["a", "k1"], {"a": -1.0, "b": "yield_"}], ["v_out", "u_ma", ["b", "kout"], {"b": -1.0}]],
    ),
    "user-coefficient-named-by-derived-parameter": dict(
        variables={"a": 2.0, "b": 0.5},
        parameters={"k1": 0.7, "kout": 0.9, "y0": 1.5},
        derived=[["yd", "u_lin2", ["y0", "k1"]]],
        reactions=[["v1", "u_ma", ["a", "k1"], {"a": -1.0, "b": "yd"}], ["v_out", "u_ma", ["b", "kout"], {"b": -1.0}]],
    ),
    "user-coefficient-computed-from-parameters": dict(
        variables={"a": 2.0, "b": 0.5},
        parameters={"k1": 0.7, "kout": 0.9, "y0": 1.5},
        derived=[],
        reactions=[["v1", "u_ma", ["a", "k1"], {"a": -1.0, "b": ["fn", "u_lin2", ["y0", "k1"]]}], ["v_out", "u_ma", ["b", "kout"], {"b": -1.0}]],
    ),
    "user-coefficient-computed-from-state": dict(
        variables={"a": 2.0, "b": 0.5},
        parameters={"k1": 0.7, "kout": 0.9},
        derived=[],
        reactions=[["v1", "u_ma", ["a", "k1"], {"a": -1.0, "b": ["fn", "u_sq1", ["a"]]}], ["v_out", "u_ma", ["b", "kout"], {"b": -1.0}]],
    ),
    "user-coefficient-named-by-derived-variable": dict(
        variables={"a": 2.0, "b": 0.5},
        parameters={"k1": 0.7, "kout": 0.9},
        derived=[["ya", "u_sq1", ["a"]]],
        reactions=[["v1", "u_ma", ["a", "k1"], {"a": -1.0, "b": "ya"}], ["v_out", "u_ma", ["b", "kout"], {"b": -1.0}]],
    ),
    "user-initial-assignment-parameter": dict(
        variables={"a": 2.0, "b": 0.5},
        parameters={"k1": 0.7, "kout": ["ia", "u_lin2", ["k1", "k1"]]},
        derived=[],
        reactions=[["v1", "u_ma", ["a", "k1"], {"a": -1.0, "b": 1.0}], ["v_out", "u_ma", ["b", "kout"], {"b": -1.0}]],
    ),
    "user-unused-initial-assignment-parameter": dict(
        variables={"a": 2.0, "b": 0.5},
        parameters={"k1": 0.7, "kout": 0.9, "extra": ["ia", "u_lin2", ["k1", "kout"]]},
        derived=[],
        reactions=[["v1", "u_ma", ["a", "k1"], {"a": -1.0, "b": 1.0}], ["v_out", "u_ma", ["b", "kout"], {"b": -1.0}]],
    ),
    "user-time-dependent-rate": dict(
        variables={"a": 2.0},
        parameters={"k1": 0.7},
        derived=[],
        reactions=[["v1", "u_decay", ["k1", "time"], {"a": 1.0}], ["v2", "u_ma", ["a", "k1"], {"a": -1.0}]],
    ),
    "user-derived-of-reaction": dict(
        variables={"a": 2.0, "b": 0.5},
        parameters={"k1": 0.7, "kout": 0.9},
        derived=[["half_v1", "u_prod", ["v1", "kout"]]],
        reactions=[["v1", "u_ma", ["a", "k1"], {"a": -1.0, "b": 1.0}], ["v_out", "u_ma", ["b", "half_v1"], {"b": -1.0}]],
    ),
    "user-derived-declared-before-its-argument": dict(
        variables={"a": 2.0, "b": 0.5},
        parameters={"k1": 0.7, "kout": 0.9},
        derived=[["k_eff", "u_prod", ["tot", "k1"]], ["tot", "u_lin2", ["a", "b"]]],
        reactions=[["v1", "u_ma", ["a", "k_eff"], {"a": -1.0, "b": 1.0}], ["v_out", "u_ma", ["b", "kout"], {"b": -1.0}]],
    ),
    # model names equal to the formal parameter names of the library function, permuted
    "lib-arguments-named-like-formals": dict(
        variables={"x": 2.0, "y": 0.5},
        parameters={"k": 0.7},
        derived=[["d", "fns.minus", ["y", "x"]]],
        reactions=[["v1", "fns.mass_action_1s", ["x", "k"], {"x": -1.0, "y": 1.0}], ["v2", "fns.mass_action_2s", ["y", "d", "k"], {"y": -1.0}]],
    ),
    "user-lambda": dict(
        variables={"a": 2.0}, parameters={"k1": 0.7}, derived=[],
        reactions=[["v1", "u_lambda", ["a", "k1"], {"a": -1.0}]],
    ),
    "user-math-call": dict(
        variables={"a": 2.0}, parameters={"k1": 0.7}, derived=[],
        reactions=[["v1", "u_exp", ["a", "k1"], {"a": -1.0}]],
    ),
    # fast equilibrium + slow drain: LSODA switches to its stiff method and asks for the Jacobian
    "user-stiff": dict(
        variables={"a": 2.0, "b": 0.0, "c": 0.0},
        parameters={"kfast": 2.0e4, "kback": 1.0e4, "kslow": 0.3},
        derived=[],
        reactions=[["vf", "u_ma", ["a", "kfast"], {"a": -1.0, "b": 1.0}], ["vb", "u_ma", ["b", "kback"], {"b": -1.0, "a": 1.0}],
                   ["vs", "u_ma", ["b", "kslow"], {"b": -1.0, "c": 1.0}]],
    ),
}


def spec_with_order(fam, perm):
    s = LIB_FAMILIES[fam]
    return {**s, "derived": [s["derived"][i] for i in perm]}


def get_spec(model):
    """model = ["lib", family, perm] | ["user", name]"""
    if model[0] == "lib":
        return spec_with_order(model[1], model[2])
    return USER_MODELS[model[1]]


def lib_only(spec):
    names = [d[1] for d in spec["derived"]] + [r[1] for r in spec["reactions"]]
    names += [c[1] for r in spec["reactions"] for c in r[3].values() if isinstance(c, list)]
    names += [v[1] for v in spec["parameters"].values() if isinstance(v, list)]
    return all(n.startswith("fns.") for n in names)


def build(spec, params=None):
    from mxlpy import Derived, InitialAssignment, Model

    m = Model()
    m.add_variables(dict(spec["variables"]))
    for name, v in spec["parameters"].items():
        if isinstance(v, list):
            m.add_parameter(name, InitialAssignment(fn=_fn(v[1]), args=list(v[2])))
        else:
            m.add_parameter(name, (params or {}).get(name, v))
    for name, fn, args in spec["derived"]:
        m.add_derived(name, _fn(fn), args=list(args))
    for name, fn, args, st in spec["reactions"]:
        m.add_reaction(name, _fn(fn), args=list(args),
                       stoichiometry={v: (Derived(fn=_fn(c[1]), args=list(c[2])) if isinstance(c, list) else c) for v, c in st.items()})
    return m


def base_params(spec):
    return {k: v for k, v in spec["parameters"].items() if not isinstance(v, list)}


def _rng_for(model, salt):
    h = hashlib.sha256(json.dumps([model, salt, seed()]).encode()).hexdigest()
    return random.Random(int(h[:12], 16))


def sample_points(spec, rng, n):
    pts = []
    for _ in range(n):
        y = [round(rng.uniform(0.2, 3.0), 3) for _ in spec["variables"]]
        theta = {k: round(v * rng.uniform(0.5, 2.0), 4) for k, v in base_params(spec).items()}
        pts.append((y, theta))
    return pts


# ---------------------------------------------------------------------------
# numeric references


def numeric_rhs(m, t, y):
    return [float(v) for v in m(t, y)]


def numeric_jacobian(m, t, y):
    """Richardson-extrapolated central differences of the numeric right-hand side (error O(h^4))."""
    n = len(y)
    jac = [[0.0] * n for _ in range(n)]
    for j in range(n):
        h = 1e-3 * max(1.0, abs(y[j]))

        def cd(hh, j=j):
            yp, ym = list(y), list(y)
            yp[j] += hh
            ym[j] -= hh
            fp, fm = numeric_rhs(m, t, yp), numeric_rhs(m, t, ym)
            return [(a - b) / (2 * hh) for a, b in zip(fp, fm, strict=True)]

        d1, d2 = cd(h), cd(h / 2)
        for i in range(n):
            jac[i][j] = (4.0 * d2[i] - d1[i]) / 3.0
    return jac


def _close(a, b, rtol, atol):
    return abs(a - b) <= atol + rtol * max(abs(a), abs(b))


# ---------------------------------------------------------------------------
# conversion checks (C, O, E, J)


def check_conversion(model, npts):
    """Returns dict(converted: bool, raised: str|None, failures: [(symptom, text, detail)], cases: int)."""
    import sympy
    from mxlpy.symbolic import to_symbolic_model

    spec = get_spec(model)
    out = {"converted": False, "raised": None, "failures": [], "cases": 0}
    m = build(spec)
    try:
        m(0.0, list(spec["variables"].values()))
    except Exception as e:  # noqa: BLE001
        raise CheckerError(f"numeric model {model} not evaluable: {type(e).__name__}: {e}") from e
    out["cases"] += 1
    try:
        sm = to_symbolic_model(m)
    except Exception as e:  # noqa: BLE001
        out["raised"] = f"{type(e).__name__}: {str(e)[:80]}"
        out["raised_type"] = type(e).__name__
        return out
    out["converted"] = True
    names = m.get_variable_names()
    if list(sm.variables) != names or len(sm.eqs) != len(names):
        out["failures"].append(("equations-not-one-per-variable-in-variable-order",
                                f"symbolic variables {list(sm.variables)}, {len(sm.eqs)} equations; model variables {names}", {}))
        return out
    vs = [sm.variables[n] for n in names]
    pnames = list(sm.parameters)
    ps = [sm.parameters[n] for n in pnames]
    free = set().union(*[sympy.sympify(e).free_symbols for e in sm.eqs]) - set(vs) - set(ps)
    if free:
        out["failures"].append(("equations-contain-unbound-symbols", f"free symbols {sorted(map(str, free))} are neither variables nor parameters", {}))
        return out
    f_eq = sympy.lambdify((vs, ps), list(sm.eqs), "math")
    f_jac = sympy.lambdify((vs, ps), sm.jacobian().tolist(), "math")
    own = {k: m.get_parameter_values()[k] for k in pnames}
    rng = _rng_for(model, "points")
    pts = sample_points(spec, rng, npts)

    def cmp_at(mode, mref, f_eq_, f_jac_, y, pvals, t):
        got = [float(v) for v in f_eq_(y, pvals)]
        want = numeric_rhs(mref, t, y)
        for i, (g, w) in enumerate(zip(got, want, strict=True)):
            if not _close(g, w, RTOL_E, ATOL_E):
                return (f"equations-differ-from-numeric-rhs:{mode}",
                        f"{mode}: d{names[i]}/dt symbolic {g!r} numeric {w!r} at y={dict(zip(names, y, strict=True))}, parameters={dict(zip(pnames, pvals, strict=True))}",
                        {"equations": [str(e) for e in sm.eqs]})
        gj = f_jac_(y, pvals)
        wj = numeric_jacobian(mref, t, y)
        for i in range(len(names)):
            for j in range(len(names)):
                if not _close(float(gj[i][j]), wj[i][j], RTOL_J, ATOL_J):
                    return (f"jacobian-differs-from-numeric-derivative:{mode}",
                            f"{mode}: d(d{names[i]}/dt)/d{names[j]} symbolic {float(gj[i][j])!r} finite-difference {wj[i][j]!r} at y={dict(zip(names, y, strict=True))}",
                            {"jacobian": str(sm.jacobian())})
        return None

    seen = set()
    for pi, (y, theta) in enumerate(pts):
        t = 0.0 if pi % 2 == 0 else 1.7
        # own parameter values
        out["cases"] += 1
        r = cmp_at("model-parameter-values", m, f_eq, f_jac, y, [own[k] for k in pnames], t)
        if r and r[0] not in seen:
            seen.add(r[0])
            out["failures"].append(r)
        if seen:
            continue  # wrong already with the model's own parameter values: the other modes tell nothing new
        # other parameter values: symbols substituted vs a fresh model holding theta
        out["cases"] += 1
        mref = build(spec, params=theta)
        r = cmp_at("other-parameter-values", mref, f_eq, f_jac, y, [theta[k] for k in pnames], t)
        if r and r[0] not in seen:
            seen.add(r[0])
            out["failures"].append(r)
    if any(f[0].endswith(":model-parameter-values") for f in out["failures"]):
        return out
    # after update_parameters on the converted model itself, converted again
    y, theta = pts[0]
    out["cases"] += 1
    m.update_parameters(theta)
    try:
        sm2 = to_symbolic_model(m)
        vs2 = [sm2.variables[n] for n in names]
        ps2 = [sm2.parameters[n] for n in pnames]
        r = cmp_at("converted-again-after-update_parameters", m, sympy.lambdify((vs2, ps2), list(sm2.eqs), "math"),
                   sympy.lambdify((vs2, ps2), sm2.jacobian().tolist(), "math"), y, [theta[k] for k in pnames], 0.0)
    except Exception as e:  # noqa: BLE001
        r = ("conversion-raises-after-update_parameters", f"{type(e).__name__}: {e}", {})
    if r:
        out["failures"].append(r)
    return out


# ---------------------------------------------------------------------------
# simulation checks (S)


class _Capture(logging.Handler):
    def __init__(self):
        super().__init__(level=logging.WARNING)
        self.records = []

    def emit(self, record):
        self.records.append(record.getMessage())


def _reference_trajectory(spec, segments, times):
    """Independent tight-tolerance integration of the numeric model (no Simulator)."""
    import numpy as np
    from scipy.integrate import solve_ivp

    y = list(spec["variables"].values())
    out = []
    t0 = 0.0
    cur = dict(base_params(spec))
    for (t1, change), tt in zip(segments, times, strict=True):
        cur.update(change)
        m = build(spec, params=cur)
        sol = solve_ivp(lambda t, x, m=m: list(m(t, x)), (t0, t1), y, method="Radau", rtol=1e-11, atol=1e-13, t_eval=tt)
        if not sol.success:
            raise CheckerError("reference integration failed")
        out.append(np.array(sol.y).T)
        y = list(sol.y[:, -1])
        t0 = t1
    return out


def _run_simulator(spec, method, use_jacobian, segments, times):
    """Returns dict(traj=[arrays]|None, raised=str|None, fell_back=bool, warned=bool, jac_calls=int)."""
    import numpy as np
    from mxlpy import Simulator
    from mxlpy.integrators import Scipy

    lg = logging.getLogger("mxlpy")
    cap = _Capture()
    lg.addHandler(cap)
    res = {"traj": None, "raised": None, "fell_back": False, "warned": False, "jac_calls": 0, "stage": "construct"}
    try:
        m = build(spec)
        try:
            sim = Simulator(m, use_jacobian=use_jacobian, integrator=partial(Scipy, method=method))
        except Exception as e:  # noqa: BLE001
            res["raised"] = f"{type(e).__name__}: {str(e)[:100]}"
            res["raised_type"] = type(e).__name__
            return res
        res["warned"] = len(cap.records) > 0
        calls = [0]

        def count(integ):
            jac = getattr(integ, "jacobian", None)
            if jac is None:
                return False

            def counted(t, x, _jac=jac):
                calls[0] += 1
                return _jac(t, x)

            integ.jacobian = counted
            return True

        has_jac = count(sim.integrator)
        res["fell_back"] = use_jacobian and not has_jac
        res["stage"] = "simulate"
        trajs = []
        try:
            for (t1, change), tt in zip(segments, times, strict=True):
                for kk, vv in change.items():
                    sim.update_parameter(kk, vv)
                sim.simulate_time_course(list(tt))
            r = sim.get_result()
            val = r.value
            if isinstance(val, Exception) or val is None:
                res["raised"] = f"integration failed: {type(val).__name__}"
                res["raised_type"] = "IntegrationFailure"
                return res
            raw = val.raw_variables
            if len(raw) != len(segments):
                res["raised"] = f"{len(raw)} result segments for {len(segments)} simulations"
                res["raised_type"] = "segments"
                return res
            for df, tt in zip(raw, times, strict=True):
                idx = np.array(df.index, dtype=float)
                rows = []
                for x in tt:
                    hit = np.flatnonzero(np.isclose(idx, float(x), rtol=0, atol=1e-12))
                    if len(hit) != 1:
                        res["raised"] = f"time point {float(x)} reported {len(hit)} times in {idx.tolist()}"
                        res["raised_type"] = "time-points"
                        return res
                    rows.append(int(hit[0]))
                trajs.append(np.array(df.to_numpy(dtype=float))[rows])
        except Exception as e:  # noqa: BLE001
            res["raised"] = f"{type(e).__name__}: {str(e)[:100]}"
            res["raised_type"] = type(e).__name__
            return res
        res["traj"] = trajs
        res["jac_calls"] = calls[0]
        return res
    finally:
        lg.removeHandler(cap)


def _traj_diff(a, b):
    import numpy as np

    for si, (x, y) in enumerate(zip(a, b, strict=True)):
        if x.shape != y.shape:
            return f"segment {si}: shapes {x.shape} vs {y.shape}"
        bad = ~np.isclose(x, y, rtol=RTOL_S, atol=ATOL_S)
        if bad.any():
            i, j = map(int, np.argwhere(bad)[0])
            return f"segment {si} row {i} variable #{j}: {x[i, j]!r} vs {y[i, j]!r}"
    return None


def check_simulation(model, method):
    """(S) for one model and one method."""
    import numpy as np

    spec = get_spec(model)
    stiff = model[1] == "user-stiff"
    t_a, t_b = (0.6, 1.5) if not stiff else (0.5, 1.2)
    pname = next(iter(base_params(spec)))
    change = {pname: base_params(spec)[pname] * 1.7}
    segments = [(t_a, {}), (t_b, change)]
    times = [np.linspace(0.0, t_a, 4), np.linspace(t_a, t_b, 4)[1:]]
    out = {"failures": [], "cases": 1, "jac_calls": 0, "fell_back": False, "used_jacobian": False}
    plain = _run_simulator(spec, method, False, segments, times)
    if plain["traj"] is None:
        out["skipped"] = f"use_jacobian=False does not work either: {plain['raised']}"
        return out
    ref = _reference_trajectory(spec, segments, times)
    d = _traj_diff(plain["traj"], ref)
    if d:
        out["skipped"] = f"use_jacobian=False itself differs from the tight reference ({d})"
        return out
    jac = _run_simulator(spec, method, True, segments, times)
    out["jac_calls"] = jac["jac_calls"]
    out["fell_back"] = jac["fell_back"]
    if jac["raised"] is not None:
        out["failures"].append((f"simulator-with-jacobian-raises {jac.get('raised_type')}:{jac['stage']}",
                                f"Simulator(use_jacobian=True, method={method}) raises during {jac['stage']}: {jac['raised']} (use_jacobian=False works)", {}))
        return out
    if jac["fell_back"] and not jac["warned"]:
        out["failures"].append(("silent-fallback", f"Simulator(use_jacobian=True, method={method}) built an integrator without Jacobian and logged no warning", {}))
    out["used_jacobian"] = not jac["fell_back"]
    for other, label in ((plain["traj"], "use_jacobian=False"), (ref, "tight reference integration")):
        d = _traj_diff(jac["traj"], other)
        if d:
            out["failures"].append(("trajectory-with-jacobian-differs", f"method={method}: use_jacobian=True vs {label}: {d}", {"fell_back": jac["fell_back"]}))
            break
    return out


# ---------------------------------------------------------------------------
# jobs


def model_tag(model):
    return model[1]


def _quiet():
    os.environ.setdefault("TQDM_DISABLE", "1")
    warnings.filterwarnings("ignore")
    lg = logging.getLogger("mxlpy")
    lg.propagate = False
    lg.setLevel(logging.WARNING)  # warnings must reach the capturing handler of (S)
    if not any(isinstance(h, logging.NullHandler) for h in lg.handlers):
        lg.addHandler(logging.NullHandler())
    logging.getLogger().setLevel(logging.ERROR)


_CONTRACT = {"evals": 0, "violations": 0}


def _install_contract():
    """Run-time post-condition (O) around the real to_symbolic_model as the Simulator calls it
    (recording, never raising; evaluations are counted so that a bypassed wrapper is noticed)."""
    import mxlpy.simulator as simmod

    if getattr(simmod.to_symbolic_model, "__c12__", False):
        return
    orig = simmod.to_symbolic_model

    def contracted(model):
        out = orig(model)
        _CONTRACT["evals"] += 1
        names = model.get_variable_names()
        if list(out.variables) != names or len(out.eqs) != len(names):
            _CONTRACT["violations"] += 1
        return out

    contracted.__c12__ = True
    simmod.to_symbolic_model = contracted


def _work(job):
    _quiet()
    _install_contract()
    before = dict(_CONTRACT)
    t0 = _time.time()
    kind, model, arg = job
    try:
        if kind == "convert":
            r = check_conversion(model, arg)
        else:
            r = check_simulation(model, arg)
    except CheckerError as e:
        r = {"checker_error": str(e), "failures": [], "cases": 0}
    r["job"] = job
    r["wall"] = _time.time() - t0
    r["contract_evals"] = _CONTRACT["evals"] - before["evals"]
    r["contract_violations"] = _CONTRACT["violations"] - before["violations"]
    return r


def replay(witness):
    """Re-runs one witness; returns the list of failing keys."""
    _quiet()
    model = witness["model"]
    keys = []
    if witness["check"] == "convert":
        r = check_conversion(model, witness.get("points", 6))
        keys += [f"bounded:{s}:{model_tag(model)}" for s, _t, _d in r["failures"]]
        if r["raised"] and witness.get("must_convert"):
            keys.append(f"bounded:conversion-raises-for-shipped-rate-laws {r['raised_type']}:derived-declared-before-its-argument")
    else:
        r = check_simulation(model, witness["method"])
        keys += [f"bounded:{s}:{witness['method']}:{model_tag(model)}" for s, _t, _d in r["failures"]]
    return keys


def topological(spec):
    """Is every derived quantity declared after the derived quantities it reads?"""
    seen = set()
    dnames = {d[0] for d in spec["derived"]}
    for name, _fn_, args in spec["derived"]:
        if any(a in dnames and a not in seen for a in args):
            return False
        seen.add(name)
    return True


def run(ctx: Ctx) -> None:
    _quiet()
    t0 = _time.time()
    rng = random.Random(seed())
    npts = 6 if ctx.tier == "quick" else 48
    models = []
    for fam, s in LIB_FAMILIES.items():
        for perm in itertools.permutations(range(len(s["derived"]))):
            models.append(["lib", fam, list(perm)])
    models += [["user", n] for n in USER_MODELS]
    jobs = [("convert", mdl, npts) for mdl in models]
    # simulations: every user model, every library family in sorted order + other orders
    sim_models = [["user", n] for n in USER_MODELS]
    for fam, s in LIB_FAMILIES.items():
        perms = [list(p) for p in itertools.permutations(range(len(s["derived"])))]
        chosen = [perms[0], perms[-1]] if ctx.tier == "quick" else perms
        sim_models += [["lib", fam, p] for p in chosen]
    for mdl in sim_models:
        for method in METHODS:
            jobs.append(("simulate", mdl, method))
    jobs.sort(key=lambda j: 0 if j[0] == "simulate" else 1)  # long jobs first
    workers = max(1, min(14, (os.cpu_count() or 2) - 2))
    with ProcessPoolExecutor(max_workers=workers) as ex:
        results = list(ex.map(_work, jobs, chunksize=2))
    errs = [r["checker_error"] for r in results if r.get("checker_error")]
    if errs:
        raise CheckerError(errs[0])

    fails = {}  # key -> (what, witness, detail)
    conv = [r for r in results if r["job"][0] == "convert"]
    sims = [r for r in results if r["job"][0] == "simulate"]
    converted = {json.dumps(r["job"][1]): r for r in conv}
    # (C) shipped library: declaration order of derived quantities must not matter
    raised_allowed = {}
    for fam in LIB_FAMILIES:
        rs = [r for r in conv if r["job"][1][0] == "lib" and r["job"][1][1] == fam]
        if any(r["converted"] for r in rs):
            for r in rs:
                if not r["converted"]:
                    key = f"bounded:conversion-raises-for-shipped-rate-laws {r['raised_type']}:derived-declared-before-its-argument"
                    fails.setdefault(key, (f"to_symbolic_model raises {r['raised']} for the library-only model {fam} with derived quantities declared in order "
                                           f"{[d[0] for d in get_spec(r['job'][1])['derived']]}; the same model converts in another declaration order",
                                           {"check": "convert", "model": r["job"][1], "must_convert": True, "points": npts}, {}))
    for r in conv:
        mdl = r["job"][1]
        if r["raised"] and not (mdl[0] == "lib"):
            raised_allowed[model_tag(mdl)] = r["raised"]
        for s, text, detail in r["failures"]:
            key = f"bounded:{s}:{model_tag(mdl)}"
            fails.setdefault(key, (text, {"check": "convert", "model": mdl, "points": npts}, detail))
    # (S)
    raise_keys = {}
    for r in sims:
        _k, mdl, method = r["job"]
        for s, text, detail in r["failures"]:
            if s.startswith("simulator-with-jacobian-raises"):
                raise_keys.setdefault((s, method), []).append((mdl, text, detail))
            else:
                fails.setdefault(f"bounded:{s}:{method}:{model_tag(mdl)}", (text, {"check": "simulate", "model": mdl, "method": method}, detail))
    # a raise that happens for every model whose conversion succeeds is one defect of the call site, not one per model
    for (s, method), lst in raise_keys.items():
        n_conv = sum(1 for r in sims if r["job"][2] == method and not r.get("skipped")
                     and converted.get(json.dumps(r["job"][1]), {}).get("converted"))
        if len(lst) >= max(1, n_conv):
            mdl, text, detail = lst[0]
            fails.setdefault(f"bounded:{s}:{method}:every-convertible-model", (text + f" [{len(lst)} of {n_conv} convertible models]",
                                                                             {"check": "simulate", "model": mdl, "method": method}, detail))
        else:
            for mdl, text, detail in lst:
                fails.setdefault(f"bounded:{s}:{method}:{model_tag(mdl)}", (text, {"check": "simulate", "model": mdl, "method": method}, detail))

    contract_evals = sum(r.get("contract_evals", 0) for r in results)
    if contract_evals == 0:
        raise CheckerError("the contract wrapper around to_symbolic_model inside the Simulator was never evaluated (bypassed)")
    for r in sims:
        if r.get("contract_violations"):
            _k, mdl, method = r["job"]
            fails.setdefault(f"bounded:equations-not-one-per-variable-in-variable-order:inside-Simulator:{model_tag(mdl)}",
                             ("to_symbolic_model called by the Simulator returned equations that are not one per variable in variable order",
                              {"check": "simulate", "model": mdl, "method": method}, {}))
    n_conv_ok = sum(1 for r in conv if r["converted"])
    if n_conv_ok == 0:
        raise CheckerError("no model was converted: nothing was compared")
    jac_used = {m_: sum(r.get("jac_calls", 0) for r in sims if r["job"][2] == m_) for m_ in METHODS}
    any_sim_fail = any(k.startswith("bounded:simulator-with-jacobian-raises") for k in fails)
    if not any_sim_fail and (jac_used["Radau"] == 0 or jac_used["BDF"] == 0 or jac_used["LSODA"] == 0):
        raise CheckerError(f"a Jacobian-using method never called the Jacobian: {jac_used}")
    for key in sorted(fails):
        text, witness, detail = fails[key]
        try:
            rk = replay(witness)
            rep = key in rk or any(key.rsplit(":", 1)[0] == x.rsplit(":", 1)[0] for x in rk)
        except Exception:  # noqa: BLE001
            rep = False
        ctx.fail(key=key, kind="bounded", what=text, witness=witness, replayed=rep, detail=detail)
    cases = sum(r["cases"] for r in results)
    nontrivial = sum(r["cases"] for r in conv if r["converted"]) + sum(1 for r in sims if r.get("used_jacobian"))
    ctx.add_bounded(
        name="C12-symbolic-equations-jacobian",
        tool="enumerated real Models; to_symbolic_model / jacobian lambdified vs Model.__call__ and extrapolated central differences; "
             "Simulator(use_jacobian=True) with Scipy Radau/BDF/LSODA vs use_jacobian=False and a tight solve_ivp reference",
        bound=(f"{len(models)} models: {sum(math.factorial(len(s['derived'])) for s in LIB_FAMILIES.values())} = all declaration orders of the derived quantities of "
               f"{len(LIB_FAMILIES)} library-only models (chains of depth 3 and 4, conserved moiety, reversible steps added back to front) + {len(USER_MODELS)} models with "
               "user rate laws (reactions mentioning variables against declaration order, variable without reaction, coefficient named by parameter / derived parameter / "
               "derived variable, computed from parameters / from the state, initial-assignment parameter, time-dependent rate, derived of a reaction, derived declared before "
               f"its argument, library formals permuted, lambda, math call, stiff); {npts} random (state, parameter) points each x 3 comparison modes; "
               f"{len(sim_models)} models x {METHODS} simulated in two segments with an update_parameter in between; "
               f"{n_conv_ok} models converted, {len(conv) - n_conv_ok} conversions raised; Jacobian calls per method {jac_used}; "
               f"post-condition on to_symbolic_model inside the Simulator evaluated {contract_evals} times"),
        cases=cases, distinct_nontrivial=nontrivial,
        rule="one case = one (model, point, mode) comparison of equations and Jacobian, or one (model, method) simulation pair; non-trivial = the conversion returned / "
             "the integrator really held a Jacobian",
        exhaustive=False,
        samples=[{"model": models[0], "spec": get_spec(models[0])}, {"model": ["user", "user-reaction-order"]}, {"simulate": sim_models[0], "methods": METHODS}],
    )
    ctx.extra["C12"] = {"conversions_raised_allowed": raised_allowed, "jacobian_calls": jac_used,
                        "simulations_fell_back": sorted({model_tag(r["job"][1]) for r in sims if r.get("fell_back")}),
                        "simulations_skipped": sorted({f"{model_tag(r['job'][1])}/{r['job'][2]}: {r['skipped'][:60]}" for r in sims if r.get("skipped")}),
                        "wall_s": round(_time.time() - t0, 1), "cpu_s": round(sum(r["wall"] for r in results), 1), "workers": workers}
    ctx.trust("Model.__call__ as the numeric right-hand side (C01); sympy.lambdify with the math module; scipy solve_ivp(Radau, rtol=1e-11) as trajectory reference")
    ctx.assume(f"equations: rtol={RTOL_E} atol={ATOL_E} (same rational expression, different association of a few float operations)",
               f"Jacobian: rtol={RTOL_J} atol={ATOL_J} against central differences with one Richardson step, h=1e-3*max(1,|y|): truncation O(h^4 f^(5)) <= 1e-10 and "
               "round-off ~1e-13/h for the smooth rational rate laws used (fast rates 2e4 in the stiff model scale both sides)",
               f"trajectories: rtol={RTOL_S} atol={ATOL_S}; both runs control the local error with rtol=atol=1e-8 over t<=1.5, an exact Jacobian only changes Newton "
               "iterates and step selection, so the runs may differ by a small multiple of the accumulated tolerance (observed <= 1e-7); the margin is > 100x",
               "a conversion that raises is allowed by the property except for library-only models that convert in some declaration order of their derived quantities",
               "a (model, method) pair is skipped when use_jacobian=False itself fails or misses the tight reference (not a C12 matter)")
