"""Bounded stand-in for C11 (labelled bounded, never counted as proved).

Contract (taken from the property statement), checked at run time on the REAL
`mxlpy.meta.codegen_mxlpy.generate_mxlpy_code` over an enumerated small scope:

  for every model M made of variables, parameters (incl. initial assignments),
  derived quantities and reactions (numeric / named / computed coefficients) and every
  assignment of <= 3 Python functions to <= 4 of its components (one function shared by
  several components with different / permuted / repeated arguments, different functions
  sharing a __name__, lambdas, functions whose parameter names equal module-level float
  constants, functions named like the generator's own prefixes):

  (G)  `generate_mxlpy_code(M)` returns text, or raises; it may raise only if some
       function of M cannot be translated (the translator `fn_to_sympy` answers None
       for it when asked on its own);
  (X)  the returned text is executable: `exec(text)["create_model"]()` builds a model M'
       (emitted defs are valid python, parameter lists duplicate free);
  (K)  M' has the same component names and kinds as M (`Model.ids`), and a value that
       was an initial assignment still is one;
  (B)  binding consistency: every function-bearing component of M' (initial assignment,
       derived, reaction rate, computed coefficient) names the same arguments as in M and
       its function returns the same value as M's function when called with values of
       those arguments;
  (I)  same initial values (initial assignments resolved) and parameter values - also
       after the base parameters were changed in both models;
  (V)  on a state grid, before and after the parameter change: same derivatives at 3
       states (`Model.__call__`), same derived values, fluxes and derivatives by name
       (`get_args`, `get_right_hand_side`) at one state per phase.

The reference is the original model M evaluated through `Model.get_args` /
`get_right_hand_side` / `get_initial_conditions` (their correctness is C01/C13, not
C11) and, for (B), M's own python functions called directly.  A failing case is
delta-debugged (slot -> benign function with fresh name and distinct arguments) so that
the key names the features of the minimal failing core only.
"""
from __future__ import annotations

import ast
import hashlib
import itertools
import json
import logging
import math
import os
import random
import time as _time
import warnings
from concurrent.futures import ProcessPoolExecutor

from vlib.core import CheckerError, Ctx, seed

RTOL, ATOL = 1e-9, 1e-12
SHRINKS_PER_SIGNATURE = 3  # per worker process
_SHRUNK: dict = {}  # (symptom, features of the whole case) -> number of cases minimised by this process

# ---------------------------------------------------------------------------
# module-level float constants: the names `k` and `km` are deliberately also formal
# parameter names of functions below (and `k` the name of a model parameter with another
# value); SCALE is a legitimate use of a module constant inside a function body.
k = 5.0
km = 0.35
SCALE = 3.0

# ---------------------------------------------------------------------------
# the function pool (all binary, none symmetric in its arguments, total on the grid)


def f_aff(u, w):
    return u - 2.0 * w + 0.25


def f_ratio(s, km):
    return s / (1.0 + km * km)


def f_lin(k, s):
    return k * s + SCALE


def sub(x, y):
    return x - 2.0 * y


def mix(y, k):
    return y * k - k + 0.5


def rate(a, b):
    return a * b + b


rate_v1 = rate


def rate(a, b):  # noqa: F811  (a different function that happens to share the name)
    return a + 3.0 * b


rate_v2 = rate


def base(u, w):
    return u * w - w


def init_base(u, w):
    return u + 0.5 * w


def v1_stoich_base(u, w):
    return 2.0 * u - w


lam_mul = lambda a, b: a * b + 1.0  # noqa: E731
lam_sub = lambda a, b: a - b  # noqa: E731


def looped(a, b):
    t = 0.0
    for _i in range(3):
        t = t + a
    return t * b


def uses_exp(a, b):
    return math.exp(-a) * b


def uses_pi(a, b):
    return math.pi * a - b


def branch(a, b):
    if a > b:
        return a - b
    return b


# benign functions: one per slot position, unique names, formals unlike any model name
def benign_0(g0, h0):
    return g0 - 3.0 * h0 + 1.0


def benign_1(g1, h1):
    return 2.0 * g1 + h1 - 0.5


def benign_2(g2, h2):
    return g2 * h2 + g2


def benign_3(g3, h3):
    return g3 - h3 * h3


# neutral rate of a reaction that exists only because one of its coefficients is a slot
def neutral_rate(c1, c2):
    return c1 * c2


FN = {
    f.__name__ if n is None else n: f
    for n, f in [
        (None, f_aff), (None, f_ratio), (None, f_lin), (None, sub), (None, mix), ("rate_v1", rate_v1), ("rate_v2", rate_v2),
        (None, base), (None, init_base), (None, v1_stoich_base), ("lam_mul", lam_mul), ("lam_sub", lam_sub),
        (None, looped), (None, uses_exp), (None, uses_pi), (None, branch),
        (None, benign_0), (None, benign_1), (None, benign_2), (None, benign_3), (None, neutral_rate),
    ]
}
FORMALS = {
    "f_aff": ["u", "w"], "f_ratio": ["s", "km"], "f_lin": ["k", "s"], "sub": ["x", "y"], "mix": ["y", "k"],
    "rate_v1": ["a", "b"], "rate_v2": ["a", "b"], "base": ["u", "w"], "init_base": ["u", "w"], "v1_stoich_base": ["u", "w"],
    "lam_mul": ["a", "b"], "lam_sub": ["a", "b"], "looped": ["a", "b"], "uses_exp": ["a", "b"], "uses_pi": ["a", "b"],
    "branch": ["a", "b"], "benign_0": ["g0", "h0"], "benign_1": ["g1", "h1"], "benign_2": ["g2", "h2"], "benign_3": ["g3", "h3"],
}
# what is special about a function (reported only when the function itself is part of the minimal core)
FN_TAGS = {
    "f_ratio": ["formal-named-like-module-float"],
    "mix": ["formal-named-like-module-float"],
    "f_lin": ["formal-named-like-module-float", "uses-module-float"],
    "lam_mul": ["lambda"], "lam_sub": ["lambda"],
    "looped": ["for-loop"], "uses_exp": ["math-function-call"], "uses_pi": ["math-constant"], "branch": ["if-return"],
}
POOLS = {
    "plain": ["f_aff", "f_ratio", "f_lin"],
    "formals": ["sub", "mix", "f_aff"],
    "samename": ["rate_v1", "rate_v2", "f_aff"],
    "keyclash": ["base", "init_base", "v1_stoich_base"],
    "lambda": ["lam_mul", "lam_sub", "f_aff"],
    "hard": ["looped", "uses_pi", "branch"],
    "hard2": ["uses_exp", "branch", "f_ratio"],
}
MAIN_POOLS = ("plain", "formals", "samename", "keyclash")
FULL_SKELETONS = ("SK1", "SK2")
BENIGN = ["benign_0", "benign_1", "benign_2", "benign_3"]

# slot kind -> the two model names its arguments are drawn from
SLOT_NAMES = {
    "ia_par": ("k", "q"),
    "ia_var": ("q", "y"),
    "der_d": ("x", "y"),
    "der_e": ("y", "k"),  # ("d", "k") when d exists
    "rate_v1": ("x", "k"),
    "rate_v2": ("y", "q"),  # ("y", "d") when d exists
    "coef_v1": ("k", "q"),  # static computed coefficient
    "coef_v2": ("y", "q"),  # state dependent computed coefficient
}
SCHEME = {"ia_par": "initial-assignment", "ia_var": "initial-assignment", "der_d": "derived/reaction", "der_e": "derived/reaction",
          "rate_v1": "derived/reaction", "rate_v2": "derived/reaction", "coef_v1": "coefficient", "coef_v2": "coefficient"}
# skeletons: ordered slot kinds (prefixes of length 1..4 are enumerated) + a fixed named coefficient
SKELETONS = {
    "SK1": (["der_d", "rate_v1", "rate_v2", "ia_par"], {"v1": {"y": "q"}}),  # coefficient named by a parameter
    "SK2": (["rate_v1", "coef_v1", "der_d", "ia_var"], {}),
    "SK3": (["der_d", "der_e", "rate_v2", "coef_v2"], {"v2": {"y": "d"}}),  # coefficient named by a derived quantity
    "SK4": (["ia_par", "ia_var", "coef_v1", "rate_v1"], {}),
}
PATTERNS = ["n1,n2", "n2,n1", "n1,n1"]

STATES = [{"x": 0.7, "y": 1.9}, {"x": 2.3, "y": 0.4}, {"x": 1.1, "y": 1.3}]
TIMES = [0.0, 1.5, 0.0]  # one time per state (no component of the enumerated models reads the time)
PARAM_CHANGE = {"k": 0.8, "q": 2.6}


# ---------------------------------------------------------------------------
# case -> model


def slot_args(case, i):
    kinds, _named = SKELETONS[case["sk"]]
    kind = kinds[i]
    n1, n2 = SLOT_NAMES[kind]
    has_d = "der_d" in kinds[: len(case["assign"])]
    if has_d and kind == "der_e":
        n1, n2 = "d", "k"
    if has_d and kind == "rate_v2":
        n1, n2 = "y", "d"
    pat = case["assign"][i][1]
    return {0: [n1, n2], 1: [n2, n1], 2: [n1, n1]}[pat]


def slot_fn(case, i):
    f = case["assign"][i][0]
    return BENIGN[i] if f < 0 else POOLS[case["pool"]][f]


def describe(case):
    """Readable description of the model of a case (also the witness)."""
    kinds, named = SKELETONS[case["sk"]]
    n = len(case["assign"])
    slots = {kinds[i]: [slot_fn(case, i), slot_args(case, i)] for i in range(n)}
    d = {"variables": {"x": 1.0, "y": 2.0}, "parameters": {"k": 0.5, "q": 1.5}, "derived": [], "reactions": []}
    if "ia_var" in slots:
        d["variables"]["x"] = ["ia", *slots["ia_var"]]
    if "ia_par" in slots:
        d["parameters"]["p"] = ["ia", *slots["ia_par"]]
    for nm, kind in (("d", "der_d"), ("e", "der_e")):
        if kind in slots:
            d["derived"].append([nm, *slots[kind]])
    for r, var_minus, var_plus in (("v1", "x", "y"), ("v2", "y", "x")):
        rk, ck = f"rate_{r}", f"coef_{r}"
        if rk not in slots and ck not in slots:
            continue
        fn, args = slots.get(rk, ["neutral_rate", ["x", "k"] if r == "v1" else ["y", "q"]])
        st = {var_minus: -1.0}
        if ck in slots:
            st[var_plus] = ["fn", *slots[ck]]
        else:
            st[var_plus] = 2.0
        for v, c in named.get(r, {}).items():
            if c in ("k", "q") or any(x[0] == c for x in d["derived"]):
                st[v] = c
        d["reactions"].append([r, fn, args, st])
    return d


def build(desc):
    from mxlpy import Derived, InitialAssignment, Model

    m = Model()
    for name, v in desc["variables"].items():
        m.add_variable(name, InitialAssignment(fn=FN[v[1]], args=list(v[2])) if isinstance(v, list) else v)
    for name, v in desc["parameters"].items():
        m.add_parameter(name, InitialAssignment(fn=FN[v[1]], args=list(v[2])) if isinstance(v, list) else v)
    for name, fn, args in desc["derived"]:
        m.add_derived(name, FN[fn], args=list(args))
    for name, fn, args, st in desc["reactions"]:
        m.add_reaction(name, FN[fn], args=list(args),
                       stoichiometry={v: (Derived(fn=FN[c[1]], args=list(c[2])) if isinstance(c, list) else c) for v, c in st.items()})
    return m


_TRANSLATES: dict[str, bool] = {}


def translates(fn_key):
    """Does the translator, asked on its own, produce an expression for the function?"""
    if fn_key not in _TRANSLATES:
        from mxlpy.meta.source_tools import fn_to_sympy

        try:
            _TRANSLATES[fn_key] = fn_to_sympy(FN[fn_key], origin="probe") is not None
        except Exception:  # noqa: BLE001
            _TRANSLATES[fn_key] = False
    return _TRANSLATES[fn_key]


def fn_keys(desc):
    out = []
    for v in [*desc["variables"].values(), *desc["parameters"].values()]:
        if isinstance(v, list):
            out.append(v[1])
    out += [d[1] for d in desc["derived"]]
    for _n, fn, _a, st in desc["reactions"]:
        out.append(fn)
        out += [c[1] for c in st.values() if isinstance(c, list)]
    return out


# ---------------------------------------------------------------------------
# comparison of the rebuilt model with the original


def components(m):
    """name -> (kind, fn, args) for every function-bearing component of a real Model."""
    from mxlpy import Derived, InitialAssignment

    out = {}
    for name, v in m.get_raw_variables(as_copy=False).items():
        if isinstance(v.initial_value, InitialAssignment):
            out[f"initial value of {name}"] = ("ia", v.initial_value.fn, list(v.initial_value.args))
    for name, p in m.get_raw_parameters(as_copy=False).items():
        if isinstance(p.value, InitialAssignment):
            out[f"initial assignment of {name}"] = ("ia", p.value.fn, list(p.value.args))
    for name, d in m.get_raw_derived(as_copy=False).items():
        out[f"derived {name}"] = ("derived", d.fn, list(d.args))
    for name, r in m.get_raw_reactions(as_copy=False).items():
        out[f"rate of {name}"] = ("reaction", r.fn, list(r.args))
        for var, c in r.stoichiometry.items():
            if isinstance(c, Derived):
                out[f"coefficient of {name} on {var}"] = ("coef", c.fn, list(c.args))
    return out


def _close(a, b):
    a, b = float(a), float(b)
    if a != a or b != b:
        return a != a and b != b
    return abs(a - b) <= ATOL + RTOL * max(abs(a), abs(b))


def _cmp_map(got, want, what):
    if set(got) != set(want):
        return f"{what}: names {sorted(got)} expected {sorted(want)}"
    for n in want:
        if not _close(got[n], want[n]):
            return f"{what}: {n} = {float(got[n])!r} expected {float(want[n])!r}"
    return None


BIND_ENV = [
    {"x": 0.7, "y": 1.9, "k": 0.45, "q": 1.35, "p": 0.9, "d": -0.6, "e": 2.2, "time": 0.0},
    {"x": 2.3, "y": 0.4, "k": 1.7, "q": 0.3, "p": -1.2, "d": 1.4, "e": 0.1, "time": 1.0},
]


def compare(m, m2):
    """Returns None or (symptom, text): the first clause of K, B, I, V that fails."""
    # (K)
    if dict(m2.ids) != dict(m.ids):
        return "names-or-kinds-differ", f"ids {dict(m2.ids)} expected {dict(m.ids)}"
    c1, c2 = components(m), components(m2)
    if {n: v[0] for n, v in c1.items()} != {n: v[0] for n, v in c2.items()}:
        return "names-or-kinds-differ", f"function-bearing components {sorted(c2)} expected {sorted(c1)}"
    # (B)
    for name, (_kind, f1, a1) in c1.items():
        _k2, f2, a2 = c2[name]
        if a1 != a2:
            return "component-arguments-differ", f"{name}: args {a2} expected {a1}"
        for env in BIND_ENV:
            vals = [env[a] for a in a1]
            want = f1(*vals)
            try:
                got = f2(*vals)
            except Exception as e:  # noqa: BLE001
                return f"component-function-raises {type(e).__name__}", f"{name}: emitted function raises {type(e).__name__}: {e} at {dict(zip(a1, vals, strict=True))}"
            if not _close(got, want):
                return "component-function-differs", f"{name}: emitted function gives {float(got)!r} at {dict(zip(a1, vals, strict=True))}, original {float(want)!r}"
    # (I), (V) before and after a change of the base parameters in both models
    for phase in ("as-built", "after-parameter-change"):
        if phase == "after-parameter-change":
            m.update_parameters(PARAM_CHANGE)
            try:
                m2.update_parameters(PARAM_CHANGE)
            except Exception as e:  # noqa: BLE001
                return "parameter-values-differ", f"update_parameters({PARAM_CHANGE}) raises {type(e).__name__}: {e}"
        try:
            ic2, pv2 = m2.get_initial_conditions(), m2.get_parameter_values()
        except Exception as e:  # noqa: BLE001
            return f"evaluation-raises {type(e).__name__}", f"{phase}: get_initial_conditions raises {type(e).__name__}: {e}"
        r = _cmp_map(ic2, m.get_initial_conditions(), f"{phase}: initial values")
        if r:
            return "initial-values-differ", r
        r = _cmp_map(pv2, m.get_parameter_values(), f"{phase}: parameter values")
        if r:
            return "parameter-values-differ", r
        names = m.get_variable_names()
        for si, (st, t) in enumerate(zip(STATES, TIMES, strict=True)):
            # derivatives at every state through Model.__call__ (the function integrators call) ...
            y = [st[n] for n in names]
            want_r = dict(zip(names, m(t, y), strict=True))
            try:
                got_r = dict(zip(m2.get_variable_names(), m2(t, [st[n] for n in m2.get_variable_names()]), strict=True))
            except Exception as e:  # noqa: BLE001
                return f"evaluation-raises {type(e).__name__}", f"{phase}: evaluating the rebuilt model at {st}, t={t} raises {type(e).__name__}: {e}"
            r = _cmp_map(got_r, want_r, f"{phase}: derivatives at {st}, t={t}")
            if r:
                return "derivatives-differ-at-state", r
            if si != (0 if phase == "as-built" else 1):
                continue
            # ... and every derived value, flux and derivative by name at one state per phase
            want_a = m.get_args(st, t)
            want_r = m.get_right_hand_side(st, t)
            try:
                got_a = m2.get_args(st, t)
                got_r = m2.get_right_hand_side(st, t)
            except Exception as e:  # noqa: BLE001
                return f"evaluation-raises {type(e).__name__}", f"{phase}: evaluating the rebuilt model at {st}, t={t} raises {type(e).__name__}: {e}"
            r = _cmp_map(dict(got_a), dict(want_a), f"{phase}: values at {st}, t={t}")
            if r:
                return "values-differ-at-state", r
            r = _cmp_map(dict(got_r), dict(want_r), f"{phase}: derivatives at {st}, t={t}")
            if r:
                return "derivatives-differ-at-state", r
    return None


# ---------------------------------------------------------------------------
# run-time contract around the real emitter (recording, never raising)

_CONTRACT = {"evals": 0, "violations": 0, "last": None}


def _install_contract():
    import mxlpy.meta.codegen_mxlpy as cg

    if getattr(cg.generate_mxlpy_code_from_symbolic_repr, "__c11__", False):
        return
    orig = cg.generate_mxlpy_code_from_symbolic_repr

    def contracted(model, imports=None):
        out = orig(model, imports)
        _CONTRACT["evals"] += 1
        _CONTRACT["last"] = None
        # post: the text parses, top-level def names are unique, parameter lists duplicate free
        try:
            tree = ast.parse(out)
            names = [n.name for n in tree.body if isinstance(n, ast.FunctionDef)]
            if len(names) != len(set(names)):
                _CONTRACT["last"] = "duplicate def names"
        except SyntaxError as e:
            _CONTRACT["last"] = f"SyntaxError: {e.msg}"
        if _CONTRACT["last"]:
            _CONTRACT["violations"] += 1
        return out

    contracted.__c11__ = True
    cg.generate_mxlpy_code_from_symbolic_repr = contracted


def check_desc(desc):
    """One model description -> {'outcome': 'ok'|'rejected'|'skipped'|'fail', 'symptom', 'text'}"""
    import mxlpy.meta.codegen_mxlpy as cg

    _install_contract()
    try:
        m = build(desc)
        m(0.0, [STATES[0][n] for n in m.get_variable_names()])
    except Exception as e:  # noqa: BLE001
        return {"outcome": "skipped", "symptom": None, "text": f"original model not evaluable: {type(e).__name__}: {e}"}
    all_translate = all(translates(f) for f in fn_keys(desc))
    try:
        src = cg.generate_mxlpy_code(m)
    except Exception as e:  # noqa: BLE001
        if all_translate:
            return {"outcome": "fail", "symptom": f"generation-raises {type(e).__name__}",
                    "text": f"generate_mxlpy_code raises {type(e).__name__}: {str(e)[:120]} although every function translates on its own"}
        return {"outcome": "rejected", "symptom": None, "text": f"{type(e).__name__}: {str(e)[:80]}"}
    post = _CONTRACT["last"]
    ns: dict = {}
    try:
        exec(compile(src, "<generated>", "exec"), ns)  # noqa: S102
        m2 = ns["create_model"]()
    except Exception as e:  # noqa: BLE001
        return {"outcome": "fail", "symptom": f"generated-source-does-not-run {type(e).__name__}",
                "text": f"exec(generated source)['create_model']() raises {type(e).__name__}: {str(e)[:120]}", "source": src, "post": post}
    try:
        r = compare(m, m2)
    except Exception as e:  # noqa: BLE001
        return {"outcome": "skipped", "symptom": None, "text": f"reference evaluation failed: {type(e).__name__}: {e}"}
    if r is None:
        return {"outcome": "ok" if all_translate else "ok-although-untranslatable", "symptom": None, "text": ""}
    return {"outcome": "fail", "symptom": r[0], "text": r[1], "source": src, "post": post}


def check_case(case):
    return check_desc(describe(case))


# ---------------------------------------------------------------------------
# shrinking and keys


def shrink(case, symptom):
    """Greedy: slot -> benign function with distinct arguments / benign function only /
    canonical arguments only, as long as the same symptom remains."""
    cur = {"sk": case["sk"], "pool": case["pool"], "assign": [list(a) for a in case["assign"]]}

    def still(c):
        r = check_case(c)
        return r["outcome"] == "fail" and r["symptom"] == symptom

    changed = True
    while changed:  # to a fixpoint: removing one slot can make another one removable
        changed = False
        for i in range(len(cur["assign"])):
            f, p = cur["assign"][i]
            for cand in ([-1, 0], [-1, p], [f, 0]):
                if cand == [f, p] or (f < 0 and cand[0] >= 0):
                    continue
                trial = {"sk": cur["sk"], "pool": cur["pool"], "assign": [list(a) for a in cur["assign"]]}
                trial["assign"][i] = cand
                if still(trial):
                    cur = trial
                    changed = True
                    break
    return cur


def core_tags(case):
    kinds, _ = SKELETONS[case["sk"]]
    tags, fns_used, schemes = set(), {}, set()
    for i, (f, p) in enumerate(case["assign"]):
        key = slot_fn(case, i)
        args = slot_args(case, i)
        formals = FORMALS[key]
        special = False
        if p == 2:
            tags.add("repeated-argument")
            special = True
        if any(a in formals and formals.index(a) != j for j, a in enumerate(args)):
            tags.add("arguments-named-like-other-formals-of-the-function")
            special = True
        if f >= 0:
            special = True
            tags.update(FN_TAGS.get(key, []))
            fns_used.setdefault(key, []).append(args)
        if special:
            schemes.add(SCHEME[kinds[i]])
    names = {}
    for key in fns_used:
        names.setdefault(FN[key].__name__, set()).add(key)
    if any(len(v) > 1 for v in names.values()):
        tags.add("two-functions-one-name")
    for key, uses in fns_used.items():
        if len(uses) > 1:
            tags.add("one-function-several-components" + ("" if all(u == uses[0] for u in uses) else "-with-different-arguments"))
    pynames = set(names)
    if any(("init_" + n) in pynames or any(f"{r}_stoich_{n}" in pynames for r in ("v1", "v2")) for n in pynames):
        tags.add("function-named-like-a-generated-def")
    return sorted(tags), sorted(schemes)


def failure_key(case, symptom):
    tags, schemes = core_tags(case)
    kinds, _ = SKELETONS[case["sk"]]
    if not tags:
        used = sorted({kinds[i] for i, (f, _p) in enumerate(case["assign"]) if f >= 0}) or [f"{case['sk']}/{len(case['assign'])}"]
        return f"bounded:{symptom}:no-special-feature[{','.join(used)}]"
    return f"bounded:{symptom}:{'+'.join(tags)}[{','.join(schemes)}]"


def replay(witness):
    """Re-runs one witness (a case or a unit model) on the real code; returns the failing key or None."""
    _quiet()
    if "unit_case" in witness:
        r = check_unit_case(witness["unit_case"])
        return r["key"] if r["outcome"] == "fail" else None
    case = witness["case"]
    r = check_case(case)
    if r["outcome"] != "fail":
        return None
    return failure_key(case, r["symptom"])


# ---------------------------------------------------------------------------
# units (a variable / parameter that carries a unit is still a variable / parameter)

UNIT_CASES = ["variable-with-unit", "parameter-with-unit"]


def check_unit_case(which):
    import mxlpy.meta.codegen_mxlpy as cg
    from mxlpy import Model, units

    m = Model()
    m.add_variable("x", 1.0, unit=units.mmol if which == "variable-with-unit" else None)
    m.add_parameter("k", 0.5, unit=units.hour if which == "parameter-with-unit" else None)
    m.add_reaction("v1", f_aff, args=["x", "k"], stoichiometry={"x": -1.0})
    try:
        src = cg.generate_mxlpy_code(m)
    except Exception as e:  # noqa: BLE001
        return {"outcome": "fail", "key": f"bounded:generation-raises {type(e).__name__}:{which}",
                "text": f"generate_mxlpy_code raises {type(e).__name__}: {str(e)[:100]} for a model whose only function translates"}
    try:
        ns: dict = {}
        exec(compile(src, "<generated>", "exec"), ns)  # noqa: S102
        m2 = ns["create_model"]()
    except Exception as e:  # noqa: BLE001
        return {"outcome": "fail", "key": f"bounded:generated-source-does-not-run {type(e).__name__}:{which}",
                "text": f"exec(generated source)['create_model']() raises {type(e).__name__}: {str(e)[:100]}"}
    r = compare(m, m2)
    if r:
        return {"outcome": "fail", "key": f"bounded:{r[0]}:{which}", "text": r[1]}
    return {"outcome": "ok", "key": None, "text": ""}


# ---------------------------------------------------------------------------
# enumeration


def all_cases(sk, pool, n):
    for combo in itertools.product(range(9), repeat=n):
        yield {"sk": sk, "pool": pool, "assign": [[c // 3, c % 3] for c in combo]}


def enumerate_cases(tier, rng):
    """quick: every assignment to 1 component, to 2 components for the main pools, the rest sampled;
    thorough: every assignment to <= 3 components, all 6561 assignments to 4 components for the main
    pools on two skeletons, 800 sampled per (skeleton, pool) otherwise."""
    out = []
    for sk in SKELETONS:
        for pool in POOLS:
            main = pool in MAIN_POOLS
            for n in (1, 2, 3, 4):
                full = list(all_cases(sk, pool, n))
                if tier == "quick":
                    quota = {1: None, 2: None if main else 40, 3: 45 if main else 15, 4: 80 if main else 20}[n]
                else:
                    quota = {1: None, 2: None, 3: None, 4: None if (main and sk in FULL_SKELETONS) else 800}[n]
                if quota is not None and quota < len(full):
                    full = rng.sample(full, quota)
                out += full
    return out


def _quiet():
    logging.disable(logging.CRITICAL)
    os.environ.setdefault("TQDM_DISABLE", "1")
    warnings.filterwarnings("ignore")


def _work(chunk):
    _quiet()
    t0 = _time.time()
    counts = {"ok": 0, "rejected": 0, "skipped": 0, "fail": 0, "ok-although-untranslatable": 0}
    fails = {}  # key -> record (first per key)
    shrink_cache = {}
    shrunk_per_sig = _SHRUNK
    nontrivial = 0
    for case in chunk:
        r = check_case(case)
        counts[r["outcome"]] += 1
        fs = [slot_fn(case, i) for i in range(len(case["assign"]))]
        if len(case["assign"]) >= 2 and (len(set(fs)) < len(fs) or len({FN[f].__name__ for f in fs}) < len(set(fs))):
            nontrivial += 1
        if r["outcome"] != "fail":
            continue
        sig = (r["symptom"], json.dumps(core_tags(case)))
        shrunk_per_sig[sig] = shrunk_per_sig.get(sig, 0) + 1
        if shrunk_per_sig[sig] > SHRINKS_PER_SIGNATURE:
            continue  # counted as failing; its class (symptom, features of the whole case) was already minimised several times
        core = shrink(case, r["symptom"])
        ck = json.dumps(core, sort_keys=True)
        if ck not in shrink_cache:
            rc = check_case(core)
            shrink_cache[ck] = (failure_key(core, r["symptom"]), rc)
        key, rc = shrink_cache[ck]
        if key not in fails:
            fails[key] = {"key": key, "what": rc.get("text") or r["text"], "case": core, "model": describe(core), "found_in": case,
                          "post": rc.get("post"), "source": (rc.get("source") or "")[:1500]}
    return {"counts": counts, "fails": fails, "n": len(chunk), "nontrivial": nontrivial, "wall": _time.time() - t0,
            "contract": dict(_CONTRACT)}


def canary():
    """The comparison must notice a rebuilt model that differs in one function binding."""
    a = {"sk": "SK1", "pool": "plain", "assign": [[0, 0], [1, 0]]}
    b = {"sk": "SK1", "pool": "plain", "assign": [[0, 1], [1, 0]]}
    r = compare(build(describe(a)), build(describe(b)))
    if r is None or r[0] != "component-arguments-differ":
        raise CheckerError(f"canary: permuted arguments of a derived quantity not noticed ({r})")
    c = {"sk": "SK1", "pool": "plain", "assign": [[2, 0], [1, 0]]}
    r = compare(build(describe(a)), build(describe(c)))
    if r is None or r[0] != "component-function-differs":
        raise CheckerError(f"canary: exchanged function of a derived quantity not noticed ({r})")
    r = compare(build(describe(a)), build(describe(a)))
    if r is not None:
        raise CheckerError(f"canary: a model differs from its own rebuild ({r})")


def run(ctx: Ctx) -> None:
    _quiet()
    t0 = _time.time()
    rng = random.Random(seed())
    canary()
    cases = enumerate_cases(ctx.tier, rng)
    rng.shuffle(cases)
    workers = max(1, min(14, (os.cpu_count() or 2) - 2))
    nchunks = workers * (3 if ctx.tier == "quick" else 12)
    chunks = [cases[i::nchunks] for i in range(nchunks)]
    with ProcessPoolExecutor(max_workers=workers) as ex:
        results = list(ex.map(_work, chunks, chunksize=1))

    counts = {}
    fails = {}
    evals = 0
    for r in results:
        evals += r["contract"]["evals"]
        for kk, v in r["counts"].items():
            counts[kk] = counts.get(kk, 0) + v
        for key, f in r["fails"].items():
            fails.setdefault(key, f)
    n_unit = 0
    for which in UNIT_CASES:
        n_unit += 1
        r = check_unit_case(which)
        if r["outcome"] == "fail":
            ctx.fail(key=r["key"], kind="bounded", what=f"{which}: {r['text']}", witness={"unit_case": which},
                     replayed=replay({"unit_case": which}) == r["key"])
    if evals == 0:
        raise CheckerError("the contract wrapper around generate_mxlpy_code_from_symbolic_repr was never evaluated (bypassed)")
    compared = counts.get("ok", 0) + counts.get("fail", 0) + counts.get("ok-although-untranslatable", 0)
    if compared == 0:
        raise CheckerError("no generated model was ever compared with its original")
    if counts.get("skipped", 0) > len(cases) // 10:
        raise CheckerError(f"{counts['skipped']} of {len(cases)} cases skipped (original model not evaluable)")
    for key in sorted(fails):
        f = fails[key]
        w = {"case": f["case"], "model": f["model"]}
        try:
            rep = replay(w) == key
        except Exception:  # noqa: BLE001
            rep = False
        ctx.fail(key=key, kind="bounded", what=f["what"], witness=w, replayed=rep,
                 detail={"found_in": f["found_in"], "emitter_postcondition": f["post"], "generated_source": f["source"]})
    total = len(cases) + n_unit
    samples = []
    for c in cases[:3]:
        samples.append({"case": c, "model": describe(c)})
    ctx.add_bounded(
        name="C11-generated-mxlpy-source",
        tool="enumerated function assignments on real Models; exec(generate_mxlpy_code(m))['create_model']() compared with m "
             "(ids, bindings, initial values, parameters, values and derivatives on a state grid, again after a parameter change)",
        bound=(f"{len(SKELETONS)} model skeletons (2 variables, 2-3 parameters, <= 2 derived, <= 2 reactions; slots: initial assignment of a variable / "
               "of a parameter, derived, rate, static and state-dependent computed coefficient; fixed coefficient named by a parameter / by a derived quantity) x "
               f"{len(POOLS)} pools of 3 functions (plain incl. formals named like module floats; formals named like model components; two functions named `rate`; "
               "functions named init_<f> / <rxn>_stoich_<f>; lambdas; for-loop, math constant, if/return, math call) x every assignment of the 3 functions to the first "
               "1..4 slots x argument pattern per slot (n1,n2 / n2,n1 / n1,n1): "
               + ("all assignments to 1 component, to 2 components for the pools plain/formals/samename/keyclash, the rest sampled" if ctx.tier == "quick" else
                  "all assignments to <= 3 components, all 6561 assignments to 4 components for the pools plain/formals/samename/keyclash on skeletons SK1 and SK2, "
                  "800 sampled per (skeleton, pool) otherwise")
               + f"; {counts.get('rejected', 0)} generations raised for untranslatable functions (allowed), {counts.get('skipped', 0)} skipped; "
               f"emitter post-condition evaluated {evals} times; + {n_unit} models with units"),
        cases=total, distinct_nontrivial=sum(r["nontrivial"] for r in results),
        rule="one case = one model (skeleton prefix, pool, function and argument pattern per slot), distinct by construction; non-trivial = >= 2 function slots "
             "and a function shared by two components or two different functions sharing a __name__",
        exhaustive=False, samples=samples,
    )
    ctx.extra["C11"] = {"outcomes": counts, "wall_s": round(_time.time() - t0, 1), "workers": workers,
                        "cpu_s": round(sum(r["wall"] for r in results), 1), "distinct_failure_keys": len(fails)}
    ctx.trust("the original Model's own evaluation (get_args, get_right_hand_side, get_initial_conditions) as the reference: C01/C13",
              "python exec/compile; fn_to_sympy asked on one function alone decides 'can be translated'")
    ctx.assume(f"numerical comparison rtol={RTOL} atol={ATOL}: the emitted body is the sympy-normalised form of the same polynomial / rational expression, "
               "only the association of <= 4 floating point operations may differ",
               "states are generic positive numbers; a case whose ORIGINAL model cannot be evaluated is skipped and counted",
               "generation may raise only when some function of the model is rejected by the translator on its own; any exception type counts as raising")
