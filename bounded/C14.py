"""Bounded stand-in for C14 (labelled bounded, never counted as proved).

Protocols built with the real ``make_protocol`` are run through the real
``Simulator.simulate_protocol`` / ``simulate_protocol_time_course`` on the model of
bounded/C04.py with an inflow (kin > 0), whose solution is sensitive to *when* a
parameter switch happens:

    dS/dt = kin - k1*S      dP/dt = k1*S - k2*P      dQ/dt = k3*S

Checked per case (protocol x requested grid x prior history x form):

  (E1) closed form: step i's values govern exactly (b_{i-1}, b_i] (b = t_start + cumulative
       durations): every protocol segment equals the closed-form solution started from the
       previous recorded final row under step i's values, its recorded parameter map is the
       previous map updated with step i's values;
  (E2) apply-and-simulate: the result equals a second simulator on which the steps are
       applied by hand (update_parameters + simulate / simulate_time_course) in turn;
  (G)  time-course form: the accumulated axis over the protocol is exactly
       {start (fresh only)} u {requested points in (start, end]} u {boundaries}, each once,
       every point in the segment of the step whose half-open interval contains it;
       refused (ValueError) <=> last requested point <= time reached;
  (F)  fluxes reported inside a step are the rate laws at the recorded states under that
       step's values.

The lock-step oracle, the comparison and the Inv_S run-time contract (icontract) are the
ones of bounded/C04.py.
"""
from __future__ import annotations

import itertools
import random

import numpy as np

from bounded import C04
from bounded.C04 import Oracle, Stop, apply_op, compare, exact_fluxes
from vlib.core import CheckerError, Ctx, seed

Y0 = {"S": 1.0, "P": 0.5, "Q": 0.0}
P14 = {"kin": 1.0, "k1": 1.0, "k2": 2.0, "k3": 0.5}
TOL_FLUX = 1e-12

POOL = {
    "a": {"kin": 1.0, "k1": 1.0, "k2": 2.0},
    "b": {"kin": 0.5, "k1": 4.0, "k2": 2.0},
    "c": {"kin": 2.0, "k1": 0.5, "k2": 3.0},
    "d": {"kin": 1.0, "k1": 4.0, "k2": 0.25},  # repeats a's kin only
}
POOL1 = {"a": {"k1": 1.0}, "b": {"k1": 4.0}, "c": {"k1": 0.5}}  # one-parameter protocols
DURATIONS = {
    1: [[1.5], [0.25]],
    2: [[1.0, 0.5], [0.25, 2.0]],
    3: [[1.0, 0.5, 1.5], [0.75, 0.75, 0.25]],
    4: [[1.0, 0.5, 1.5, 0.75], [0.25, 0.25, 2.0, 0.5]],
}
_PRIOR_PROTO = [[0.5, {"kin": 2.0, "k1": 0.5}], [1.0, {"kin": 0.5, "k1": 4.0}]]
PRIORS = {
    "fresh": [],
    "fresh-with-override": [{"op": "update_variable", "name": "S", "value": 2.0}],
    "after-simulate": [{"op": "simulate", "t_abs": 2.0, "steps": 4}],
    "after-time-course": [{"op": "time_course", "pts_abs": [0.5, 3.0]}],
    "after-large-time": [{"op": "simulate", "t_abs": 4096.0, "steps": 2}],
    "after-protocol": [{"op": "protocol", "steps": _PRIOR_PROTO, "tpps": 3}],
    "after-override": [{"op": "simulate", "t_abs": 2.0, "steps": 4}, {"op": "update_variable", "name": "S", "value": 2.0}],
    "after-parameter-update": [{"op": "time_course", "pts_abs": [1.0, 2.5]}, {"op": "update_parameter", "name": "k3", "value": 2.0}],
}


def grids(durs: list[float]) -> dict[str, dict]:
    """Requested time grids, relative to the protocol start."""
    b = list(itertools.accumulate(durs))
    lo = [0.0] + b[:-1]
    end = b[-1]
    mids = [(x + y) / 2 for x, y in zip(lo, b)]
    g = {
        "boundaries": b,
        "between": mids,
        "mixed-beyond": sorted({b[0] / 2, b[0], (lo[-1] + end) / 2, end, end + 1.0, end + 2.0}),
        "all-beyond": [end + 0.5, end + 1.0],
        "start-and-before": sorted({-0.5, 0.0, b[0] / 2, end}),
        "single-inside": [b[0] / 2],
        "illegal-end-at-start": [-1.0, 0.0],
        "fine-1/32": [i / 32 for i in range(1, int(end * 32) + 3)],
    }
    return {k: {"pts": v} for k, v in g.items()}


def protocols(tier: str, rng: random.Random) -> list[tuple[str, list]]:
    out: list[tuple[str, list]] = []
    for n in (1, 2, 3, 4):
        seqs = ["".join(s) for s in itertools.product("abc", repeat=n)]
        if n == 4 and tier == "quick":
            with_rep = [s for s in seqs if any(x == y for x, y in zip(s, s[1:]))]
            rng.shuffle(with_rep)
            others = [s for s in seqs if s not in with_rep]
            rng.shuffle(others)
            seqs = sorted(with_rep[:9] + others[:3])
        for si, s in enumerate(seqs):
            for di, durs in enumerate(DURATIONS[n]):
                if tier == "quick" and n != 2 and di != si % 2:
                    continue  # quick: one of the two duration layouts, alternating
                out.append((f"{s}/d{di}", [[d, dict(POOL[c])] for d, c in zip(durs, s)]))
    for s, durs in (("ad", [1.0, 0.5]), ("ada", [1.0, 0.5, 1.5]), ("ddba", [0.25, 0.25, 2.0, 0.5])):
        out.append((f"{s}/partial", [[d, dict(POOL[c])] for d, c in zip(durs, s)]))
    for s in ("ab", "aab", "abba", "bbb", "cab", "acca"):
        out.append((f"{s}/one-parameter", [[d, dict(POOL1[c])] for d, c in zip(DURATIONS[len(s)][0], s)]))
    return out


def cases(tier: str, rng: random.Random) -> list[dict]:
    cs = []
    protos = protocols(tier, rng)
    for pname, steps in protos:
        gs = grids([d for d, _ in steps])
        for prior in PRIORS:
            for tpps in (3, 10) if tier != "quick" or prior in ("fresh", "after-simulate") else (3,):
                cs.append({"protocol": pname, "prior": prior, "form": "simulate_protocol", "grid": f"time_points_per_step={tpps}",
                           "op": {"op": "protocol", "steps": steps, "tpps": tpps}})
            main_prior = prior in ("fresh", "after-simulate", "after-large-time", "after-override")
            for gname, g in gs.items():
                if gname == "fine-1/32" and prior not in ("fresh", "after-large-time", "after-override"):
                    continue
                if tier == "quick" and not main_prior and gname not in ("boundaries", "mixed-beyond", "start-and-before"):
                    continue
                rels = (False, True) if tier != "quick" or gname in ("mixed-beyond", "illegal-end-at-start") else (False,)
                for rel in rels:
                    op = {"op": "protocol_time_course", "steps": steps, "relative": rel}
                    op["pts_given" if rel else "pts_rel"] = g["pts"]
                    cs.append({"protocol": pname, "prior": prior, "form": "simulate_protocol_time_course",
                               "grid": gname + ("/relative" if rel else "/absolute"), "op": op})
    if tier != "quick":
        # sampled: random layouts (durations multiples of 1/64 s) x random dyadic grids
        pri = list(PRIORS)
        for i in range(4000):
            n = rng.randint(1, 4)
            steps = [[rng.randint(1, 192) / 64, dict(POOL[rng.choice("abcd")])] for _ in range(n)]
            end = sum(d for d, _ in steps)
            pts = sorted({rng.randint(-64, int(end * 64) + 64) / 64 for _ in range(rng.randint(1, 12))})
            rel = rng.random() < 0.5
            op = {"op": "protocol_time_course", "steps": steps, "relative": rel}
            op["pts_given" if rel else "pts_rel"] = pts
            cs.append({"protocol": f"random-{i}", "prior": rng.choice(pri), "form": "simulate_protocol_time_course",
                       "grid": "random/" + ("relative" if rel else "absolute"), "op": op})
    return cs


# ---------------------------------------------------------------------------


def _reference(case, n_prior_rows):
    """Apply-and-simulate by hand on a second simulator.  Returns (rows, per-row parameter
    maps) recorded after the prior history, or None if the reference itself cannot run."""
    from mxlpy import Simulator

    ref = Simulator(C04.build_model(P14, Y0))
    orc = Oracle(Y0, P14)
    try:
        for op in PRIORS[case["prior"]]:
            apply_op(ref, orc, op, [])
        n0 = 0 if ref.variables is None else sum(len(d) for d in ref.variables)
        if n0 != n_prior_rows:
            return None
        r = orc.r
        op = case["op"]
        bounds = [r + x for x in itertools.accumulate(d for d, _ in op["steps"])]
        if op["op"] == "protocol":
            for (_d, p), hi in zip(op["steps"], bounds):
                ref.update_parameters(dict(p))
                ref.simulate(hi, steps=op["tpps"])
        else:
            pts = [r + x for x in (op["pts_given"] if op["relative"] else op["pts_rel"])]
            grid = sorted(set(pts) | set(bounds))
            lo = r
            for (_d, p), hi in zip(op["steps"], bounds):
                ref.update_parameters(dict(p))
                ref.simulate_time_course([t for t in grid if lo < t <= hi])
                lo = hi
    except Exception:  # noqa: BLE001
        return None
    if ref.variables is None:
        return None
    import pandas as pd

    rows = pd.concat(ref.variables, axis=0).iloc[n0:]
    pars = [ref.simulation_parameters[j] for j, d in enumerate(ref.variables) for _ in range(len(d))][n0:]
    return rows, pars


def run_case(case: dict) -> dict:
    import icontract

    from mxlpy import Simulator

    evals0 = C04._EVALS["n"]
    sim = Simulator(C04.build_model(P14, Y0))
    orc = Oracle(Y0, P14)
    calls: list[str] = []
    stats = {"max_err": 0.0, "max_err_ss": 0.0, "segments_checked": 0, "flux_rows": 0, "ref_rows": 0}
    failure = None
    checked = 0
    stage = "prior"
    refused = False
    try:
        for op in PRIORS[case["prior"]]:
            apply_op(sim, orc, op, calls)
            checked = compare(sim, orc, checked, stats)
        n_prior = len(orc.segs)
        stage = "protocol"
        apply_op(sim, orc, case["op"], calls)
        refused = len(orc.segs) == n_prior
        checked = compare(sim, orc, checked, stats)
        if not refused:
            stage = "fluxes"
            import pandas as pd

            res = sim.get_result().unwrap_or_err()
            raw = pd.concat(res.raw_variables, axis=0)
            t_all = np.asarray(raw.index, float)
            fl = res.fluxes
            conc = res.variables
            for name_, view in (("fluxes", fl), ("variables", conc)):
                if len(view) != len(t_all) or not np.allclose(np.asarray(view.index, float), t_all, rtol=0, atol=C04.TOL_TIME):
                    raise Stop("flux-frames", f"the {name_} view does not have one row per recorded time point")
            offs = np.concatenate([[0], np.cumsum([len(s_["times"]) for s_ in orc.segs])]).astype(int)
            for i in range(n_prior, len(orc.segs)):
                lo, hi = int(offs[i]), int(offs[i + 1])
                want = exact_fluxes(raw.iloc[lo:hi], orc.segs[i]["params"])
                for name, w in want.items():
                    got = fl[name].to_numpy()[lo:hi]
                    err = np.abs(got - w) / (1 + np.abs(w))
                    if err.size and err.max() > TOL_FLUX:
                        j = int(np.argmax(err))
                        raise Stop("flux-uses-other-step-values",
                                   f"step {i - n_prior}: flux {name} at t={t_all[lo + j]:.10g} is {got[j]:.10g}; with the step's values {orc.segs[i]['params']} "
                                   f"and the recorded state it is {w[j]:.10g}")
                stats["flux_rows"] += hi - lo
            stage = "reference"
            ref = _reference(case, int(offs[n_prior]))
            if ref is not None:
                ref_rows, ref_pars = ref
                lo = int(offs[n_prior])
                mine = raw.iloc[lo:]
                my_pars = [sim.simulation_parameters[j] for j, d in enumerate(sim.variables) for _ in range(len(d))][lo:]
                ta, tb = np.asarray(mine.index, float), np.asarray(ref_rows.index, float)
                if len(ta) != len(tb) or np.abs(ta - tb).max() > C04.TOL_TIME:
                    raise Stop("differs-from-apply-and-simulate", f"time points {C04._fmt(ta)} vs applying the steps by hand {C04._fmt(tb)}")
                bb = ref_rows.loc[:, mine.columns].to_numpy()
                err = np.abs(mine.to_numpy() - bb) / (1 + np.abs(bb))
                if err.max() > C04.TOL_STATE:
                    k = int(np.argmax(err.max(axis=1)))
                    raise Stop("differs-from-apply-and-simulate", f"states at t={ta[k]:.10g} differ from applying the steps by hand (rel err {err.max():.3g})")
                for k, (pa, pb) in enumerate(zip(my_pars, ref_pars)):
                    if dict(pa) != dict(pb):
                        raise Stop("differs-from-apply-and-simulate", f"parameters recorded for t={ta[k]:.10g}: {dict(pa)} vs by hand {dict(pb)}")
                stats["ref_rows"] += len(ta)
    except Stop as e:
        failure = {"clause": e.clause, "what": e.what, "detail": e.detail}
    except icontract.ViolationError as e:
        failure = {"clause": "time-axis-not-increasing", "what": str(e).splitlines()[0], "detail": {}}
    except Exception as e:  # noqa: BLE001
        failure = {"clause": f"unexpected-{type(e).__name__}", "what": f"{type(e).__name__}: {e}", "detail": {}}
    if failure:
        failure["stage"] = stage
    return {"failure": failure, "calls": calls, "segments": len(orc.segs), "refused": refused, "stats": stats,
            "evals": C04._EVALS["n"] - evals0}


def key_of(case: dict, f: dict) -> str:
    if f["stage"] == "prior":
        return f"bounded:prior-history-{f['clause']}:{case['prior']}"
    return f"bounded:{f['clause']}:{case['form']}:{case['prior']}"


def _work(chunk):
    C04.quiet()
    out = []
    for cid, case in chunk:
        r = run_case(case)
        r["id"] = cid
        if r["failure"] is None:
            r["calls"] = None
        out.append(r)
    return out


def run(ctx: Ctx) -> None:
    import mxlpy  # noqa: F401

    C04.quiet()
    dev = C04.selfcheck_oracle()
    rng = random.Random(seed())
    cs = cases(ctx.tier, rng)
    C04.attach_contract()
    try:
        results = C04.run_pool(list(enumerate(cs)), _work)
    finally:
        C04.detach_contract()

    n = len(results)
    evals = sum(r["evals"] for r in results)
    if evals < n:
        raise CheckerError(f"C14: run-time contract evaluated {evals} times over {n} cases: wrapper bypassed")
    nontrivial = {(cs[r["id"]]["protocol"], cs[r["id"]]["prior"], cs[r["id"]]["form"], cs[r["id"]]["grid"]) for r in results if r["segments"] > 0 or r["refused"]}
    seen: dict[str, dict] = {}
    n_fail = 0
    for r in sorted(results, key=lambda r: (len(cs[r["id"]]["op"]["steps"]), r["id"])):
        if r["failure"]:
            n_fail += 1
            seen.setdefault(key_of(cs[r["id"]], r["failure"]), r)
    for k, r in seen.items():
        case, f = cs[r["id"]], r["failure"]
        C04.attach_contract()
        try:
            again = run_case(case)
        finally:
            C04.detach_contract()
        replayed = again["failure"] is not None and key_of(case, again["failure"]) == k
        ctx.fail(key=k, kind="bounded", what=f"{f['what']}  [calls: {'; '.join(r['calls'])}]",
                 witness={"model": "S,P,Q chain with inflow (bounded/C04.py build_model)", "y0": Y0, "parameters": P14,
                          "prior": PRIORS[case["prior"]], "case": case, "calls": r["calls"]},
                 replayed=replayed, detail=f["detail"] | {"stage": f["stage"], "failing_cases_total": n_fail})

    samples = []
    for r in results:
        c = cs[r["id"]]
        if r["failure"] is None and len(c["op"]["steps"]) >= 3 and c["prior"] != "fresh" and len(samples) < 3:
            samples.append({k: c[k] for k in ("protocol", "prior", "form", "grid")} | {"segments": r["segments"]})
    n_protocols = len({c["protocol"] for c in cs if not c["protocol"].startswith("random-")})
    ctx.add_bounded(
        name="C14-protocols",
        tool="small-scope enumeration; closed-form oracle, apply-and-simulate reference, flux recomputation, icontract Inv_S on the real Simulator",
        bound=f"{n_protocols} protocols (1-4 steps over 3 value rows incl. consecutive repeats, 2 unequal duration layouts, partial repeats, one-parameter) "
              f"x {len(PRIORS)} prior histories x (simulate_protocol with 3/10 points per step | simulate_protocol_time_course with up to 8 grids, absolute/relative)"
              + ("" if ctx.tier == "quick" else " + 4000 sampled (random durations in 1/64 s, random grids, random prior)"),
        cases=n,
        distinct_nontrivial=len(nontrivial),
        rule="one case per (protocol, prior history, form, grid); non-trivial if the protocol was simulated or refused",
        exhaustive=False,
        samples=samples,
    )
    ctx.extra["C14"] = {
        "segments_checked_against_closed_form": sum(r["stats"]["segments_checked"] for r in results),
        "flux_rows_checked": sum(r["stats"]["flux_rows"] for r in results),
        "rows_compared_with_apply_and_simulate": sum(r["stats"]["ref_rows"] for r in results),
        "max_rel_state_error_observed": max(r["stats"]["max_err"] for r in results),
        "contract_evaluations": evals,
        "oracle_vs_expm_max_dev": dev,
        "failing_cases": n_fail,
    }
    ctx.trust(
        "scipy.integrate.solve_ivp(LSODA, rtol=atol=1e-8) returns the ODE solution at t_eval to tolerance",
        "pandas Timedelta arithmetic is exact for the durations used (multiples of 1/64 s)",
    )
    ctx.assume(
        f"state tolerance {C04.TOL_STATE:g}*(1+|y|) per segment (50x the integrator's local tolerance), flux tolerance {TOL_FLUX:g} (same arithmetic)",
        "durations > 0 and every step names the same parameters (make_protocol fills missing entries with NaN; outside the scope)",
        "requested grids strictly increasing; all times are multiples of 1/64 s so Timedelta (ns) and float arithmetic are exact",
    )


def replay(witness: dict) -> dict | None:
    """Re-run a recorded witness ({"case": {...}}) on the current tree."""
    import mxlpy  # noqa: F401

    C04.quiet()
    C04.attach_contract()
    try:
        r = run_case(witness["case"])
    finally:
        C04.detach_contract()
    if r["failure"] is None:
        return None
    return r["failure"] | {"key": key_of(witness["case"], r["failure"]), "calls": r["calls"]}


if __name__ == "__main__":  # python -m bounded.C14 replays/C14-<hash>.json
    import json
    import sys

    w = json.load(open(sys.argv[1]))
    out = replay(w.get("witness", w))
    print(json.dumps(out, indent=1, default=str))
    sys.exit(1 if out else 0)
