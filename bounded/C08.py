"""Bounded stand-in for C08 (labelled bounded, never counted as proved).

Contract (from the property statement), checked at run time on the REAL
``mxlpy.sbml.write`` followed by the REAL ``mxlpy.sbml.read`` over enumerated
surrogate-free models:

  for every model M of the scope and every state of a grid, either
  (W)  ``write(M, file)`` refuses (NotImplementedError / ValueError / TypeError: "a construct
       the exporter cannot represent makes the export raise"); any other exception on a
       model that evaluates is a crash of the exporter, not a refusal; or
  (C)  ``read(file)`` returns a model that CONTAINS every variable, parameter, derived
       quantity and reaction of M under its name (the importer adds a ``compartment``
       parameter and ``<x>_amount`` quantities: containment, not equality), with the same
       initial values and parameter values and, at every state of the grid and two times,
       the same derived values, fluxes and derivatives as M itself
       (``get_initial_conditions`` / ``get_args`` / ``get_right_hand_side`` of both models).

Scope: one host model (2-3 variables, 2-3 parameters) whose single slot is filled with
every operator / table entry of the exporter (unary / binary operators, the six
comparisons, chained comparisons, boolean operators, conditional expressions, every entry
of the UNARY / BINARY / NARY call tables under ``math.``, ``np.`` and bare names, other
numpy / math functions, attribute constants, literals) as rate law, derived quantity,
computed coefficient and initial assignment; numeric coefficients of either sign incl.
fractional and zero; named and computed (``Derived``) coefficients of either sign, state
dependent, several per compound; initial assignments on variables and parameters incl.
chains; names that need escaping in every role; argument names permuted relative to the
function's parameter names; multi-statement bodies; random models (thorough).

Blame (the parser behind ``read`` is the third-party ``pysbml``): the written file is given an
independent meaning (libsbml -> document spec -> the SBML evaluator of bounded/C17.py).  A
contract failure is an MxlPy *export* failure when the file is invalid or does not denote M;
when the file denotes M, the failure is attributed to the import: to ``pysbml`` (recorded as a
violated assumption with evidence in ``extra.pysbml_unfaithful``, not a failure) if its
transformed model refuses / does not denote the file, otherwise to MxlPy's import code.

HOME is redirected to a private temporary directory inside the worker processes; file
stems are unique per case.
"""
from __future__ import annotations

import ast
import hashlib
import json
import linecache
import logging
import math
import os
import random
import shutil
import sys
import tempfile
import warnings
from concurrent.futures import ProcessPoolExecutor
from pathlib import Path

from bounded import C17 as doc
from vlib.core import CheckerError, Ctx, seed

RTOL, ATOL = 1e-9, 1e-12
REFUSALS = (NotImplementedError, ValueError, TypeError)

# ---------------------------------------------------------------------------
# model specs (json-able) -> real Model.  Functions are given as SOURCE TEXT and defined through
# linecache, so that mxlpy's exporter (inspect.getsource) sees exactly this text.


def make_fn(src: str):
    h = hashlib.sha1(src.encode()).hexdigest()[:12]
    fname = f"<verif-c08-{h}>"
    linecache.cache[fname] = (len(src), None, src.splitlines(True), fname)
    import numpy as np

    ns = {"math": math, "np": np, "numpy": np, "sqrt": math.sqrt, "exp": math.exp, "log": math.log,
          "sin": math.sin, "cos": math.cos, "power": np.power, "ceil": math.ceil, "log10": math.log10}
    exec(compile(src, fname, "exec"), ns)  # noqa: S102
    defs = [n for n in ast.parse(src).body if isinstance(n, ast.FunctionDef)]
    return ns[defs[-1].name]


def fn_src(expr: str, params=("s", "k"), name="rate", pre: str = "") -> str:
    return f"def {name}({', '.join(params)}):\n{pre}    return {expr}\n"


def _value(v):
    from mxlpy import InitialAssignment

    if isinstance(v, dict):
        return InitialAssignment(fn=make_fn(v["src"]), args=list(v["args"]))
    return v


def build_model(spec):
    from mxlpy import Derived, Model

    m = Model()
    for k, v in spec.get("variables", {}).items():
        m.add_variable(k, initial_value=_value(v))
    for k, v in spec.get("parameters", {}).items():
        m.add_parameter(k, value=_value(v))
    for name, src, args in spec.get("derived", []):
        m.add_derived(name, fn=make_fn(src), args=list(args))
    for name, src, args, stoich in spec.get("reactions", []):
        st = {}
        for cpd, c in stoich.items():
            st[cpd] = Derived(fn=make_fn(c["src"]), args=list(c["args"])) if isinstance(c, dict) else c
        fn = (lambda s, k: s * k) if spec.get("lambda") and name == "v" else make_fn(src)  # noqa: E731
        m.add_reaction(name, fn=fn, args=list(args), stoichiometry=st)
    return m


SRC_ONE = "def one(k):\n    return k\n"
SRC_MA = "def ma(s, k):\n    return s * k\n"
SRC_TWICE = "def twice(a):\n    return 2.0 * a\n"
SRC_NEGTWICE = "def negtwice(a):\n    return -2.0 * a\n"
SRC_ADD = "def add(a, b):\n    return a + b\n"


def host(rate_src=None, rate_args=("x", "k1"), **over):
    """x -> y with the slot as rate law, plus a constant influx of x and a drain of y."""
    spec = {
        "variables": {"x": 1.5, "y": 0.5},
        "parameters": {"k1": 0.8, "k2": 2.0, "kn": -1.5},
        "derived": [],
        "reactions": [
            ["v", rate_src or SRC_MA, list(rate_args), {"x": -1, "y": 1}],
            ["v_in", SRC_ONE, ["k2"], {"x": 1}],
            ["v_out", SRC_MA, ["y", "k1"], {"y": -1}],
        ],
    }
    spec.update(over)
    return spec


# ---------------------------------------------------------------------------
# enumerated cases

BINOPS = {
    "mul": "s * k", "add": "s + k", "sub": "s - k", "div": "s / k", "pow": "s ** k", "floordiv": "s // k",
    "mod": "s % k", "sub-nonassoc": "s - (k - s)", "div-nonassoc": "s / (k / s)", "pow-left": "(s ** k) ** 2",
    "pow-right": "s ** (k ** 2)", "neg-pow": "-s ** 2", "pow-of-neg": "(-s) ** 2", "precedence": "s + k * s - s / k",
    "nested": "s * (k + 1) / (k - s) ** 2",
}
UNOPS = {"neg": "-s", "pos": "+s", "not": "1.0 if not (s > 1) else k", "not-number": "not s", "invert": "k * ~2"}
COMPARES = {
    "lt": "k if s < 1 else 2 * k", "le": "k if s <= 1.5 else 2 * k", "gt": "k if s > 1 else 2 * k",
    "ge": "k if s >= 1.5 else 2 * k", "eq": "k if s == 1.5 else 2 * k", "ne": "k if s != 1.5 else 2 * k",
    "chain-lt-lt-first-link-decides": "k if 0.4 < s < 1.0 else 2 * k",
    "chain-lt-lt-second-link-decides": "k if 0.1 < s < 1.0 else 2 * k",
    "chain-le-lt": "k if k <= s < 2.0 else 2 * k", "chain-three-links": "k if 0.1 < k < s < 2.0 else 2 * k",
    "chain-gt-gt": "k if 2.0 > s > k else 2 * k",
    "and": "k if (s > 1 and k > 0.5) else 2.0", "or": "k if (s > 2 or k > 0.5) else 2.0",
    "compare-as-number": "k * (s > 1)", "is": "k if s is None else 2 * k",
}
IFEXPS = {
    "plain": "k if s < 1 else 2 * k", "constant-branches": "3 if s > 1 else 4", "nested": "k if s < 1 else (2 * k if s < 2 else 3 * k)",
    "inside-arithmetic": "k * (1.0 if s > 1 else 0.5) + s", "truthiness": "s if s else k",
    "inf-branch": "np.inf if s > 100 else k", "bool-constant-test": "k if True else s",
}
MATH_FNS = ["sqrt", "exp", "log", "log10", "log2", "log1p", "sin", "cos", "tan", "asin", "acos", "atan", "sinh", "cosh",
            "tanh", "asinh", "acosh", "atanh", "ceil", "floor", "fabs", "expm1", "gamma", "erf", "degrees", "trunc"]
NP_FNS = ["sqrt", "exp", "log", "log10", "log2", "log1p", "abs", "absolute", "ceil", "floor", "sin", "cos", "tan", "arcsin",
          "arccos", "arctan", "sinh", "cosh", "tanh", "arcsinh", "arccosh", "arctanh", "square", "sign", "negative",
          "reciprocal", "cbrt", "exp2", "expm1", "trunc", "rint", "float64"]
CALLS2 = {
    "np.power": "np.power(s, k)", "numpy.power": "numpy.power(s, k)", "math.pow": "math.pow(s, k)", "pow": "pow(s, k)",
    "power(bare)": "power(s, k)", "max": "max(s, k)", "min": "min(s, k)", "max3": "max(s, k, 1.0)", "min3": "min(s, k, 1.0)",
    "np.maximum": "np.maximum(s, k)", "np.minimum": "np.minimum(s, k)", "np.fmax": "np.fmax(s, k)",
    "np.remainder": "np.remainder(s, k)", "np.mod": "np.mod(s, k)", "math.fmod": "math.fmod(s, k)",
    "math.remainder": "math.remainder(s, k)", "math.log-with-base": "math.log(s, k + 1)", "math.atan2": "math.atan2(s, k)",
    "math.hypot": "math.hypot(s, k)", "np.arctan2": "np.arctan2(s, k)", "np.where": "np.where(s > 1, k, 2 * k)",
    "np.heaviside": "np.heaviside(s - 1, k)", "np.clip": "np.clip(s, 0.5, k + 1)", "abs": "abs(s - 1)", "round": "round(s)",
    "float": "float(s) * k", "int": "int(s) * k", "divmod-index": "divmod(s, k)[0]",
    "sqrt(bare)": "sqrt(s)", "exp(bare)": "exp(-s)", "log(bare)": "log(s)", "sin(bare)": "sin(s)", "ceil(bare)": "ceil(s)",
    "log10(bare)": "log10(s)", "math.log-keyword-free": "math.log(s) / math.log(10)", "np.log-of-product": "np.log(s * k + 1)",
    "nested-calls": "np.exp(-np.sqrt(s)) * math.cos(k)", "call-in-power": "np.exp(s) ** 0.5",
    "lambda-call": "(lambda q: q)(s)", "subscript": "(s, k)[0]", "unknown-helper": "helper(s) * k",
    "method-call": "float(s).real * k", "np.linalg": "np.linalg.norm(s) * k",
}
CONSTS = {
    "math.pi": "math.pi * s", "np.pi": "np.pi * s", "numpy.pi": "numpy.pi * s", "math.e": "math.e * s", "np.e": "np.e * s",
    "math.inf": "k if s < math.inf else 0.0", "np.inf": "k if s < np.inf else 0.0", "np.nan": "k if s == s else np.nan",
    "math.tau": "math.tau * s", "np.euler_gamma": "np.euler_gamma * s", "int": "2", "int-factor": "3 * s", "float": "2.5 * s",
    "float-sci": "2.5e-3 * s", "float-large": "1e22 * s", "float-small": "1e-22 * s", "fraction": "1 / 3 * s",
    "neg-literal-pow": "2 ** -1 * s", "true": "True", "false-branch": "k if False else s", "none": "None",
    "complex": "(2j * s).real", "string": "k if 'a' else s", "hex": "0x10 * s",
}
HELPER = "def helper(q):\n    return 2.0 * q\n\n\n"


def _dom(fn):
    """argument inside the domain of the function for the whole grid (values 0.1 .. 2.6)"""
    if fn in ("asin", "acos", "atanh", "arcsin", "arccos", "arctanh"):
        return "s / 3"
    if fn in ("acosh", "arccosh"):
        return "s + 1"
    return "s"


NAME_CLASSES = {
    "plain": "x1", "underscore-inside": "x_1", "upper": "X", "non-ascii-letter": "xé", "hyphen": "x-1", "dot": "x.1",
    "space": "x 1", "leading-digit": "1x", "leading-underscore": "_x", "parentheses": "x(c)", "brackets": "x[c]",
    "python-keyword": "lambda", "looks-escaped": "x__45__1", "greek": "α", "plus": "x+", "slash": "x/y", "colon": "x:1",
    "quote": "x'", "named-compartment": "compartment", "named-like-importer-addition": "x_amount",
    "sympy-constant-E": "E", "sympy-constant-pi": "pi", "named-exp": "exp", "star": "x*", "equals": "x=y",
    "escape-collision-pair": "a-b",
}


def named_host(name, kind):
    if kind == "variable":
        return {"variables": {name: 1.5, "y": 0.5}, "parameters": {"k1": 0.8},
                "reactions": [["v", SRC_MA, [name, "k1"], {name: -1, "y": 1}]]}
    if kind == "parameter":
        return {"variables": {"x": 1.5, "y": 0.5}, "parameters": {name: 0.8},
                "reactions": [["v", SRC_MA, ["x", name], {"x": -1, "y": 1}]]}
    if kind == "reaction":
        return {"variables": {"x": 1.5, "y": 0.5}, "parameters": {"k1": 0.8},
                "reactions": [[name, SRC_MA, ["x", "k1"], {"x": -1, "y": 1}]]}
    if kind == "derived":
        return {"variables": {"x": 1.5, "y": 0.5}, "parameters": {"k1": 0.8}, "derived": [[name, SRC_TWICE, ["x"]]],
                "reactions": [["v", SRC_MA, [name, "k1"], {"x": -1, "y": 1}]]}
    raise KeyError(kind)


def enumerate_cases(tier, rng):
    quick = tier == "quick"
    cases = []

    def add(cls, spec):
        cases.append({"cls": cls, "model": spec})

    def slot(cls, expr, params=("s", "k"), args=("x", "k1"), pre="", prefix=""):
        add(cls, host(prefix + fn_src(expr, params, pre=pre), args))

    for n, e in BINOPS.items():
        slot(f"binop:{n}", e)
    slot("binop:floordiv-negative-divisor", "s // k", args=("x", "kn"))
    slot("binop:pow-negative-base", "k ** 2 * s", args=("x", "kn"))
    slot("call:math.fmod-negative-divisor", "math.fmod(s, k)", args=("x", "kn"))
    slot("call:np.remainder-negative-divisor", "np.remainder(s, k)", args=("x", "kn"))
    for n, e in UNOPS.items():
        slot(f"unaryop:{n}", e)
    for n, e in COMPARES.items():
        slot(f"compare:{n}", e)
    for n, e in IFEXPS.items():
        slot(f"ifexp:{n}", e)
    for f in MATH_FNS:
        slot(f"call:math.{f}", f"k * math.{f}({_dom(f)})")
    for f in NP_FNS:
        slot(f"call:np.{f}", f"k * np.{f}({_dom(f)})")
    for n, e in CALLS2.items():
        slot(f"call:{n}", e, prefix=HELPER if "helper" in e else "")
    for n, e in CONSTS.items():
        slot(f"constant:{n}", e)

    # the slot in other positions
    pos_exprs = {"mm": "k * s / (0.5 + s)", "ifexp": "k if s < 1 else 2 * k", "exp": "k * math.exp(-s)", "sqrt": "k * np.sqrt(s)",
                 "pow": "s ** k", "max": "max(s, k)", "neg": "-(s + k)"}
    for n, e in pos_exprs.items():
        src = fn_src(e, name="fpos")
        add(f"position:derived-variable:{n}", host(SRC_MA, ("d", "k2"), derived=[["d", src, ["x", "k1"]]]))
        add(f"position:derived-parameter:{n}", host(SRC_MA, ("x", "d"), derived=[["d", src, ["k2", "k1"]]]))
        sp = host()
        sp["reactions"][0][3] = {"x": -1, "y": {"src": src, "args": ["k2", "k1"]}}
        add(f"position:computed-coefficient:{n}", sp)
        sp = host()
        sp["reactions"][0][3] = {"x": -1, "y": {"src": src, "args": ["x", "k1"]}}
        add(f"position:state-dependent-coefficient:{n}", sp)
        sp = host()
        sp["variables"]["y"] = {"src": src, "args": ["k2", "k1"]}
        add(f"position:initial-assignment-variable:{n}", sp)
        sp = host()
        sp["parameters"]["k1"] = {"src": src, "args": ["k2", "kn"] if n not in ("sqrt", "pow") else ["k2", "k2"]}
        add(f"position:initial-assignment-parameter:{n}", sp)

    # stoichiometry
    for c in [-1, 1, -2, 3, -0.5, 0.5, 1.5, -2.25, 0, -1.0, 2.0, 1e-3, -1e3, 1 / 3]:
        sp = host()
        sp["reactions"][0][3] = {"x": c, "y": 1}
        add(f"coefficient:number:{c!r}", sp)
    for pname in ("k2", "kn"):
        sp = host()
        sp["reactions"][0][3] = {"x": -1, "y": pname}
        add(f"coefficient:named-parameter:{'pos' if pname == 'k2' else 'neg'}", sp)
    for n, src, a in (("pos", SRC_TWICE, ["k2"]), ("neg", SRC_NEGTWICE, ["k2"]), ("neg-of-neg", SRC_NEGTWICE, ["kn"]),
                      ("state-dependent-neg", SRC_NEGTWICE, ["y"]), ("state-dependent-pos", SRC_TWICE, ["x"]),
                      ("time-dependent", SRC_TWICE, ["time"])):
        sp = host()
        sp["reactions"][0][3] = {"x": -1, "y": {"src": src, "args": a}}
        add(f"coefficient:computed:{n}", sp)
    sp = host()
    sp["reactions"][0][3] = {"x": {"src": SRC_NEGTWICE, "args": ["k2"]}, "y": {"src": SRC_TWICE, "args": ["k1"]}}
    add("coefficient:computed:two-in-one-reaction", sp)
    sp = host()
    sp["reactions"][0][3] = {"x": -1, "y": {"src": SRC_TWICE, "args": ["k2"]}}
    sp["reactions"][2][3] = {"y": {"src": SRC_NEGTWICE, "args": ["k1"]}}
    add("coefficient:computed:same-compound-in-two-reactions", sp)
    sp = host(derived=[["dcoef", SRC_NEGTWICE, ["k1"]]])
    sp["reactions"][0][3] = {"x": "dcoef", "y": 1}
    add("coefficient:named-derived", sp)

    # initial assignments
    def ia(cls, f):
        sp = host()
        f(sp)
        add(f"initial-assignment:{cls}", sp)

    ia("variable<-parameter", lambda sp: sp["variables"].update(y={"src": SRC_TWICE, "args": ["k2"]}))
    ia("variable<-variable", lambda sp: sp["variables"].update(y={"src": SRC_TWICE, "args": ["x"]}))
    ia("parameter<-parameter", lambda sp: sp["parameters"].update(k1={"src": SRC_TWICE, "args": ["k2"]}))
    ia("parameter<-variable", lambda sp: sp["parameters"].update(k1={"src": SRC_TWICE, "args": ["x"]}))
    ia("chain:variable<-parameter<-parameter", lambda sp: (sp["parameters"].update(k1={"src": SRC_TWICE, "args": ["k2"]}),
                                                          sp["variables"].update(y={"src": SRC_ADD, "args": ["k1", "x"]})))
    ia("variable<-derived", lambda sp: (sp["derived"].append(["dp", SRC_TWICE, ["k2"]]),
                                        sp["variables"].update(y={"src": SRC_TWICE, "args": ["dp"]})))
    ia("both-variables", lambda sp: sp["variables"].update(x={"src": SRC_TWICE, "args": ["k1"]}, y={"src": SRC_TWICE, "args": ["k2"]}))

    # names
    kinds = ("variable", "parameter", "reaction", "derived")
    for cname, name in NAME_CLASSES.items():
        for kind in kinds:
            add(f"name:{cname}", named_host(name, kind))  # the role is part of the witness, not of the key
    sp = named_host("a-b", "variable")
    sp["parameters"]["a__45__b"] = 0.25
    add("name:escape-collision-pair-in-one-model", sp)

    # argument names permuted relative to the function's parameter names
    f3 = "def f(x, z, k):\n    return k * x / (1 + z)\n"
    import itertools

    for perm in itertools.permutations(["x", "z", "k"]):
        add("permuted-arguments:" + ",".join(perm),
            {"variables": {"x": 1.5, "z": 0.5}, "parameters": {"k": 0.8},
             "reactions": [["v", f3, list(perm), {"x": -1, "z": 1}], ["v_in", SRC_ONE, ["k"], {"x": 1}]]})
    add("permuted-arguments:mm-swapped", {"variables": {"x": 1.5}, "parameters": {"vmax": 0.8, "km": 0.3},
        "reactions": [["v", "def mm(s, vmax, km):\n    return vmax * s / (km + s)\n", ["x", "km", "vmax"], {"x": -1}]]})
    add("permuted-arguments:shifted-cycle", {"variables": {"a": 1.5, "b": 0.5, "c": 0.9}, "parameters": {"k": 0.8},
        "reactions": [["v", "def g(a, b, c):\n    return a - 2 * b + 3 * c\n", ["b", "c", "a"], {"a": -1, "b": 1}],
                      ["w", SRC_MA, ["c", "k"], {"c": -1}]]})
    add("permuted-arguments:derived", {"variables": {"x": 1.5, "z": 0.5}, "parameters": {"k": 0.8},
        "derived": [["d", f3, ["z", "k", "x"]]], "reactions": [["v", SRC_MA, ["d", "k"], {"x": -1, "z": 1}]]})
    add("permuted-arguments:parameter-named-like-other-model-component",
        host(fn_src("s * y", ("s", "y")), ("x", "k1")))
    add("permuted-arguments:same-argument-twice", host(fn_src("s * k", ("s", "k")), ("x", "x")))

    # bodies with more than one statement
    bodies = {
        "docstring": 'def f(s, k):\n    """Rate."""\n    return k * s\n',
        "annotated": "def f(s: float, k: float) -> float:\n    return k * s\n",
        "comment": "def f(s, k):\n    # a comment\n    return k * s  # trailing\n",
        "assignment-then-return": "def f(s, k):\n    q = s * s\n    return k * q\n",
        "assignment-shadows-model-name": "def f(s, k):\n    y = s * s\n    return k * y / (1 + y)\n",
        "guard-return": "def f(s, k):\n    if s < 1:\n        return 0.0\n    return k * s\n",
        "if-else-returns": "def f(s, k):\n    if s < 1:\n        return k\n    else:\n        return 2 * k\n",
        "augmented-assignment": "def f(s, k):\n    q = s\n    q *= k\n    return q\n",
        "unused-statement": "def f(s, k):\n    s + k\n    return k * s\n",
        "two-returns": "def f(s, k):\n    return k * s\n    return k\n",
        "pass-then-return": "def f(s, k):\n    pass\n    return k * s\n",
        "assert-then-return": "def f(s, k):\n    assert k > 0\n    return k * s\n",
        "multi-line-expression": "def f(s, k):\n    return (\n        k\n        * s\n    )\n",
        "decorated": "def deco(g):\n    return g\n\n\n@deco\ndef f(s, k):\n    return k * s\n",
        "default-argument": "def f(s, k=2.0):\n    return k * s\n",
        "global-constant": "Q = 3.0\n\n\ndef f(s, k):\n    return k * s * Q\n",
        "global-constant-named-like-parameter": "k2 = 3.0\n\n\ndef f(s, k):\n    return k * s * k2\n",
        "walrus": "def f(s, k):\n    return (q := s * k) + q\n",
        "nested-function": "def f(s, k):\n    def g(a):\n        return a * a\n    return k * g(s)\n",
    }
    for n, src in bodies.items():
        add(f"body:{n}", host(src, ("x", "k1")))
    add("body:lambda", {"lambda": True, **host()})

    # model shapes
    add("shape:derived-chain", host(SRC_MA, ("dd", "dp"), derived=[["dp", SRC_TWICE, ["k1"]], ["dv", SRC_ADD, ["x", "dp"]], ["dd", SRC_TWICE, ["dv"]]]))
    add("shape:derived-declared-before-its-dependency", host(SRC_MA, ("dd", "k1"), derived=[["dd", SRC_TWICE, ["dv"]], ["dv", SRC_ADD, ["x", "y"]]]))
    add("shape:derived-of-flux", host(derived=[["dfl", SRC_TWICE, ["v"]]]))
    add("shape:rate-of-flux", {**host(), "reactions": host()["reactions"] + [["v2", SRC_MA, ["v", "k1"], {"y": -1}]]})
    add("shape:time-in-rate", host(SRC_MA, ("x", "time")))
    add("shape:time-in-derived", host(SRC_MA, ("x", "dt"), derived=[["dt", SRC_ADD, ["time", "k1"]]]))
    add("shape:variable-without-reaction", {**host(), "variables": {"x": 1.5, "y": 0.5, "z": 0.25}})
    add("shape:modifier-only", host(SRC_MA, ("y", "k1")))
    add("shape:no-parameters", {"variables": {"x": 1.5, "y": 0.5}, "parameters": {},
                                "reactions": [["v", SRC_MA, ["x", "y"], {"x": -1, "y": 1}]]})
    add("shape:negative-and-zero-values", {"variables": {"x": -1.5, "y": 0.0}, "parameters": {"k1": 0.0, "k2": -2.0},
                                           "reactions": [["v", SRC_MA, ["x", "k2"], {"x": -1, "y": 1}], ["w", SRC_ONE, ["k1"], {"y": 1}]]})
    add("shape:extreme-values", {"variables": {"x": 1.5e-12, "y": 2.5e15}, "parameters": {"k1": 1.23456789012345e-7},
                                 "reactions": [["v", SRC_MA, ["x", "k1"], {"x": -1, "y": 1}]]})
    add("shape:same-function-in-two-reactions", host())

    n_rand = 30 if quick else 400
    for _ in range(n_rand):
        spec, feats = random_model(rng)
        add("random:" + "+".join(sorted(feats)), spec)
    return cases


def random_py_expr(rng, names, depth):
    if depth <= 0 or rng.random() < 0.25:
        return rng.choice(names) if rng.random() < 0.75 else rng.choice(["0.5", "2", "1.25", "3"])
    sub = lambda: random_py_expr(rng, names, depth - 1)  # noqa: E731
    pos = lambda: f"(0.5 + abs({sub()}))"  # noqa: E731
    k = rng.choice(["add", "mul", "sub", "div", "pow", "neg", "exp", "log", "sqrt", "ifexp", "max", "tanh", "abs", "npfun"])
    if k == "add":
        return f"({sub()} + {sub()})"
    if k == "mul":
        return f"{sub()} * {sub()}"
    if k == "sub":
        return f"({sub()} - {sub()})"
    if k == "div":
        return f"{sub()} / {pos()}"
    if k == "pow":
        return f"{pos()} ** {rng.choice(['2', '0.5', '1.5', '-1', '3'])}"
    if k == "neg":
        return f"-({sub()})"
    if k == "exp":
        return f"{rng.choice(['math', 'np'])}.exp(-abs({sub()}))"
    if k == "log":
        return f"{rng.choice(['math', 'np'])}.log({pos()})"
    if k == "sqrt":
        return f"{rng.choice(['math', 'np'])}.sqrt({pos()})"
    if k == "tanh":
        return f"{rng.choice(['math', 'np'])}.tanh({sub()})"
    if k == "npfun":
        return f"np.{rng.choice(['sin', 'cos', 'arctan', 'sinh', 'ceil'])}({sub()})"
    if k == "abs":
        return f"abs({sub()})"
    if k == "max":
        return f"{rng.choice(['max', 'min'])}({sub()}, {sub()})"
    return f"({sub()} if {sub()} {rng.choice(['<', '>', '<=', '>='])} {sub()} else {sub()})"


def random_model(rng):
    feats = set()
    nv = rng.choice([2, 3])
    vs = ["x", "y", "z"][:nv]
    ps = ["k1", "k2", "k3"][: rng.choice([2, 3])]
    spec = {"variables": {v: round(rng.uniform(0.2, 2.0), 3) for v in vs},
            "parameters": {p: round(rng.uniform(0.1, 3.0), 3) * rng.choice([1, 1, 1, -1]) for p in ps},
            "derived": [], "reactions": []}
    names = vs + ps
    if rng.random() < 0.5:
        formal = ["a", "b", "c"][: rng.choice([1, 2, 3])]
        actual = rng.sample(names, len(formal))
        spec["derived"].append(["d0", fn_src(random_py_expr(rng, formal, 2), formal, "fd0"), actual])
        names = names + ["d0"]
        feats.add("derived")
    if rng.random() < 0.3:
        names = names + ["time"]
        feats.add("time")
    for i in range(rng.choice([2, 3])):
        n_args = rng.choice([1, 2, 3])
        actual = rng.sample(names, min(n_args, len(names)))
        # formal names deliberately overlap with model names in other positions
        pool = rng.sample(vs + ps, len(actual)) if rng.random() < 0.5 else ["a", "b", "c"][: len(actual)]
        if pool != actual and set(pool) & set(actual):
            feats.add("overlapping-names")
        st = {}
        for j, v in enumerate(rng.sample(vs, rng.choice([1, 2]))):
            c = rng.choice([-1, 1, -2, 2, -0.5, 0.5, 1.5, -2.25])
            if j == 0 and c > 0 and rng.random() < 0.7:
                c = -c
            st[v] = c
        spec["reactions"].append([f"r{i}", fn_src(random_py_expr(rng, pool, 3), pool, f"fr{i}"), actual, st])
        if any(c != int(c) for c in st.values()):
            feats.add("fractional")
    feats.add("conditional" if " if " in json.dumps(spec) else "smooth")
    return spec, feats


# ---------------------------------------------------------------------------
# checking one case on the real code (inside a worker process)

_close = doc._close
_ROOT = None


def _init_worker(root):
    global _ROOT
    doc._init_worker(root)
    _ROOT = doc._ROOT


def _reference(m, rng, n_states):
    """Values of the ORIGINAL model on the grid: [(state, time, args, rhs)] for states where it is defined."""
    ic = {k: float(v) for k, v in m.get_initial_conditions().items()}
    states = [dict(ic)]
    fixed = [0.37, 0.98, 2.3, 1.85, 0.8, 1.2]
    for j in range(n_states):
        states.append({k: (fixed[(2 * j + i) % len(fixed)] if j < 2 else round(rng.uniform(0.15, 2.6), 3))
                       for i, k in enumerate(ic)})
    ref = []
    for st in states:
        for t in (0.0, 0.7):
            try:
                a = m.get_args(st, time=t)
                r = m.get_right_hand_side(st, time=t)
                av = {k: float(v) for k, v in a.items()}
                rv = {k: float(v) for k, v in r.items()}
            except Exception:  # noqa: BLE001  (state outside the domain of the rate laws)
                continue
            if all(math.isfinite(v) for v in [*av.values(), *rv.values()]):
                ref.append((st, t, av, rv))
    return ic, ref


def _contract(m, m2, ic, ref):
    """(C) on the re-read model; returns [(symptom, detail)] (first of each symptom)."""
    out = []
    try:
        ic2 = {k: float(v) for k, v in m2.get_initial_conditions().items()}
        a20 = m2.get_args()
        pars2 = {k: float(v) for k, v in a20.items()}
    except BaseException as e:  # noqa: BLE001
        return [("reimported-model-unusable", f"{type(e).__name__}: {e}"[:300])]
    kinds = {"variable": list(ic), "parameter": list(m.get_parameter_names()), "derived": list(m.get_raw_derived()),
             "reaction": list(m.get_reaction_names())}
    have = {"variable": set(ic2), "parameter": set(a20.index), "derived": set(a20.index), "reaction": set(a20.index)}
    for kind, names in kinds.items():
        miss = [n for n in names if n not in have[kind]]
        if miss:
            out.append(("component-missing-under-its-name", {"kind": kind, "missing": miss, "reimported": sorted(a20.index)}))
    for k, v in ic.items():
        if k in ic2 and not _close(v, ic2[k]):
            out.append(("initial-value-differs", {"name": k, "original": v, "reimported": ic2[k]}))
    p0 = {k: float(v) for k, v in m.get_parameter_values().items()}
    for k, v in p0.items():
        if k in pars2 and not _close(v, pars2[k]):
            out.append(("parameter-value-differs", {"name": k, "original": v, "reimported": pars2[k]}))
    der, rxn = set(kinds["derived"]), set(kinds["reaction"])
    for st, t, av, rv in ref:
        full = dict(ic2)
        full.update({k: v for k, v in st.items() if k in ic2})
        try:
            a2 = m2.get_args(full, time=t)
            r2 = m2.get_right_hand_side(full, time=t)
        except BaseException as e:  # noqa: BLE001
            out.append(("reimported-model-raises-at-a-state", {"state": st, "time": t, "error": f"{type(e).__name__}: {e}"[:200]}))
            continue
        for k, v in av.items():
            if k in a2.index and k != "time" and not _close(v, float(a2[k])):
                s = "derived-value-differs" if k in der else "flux-differs" if k in rxn else "value-differs"
                out.append((s, {"name": k, "original": v, "reimported": float(a2[k]), "state": st, "time": t}))
        for k, v in rv.items():
            if k in r2.index and not _close(v, float(r2[k])):
                out.append(("derivative-differs", {"name": k, "original": v, "reimported": float(r2[k]), "state": st, "time": t}))
    order = ["reimported-model-unusable", "component-missing-under-its-name", "initial-value-differs", "parameter-value-differs",
             "reimported-model-raises-at-a-state", "derived-value-differs", "flux-differs", "value-differs", "derivative-differs"]
    first = {}
    for s, d in out:
        first.setdefault(s, d)
    return [(s, first[s]) for s in order if s in first]


def _export_denotes_model(xml, m, ic, ref):
    """Independent meaning of the written file (libsbml -> spec -> SBML evaluator) against the original model.
    Returns (True/False/None, detail); None = not comparable by name."""
    # every file sbml.write produces carries two errors that do not affect its meaning (the L3V1 attribute `fast` in an
    # L3V2 document, fbc strict=true without flux bounds); they are not held against a particular construct
    errs = [e for e in doc.validate(xml) if not (e.startswith("21110:") or int(e.split(":")[0]) >= 1_000_000)]
    if errs:
        return False, {"libsbml-consistency-errors": errs[:4]}
    try:
        spec = doc.spec_from_xml(xml)
        sem = doc.Sem(spec)
    except Exception as e:  # noqa: BLE001
        return False, {"document-not-evaluable": f"{type(e).__name__}: {e}"[:200]}
    names = set(sem.init)
    wanted = [*ic, *m.get_parameter_names(), *m.get_raw_derived(), *m.get_reaction_names()]
    if any(n not in names for n in wanted):
        return None, {"ids-differ-from-names": [n for n in wanted if n not in names][:5]}
    if set(sem.dynamic) - set(ic):
        return False, {"extra-dynamic": sorted(set(sem.dynamic) - set(ic))}
    for k, v in ic.items():
        if not _close(v, sem.init[k]):
            return False, {"initial-value": k, "original": v, "document": sem.init[k]}
    for st, t, av, rv in ref:
        try:
            vals, ddt = sem.at(st, t)
        except Exception as e:  # noqa: BLE001
            return False, {"document-not-evaluable-at-state": f"{type(e).__name__}: {e}"[:200], "state": st}
        for k, v in av.items():
            if k in vals and k != "time" and not _close(v, vals[k]):
                return False, {"value": k, "original": v, "document": vals[k], "state": st, "time": t}
        for k, v in rv.items():
            if not _close(v, ddt.get(k, 0.0)):
                return False, {"derivative": k, "original": v, "document": ddt.get(k, 0.0), "state": st, "time": t}
    return True, {"document": spec}


def check_case(case, idx, n_states=3):
    import pysbml
    from mxlpy import sbml

    rng = random.Random(seed() * 1000003 + idx)
    rec = {"cls": case["cls"], "idx": idx, "outcome": None, "failure": None, "excluded": None, "invalid": None, "evals": 0}
    try:
        m = build_model(case["model"])
        ic, ref = _reference(m, rng, n_states)
    except Exception as e:  # noqa: BLE001
        rec["invalid"] = f"original model does not evaluate: {type(e).__name__}: {e}"[:200]
        return rec
    if len(ref) < 2:
        rec["invalid"] = "original model defined at fewer than 2 grid points"
        return rec
    rec["evals"] = len(ref)
    base = _ROOT / f"case{idx}"
    base.mkdir(parents=True, exist_ok=True)
    path = base / f"c08_{idx}.xml"
    wit = {"cls": case["cls"], "model": case["model"]}

    def fail(symptom, blame, detail):
        rec["outcome"] = "failed"
        rec["failure"] = {"symptom": symptom, "blame": blame, "witness": wit, "detail": detail}

    try:
        try:
            sbml.write(m, path)
        except REFUSALS as e:
            rec["outcome"] = "refused"
            rec["refusal"] = f"{type(e).__name__}: {e}"[:120]
            return rec
        except BaseException as e:  # noqa: BLE001
            fail("export-crashes", "export", {"error": f"{type(e).__name__}: {e}"[:300]})
            return rec
        xml = path.read_text()
        try:
            m2, err = sbml.read(path), None
        except BaseException as e:  # noqa: BLE001
            m2, err = None, f"{type(e).__name__}: {e}"[:300]
        problems = [("reimport-raises", err)] if m2 is None else _contract(m, m2, ic, ref)
        if not problems:
            rec["outcome"] = "reproduced"
            return rec
        symptom, det = problems[0]
        detail = {"mismatch": det, "all_symptoms": [p[0] for p in problems]}
        ok, why = _export_denotes_model(xml, m, ic, ref)
        detail["exported_document_denotes_model"] = ok
        if ok is not True:
            detail["export"] = why
            fail(symptom, "export", detail)
            return rec
        # the file denotes the model: the import is at fault - pysbml or MxlPy's own part?
        try:
            tm, tm_err = pysbml.load_and_transform_model(path), None
        except BaseException as e:  # noqa: BLE001
            tm, tm_err = None, f"{type(e).__name__}: {e}"[:300]
        if tm is None:
            rec["outcome"] = "excluded"
            rec["excluded"] = {"why": "pysbml-refuses-a-file-that-denotes-the-model", "detail": [symptom, tm_err]}
            return rec
        ok0, l0 = doc._transformed_model_denotes_document(why["document"], tm, rng, 2)
        if not ok0:
            rec["outcome"] = "excluded"
            rec["excluded"] = {"why": "pysbml-transformed-model-differs-from-a-file-that-denotes-the-model",
                               "detail": [symptom, det if isinstance(det, str) else det, l0[:1]]}
            return rec
        detail["import"] = "pysbml's transformed model denotes the file; the model built from it does not"
        fail(symptom, "import", detail)
        return rec
    finally:
        shutil.rmtree(base, ignore_errors=True)


def _work(chunk):
    n_states, items = chunk
    return [check_case(case, idx, n_states=n_states) for idx, case in items]


def replay(witness):
    """Re-run one witness in this process (used by findings/*.py)."""
    root = tempfile.mkdtemp(prefix="verif_c08_replay_")
    old_home = os.environ.get("HOME")
    try:
        _init_worker(root)
        return check_case({"cls": witness["cls"], "model": witness["model"]}, 0)
    finally:
        if old_home is not None:
            os.environ["HOME"] = old_home
        shutil.rmtree(root, ignore_errors=True)


def run(ctx: Ctx) -> None:
    doc._quiet()
    doc._self_test()
    quick = ctx.tier == "quick"
    rng = random.Random(seed())
    cases = enumerate_cases(ctx.tier, rng)
    n_states = 3 if quick else 4
    ctx.assume(
        f"numbers compared with rel {RTOL:g} / abs {ATOL:g} (generated code prints floats with 15+ significant digits)",
        "grid points at which the ORIGINAL model raises or is not finite are outside the bound (>= 2 points required per case)",
        "third-party pysbml.load_and_transform_model denotes the file it reads (ASSUMED; violated for the classes listed in "
        "extra.pysbml_unfaithful - those cases are excluded, with the evidence that the written file itself denotes the model)",
        "NotImplementedError / ValueError / TypeError from sbml.write count as the refusal the property allows",
        "default compartment / units arguments of sbml.write",
    )
    ctx.trust("libsbml (reader / validator of the written file)", "independent SBML L3 evaluator of bounded/C17.py",
              "inspect.getsource through linecache returns the registered function text")
    workers = min(8 if quick else 14, os.cpu_count() or 1)
    items = list(enumerate(cases))
    chunks = [(n_states, items[i::workers * 3]) for i in range(workers * 3)]
    chunks = [c for c in chunks if c[1]]
    root = tempfile.mkdtemp(prefix="verif_c08_")
    try:
        with ProcessPoolExecutor(max_workers=workers, initializer=_init_worker, initargs=(root,)) as ex:
            recs = [r for part in ex.map(_work, chunks) for r in part]
    finally:
        shutil.rmtree(root, ignore_errors=True)
    recs.sort(key=lambda r: r["idx"])
    invalid = [(r["cls"], r["invalid"]) for r in recs if r["invalid"]]
    enumerated_invalid = [x for x in invalid if not x[0].startswith("random:")]
    valid = [r for r in recs if not r["invalid"]]
    counts = {"reproduced": 0, "refused": 0, "failed": 0, "excluded": 0}
    excluded, refused = {}, {}
    for r in valid:
        counts[r["outcome"]] += 1
        cls = "random" if r["cls"].startswith("random:") else r["cls"]
        if r["outcome"] == "excluded":
            excluded[f"{r['excluded']['why']}:{cls}"] = r["excluded"]["detail"]
        if r["outcome"] == "refused":
            refused[cls] = r["refusal"]
        if r["outcome"] == "failed":
            f = r["failure"]
            ctx.fail(key=f"bounded:{f['symptom']}:{cls}", kind="bounded",
                     what=f"sbml.write + sbml.read: {f['symptom']} ({r['cls']}; blame: {f['blame']}): "
                          f"{json.dumps(f['detail'].get('mismatch', f['detail']), default=str)[:200]}",
                     witness=f["witness"], replayed=True, detail=f["detail"])
    if counts["reproduced"] == 0 and counts["failed"] == 0:
        raise CheckerError("C08: no case was exported and re-imported - the stand-in explored nothing")
    ctx.extra["outcomes"] = counts
    ctx.extra["refused_by_export"] = refused
    ctx.extra["pysbml_unfaithful"] = excluded
    ctx.extra["cases_outside_the_quantifier"] = {"count": len(invalid), "examples": invalid[:40]}
    ctx.notes.append(f"C08 bounded: {len(valid)} models inside the quantifier ({len(invalid)} candidate shapes dropped because the "
                     f"original model does not evaluate, {len(enumerated_invalid)} of them enumerated): {counts}")
    ctx.add_bounded(
        name="C08 sbml.write + sbml.read on enumerated surrogate-free models",
        tool="exhaustive enumeration of exporter tables + random models; libsbml + independent SBML evaluator for blame",
        bound=(f"host model with one slot x {{{len(BINOPS) + 4} binary / {len(UNOPS)} unary operator shapes, {len(COMPARES)} comparison / "
               f"boolean shapes, {len(IFEXPS)} conditional shapes, {len(MATH_FNS)} math.* + {len(NP_FNS)} np.* unary calls, {len(CALLS2)} other "
               f"call shapes, {len(CONSTS)} constants}}; 7 shapes x 6 positions; 14 numeric + 10 named / computed coefficients; 7 "
               f"initial-assignment shapes; {len(NAME_CLASSES)} name classes x 4 roles; 12 argument permutations; 20 body shapes; 12 model "
               f"shapes; {30 if quick else 400} random models; {n_states + 1} states x 2 times"),
        cases=len(valid), distinct_nontrivial=len({json.dumps(c["model"], sort_keys=True) for c in cases}),
        rule="one case = one model built from function SOURCE TEXT, written with the real sbml.write and read back with the real "
             "sbml.read; distinct by canonical JSON of the model spec; candidate shapes whose original model does not evaluate "
             "are not counted",
        exhaustive=False,
        samples=[{"cls": c["cls"], "model": c["model"]} for c in cases[:2]],
    )
    ctx.evaluations += sum(r["evals"] for r in valid)
